//! C05 reference interpreter: OpenType GPOS / kern semantics evaluated on the generator's AST
//! (never on bytes, never through allsorts), plus the pen model used by the oracle.
//!
//! Reading of the specification implemented here (OpenType 1.9, chapters "GPOS", "Common table
//! formats", "kern"):
//!  * the lookups of all enabled features are applied in LookupList order, each over the whole run;
//!    `Order::PerFeature` is the alternative some engines use (feature by feature) — the oracle only
//!    judges cases where both orders give the same result;
//!  * a lookup visits the glyphs its LookupFlag / GDEF do not skip; the first subtable that applies wins;
//!  * after a lookup applied at a position processing resumes after the glyphs that formed its input
//!    (pair: at the second glyph if valueFormat2 is 0, after it otherwise; context: after the input);
//!  * value records add to placement and advance; an attachment (mark, cursive) positions the glyph
//!    absolutely w.r.t. the glyph it attaches to, later value records add to that;
//!  * mark-to-base/ligature: the base is the closest preceding glyph that is not a mark; mark-to-mark:
//!    the closest preceding glyph the lookup does not filter out, which must be a mark;
//!  * cursive: consecutive non-skipped glyphs, exit anchor of the first onto entry anchor of the second.

use super::c05_gen::*;
use std::collections::BTreeSet;

#[derive(Clone, Copy, Debug, PartialEq)]
pub enum Order {
    LookupList,
    PerFeature,
}

#[derive(Clone, Copy, Debug, PartialEq)]
pub struct MarkAtt {
    pub base: usize,
    pub bx: i32,
    pub by: i32,
    pub mx: i32,
    pub my: i32,
}

#[derive(Clone, Copy, Debug, PartialEq)]
pub struct CLink {
    pub to: usize,
    pub exit: (i32, i32),
    pub entry: (i32, i32),
    pub rtl_flag: bool,
}

#[derive(Clone, Debug, PartialEq, Default)]
pub struct GState {
    pub gid: u16,
    pub comp: u16,          // ligature component the glyph (a mark) was associated with by GSUB
    pub lig_owner: Option<usize>, // index of the ligature glyph that association refers to
    pub xadv: i32,
    pub xadv_alt: i32, // same, under the other reading of a kern "minimum" subtable
    pub yadv: i32,
    pub dx: i32, // placements accumulated since the last attachment
    pub dy: i32,
    pub att: Option<MarkAtt>,
    pub curs: Option<CLink>, // link from this glyph (first) to the next cursive glyph (second)
    pub nojudge: bool,       // something outside the unambiguous core touched this glyph
    pub adjusted: bool,      // some value record with a non-zero field was applied to this glyph
}

#[derive(Clone, Debug, Default, PartialEq)]
pub struct Outcome {
    pub g: Vec<GState>,
    pub events: BTreeSet<String>,
    pub amb: BTreeSet<&'static str>,
    pub applied: usize,
}

/// Deviations from the specification that an implementation might have; used ONLY to name the
/// defect class of a disagreement (the verdict is always taken against the plain model).
#[derive(Clone, Copy, Debug, Default, PartialEq)]
pub struct Quirks {
    pub pair_second_always_next: bool, // a pair never consumes its second glyph
    pub context_no_resume: bool,       // context lookups are tried at every glyph, also inside a matched input
    pub cursive_marks_only: bool,      // cursive lookups skip exactly the marks, whatever the flags say
    pub mark_no_flags: bool,           // mark attachment lookups ignore the lookup flags
    pub markmark_any_preceding: bool,  // mark-to-mark falls back to earlier marks of the run
    pub kern_overwrites: bool,         // kern fallback replaces the advance adjustments made so far
    pub single_vf0_falls_through: bool, // a covering SinglePos subtable with valueFormat 0 does not stop the search
    pub mark_needs_gdef_class: bool,    // mark-to-base/ligature only attaches glyphs GDEF classes as marks
}

impl Quirks {
    pub const NAMES: [&'static str; 8] = ["pair-second-glyph-never-consumed", "context-retried-inside-matched-input", "cursive-ignores-lookup-flags", "mark-lookup-ignores-lookup-flags", "markmark-falls-back-to-earlier-mark", "kern-fallback-overwrites-gpos-advance", "singlepos-valueformat0-subtable-falls-through", "mark-attachment-requires-gdef-mark-class"];
    pub fn all() -> Quirks {
        Quirks { pair_second_always_next: true, context_no_resume: true, cursive_marks_only: true, mark_no_flags: true, markmark_any_preceding: true, kern_overwrites: true, single_vf0_falls_through: true, mark_needs_gdef_class: true }
    }
    pub fn get(&self, i: usize) -> bool {
        [self.pair_second_always_next, self.context_no_resume, self.cursive_marks_only, self.mark_no_flags, self.markmark_any_preceding, self.kern_overwrites, self.single_vf0_falls_through, self.mark_needs_gdef_class][i]
    }
    pub fn set(&mut self, i: usize, v: bool) {
        match i {
            0 => self.pair_second_always_next = v,
            1 => self.context_no_resume = v,
            2 => self.cursive_marks_only = v,
            3 => self.mark_no_flags = v,
            4 => self.markmark_any_preceding = v,
            5 => self.kern_overwrites = v,
            6 => self.single_vf0_falls_through = v,
            _ => self.mark_needs_gdef_class = v,
        }
    }
}

pub struct Model<'a> {
    pub case: &'a Case,
    pub out: Outcome,
    pub q: Quirks,
    /// glyphs that some mark attachment lookup lists as attaching marks (or as mark2) although
    /// GDEF does not class them as marks
    pub unclassed_marks: BTreeSet<u16>,
}

fn unclassed_marks(case: &Case) -> BTreeSet<u16> {
    let mut v = BTreeSet::new();
    if let Some(l) = &case.gpos {
        for lk in &l.lookups {
            for s in &lk.subs {
                match s {
                    Sub::MarkBase { mcov, bcov, .. } => {
                        v.extend(mcov.glyphs.iter().copied());
                        if lk.ltype == 6 {
                            v.extend(bcov.glyphs.iter().copied());
                        }
                    }
                    Sub::MarkLig { mcov, .. } => v.extend(mcov.glyphs.iter().copied()),
                    _ => {}
                }
            }
        }
    }
    v.retain(|&g| !case.uni.is_mark(g));
    v
}

/// Ligature formation (GSUB type 4, IgnoreMarks): leftmost matches, marks skipped and kept.
pub fn form_ligatures(case: &Case) -> Vec<GState> {
    let uni = &case.uni;
    let mut v: Vec<GState> = case.input.iter().map(|&g| GState { gid: g, ..Default::default() }).collect();
    if case.liga.is_empty() || case.direct {
        return v;
    }
    let mut i = 0;
    while i < v.len() {
        let mut done = false;
        for r in case.liga.iter().filter(|r| r.comps[0] == v[i].gid) {
            // positions of the further components
            let mut pos = Vec::new();
            let mut k = i;
            let mut ok = true;
            for &c in &r.comps[1..] {
                let mut n = k + 1;
                while n < v.len() && uni.is_mark(v[n].gid) {
                    n += 1;
                }
                if n < v.len() && v[n].gid == c {
                    pos.push(n);
                    k = n;
                } else {
                    ok = false;
                    break;
                }
            }
            if !ok {
                continue;
            }
            // marks between components belong to the component they follow; marks directly
            // after the last component belong to the last component
            let last = *pos.last().unwrap_or(&i);
            let mut comp = 0u16;
            for n in i + 1..v.len() {
                if pos.contains(&n) {
                    comp += 1;
                } else if uni.is_mark(v[n].gid) {
                    v[n].comp = comp;
                    v[n].lig_owner = Some(i); // fixed up after removal below
                } else if n > last {
                    break;
                }
            }
            v[i].gid = r.lig;
            for &n in pos.iter().rev() {
                v.remove(n);
            }
            done = true;
            break;
        }
        let _ = done;
        i += 1;
    }
    // lig_owner indices: recompute as the closest preceding non-mark
    for n in 0..v.len() {
        if v[n].lig_owner.is_some() {
            v[n].lig_owner = (0..n).rev().find(|&k| !uni.is_mark(v[k].gid));
        }
    }
    v
}

impl<'a> Model<'a> {
    pub fn new(case: &'a Case) -> Model<'a> {
        Model { case, out: Outcome { g: form_ligatures(case), ..Default::default() }, q: Quirks::default(), unclassed_marks: unclassed_marks(case) }
    }
    pub fn with_quirks(case: &'a Case, q: Quirks) -> Model<'a> {
        Model { case, out: Outcome { g: form_ligatures(case), ..Default::default() }, q, unclassed_marks: unclassed_marks(case) }
    }

    fn ev(&mut self, s: String) {
        self.out.events.insert(s);
    }

    pub fn enabled_tags(&self) -> Vec<u32> {
        let c = self.case;
        let mut v = if c.direct { Vec::new() } else { base_tags(c.script, c.kerning) };
        v.extend(c.custom.iter().copied());
        v
    }

    /// feature indices of the selected LangSys
    fn langsys(&self, l: &Layout) -> Option<Vec<u16>> {
        let c = self.case;
        let s = l.scripts.iter().find(|s| s.tag == c.script).or_else(|| l.scripts.iter().find(|s| s.tag == tag("DFLT")))?;
        if let Some(lt) = c.lang {
            if let Some((_, f)) = s.langs.iter().find(|x| x.0 == lt) {
                return Some(f.clone());
            }
        }
        s.default.clone()
    }

    pub fn run(mut self, order: Order) -> Outcome {
        let c = self.case;
        let tags = self.enabled_tags();
        match &c.gpos {
            None => {
                if let Some(k) = &c.kern {
                    self.apply_kern(k);
                    self.ev("kern-only".into());
                }
            }
            Some(l) => {
                let ls = self.langsys(l);
                // per enabled tag: Some(lookups) or None = not in the LangSys
                let mut per_tag: Vec<(u32, Option<Vec<u16>>)> = Vec::new();
                for &t in &tags {
                    let lk = ls.as_ref().and_then(|fi| {
                        fi.iter().filter_map(|&i| l.features.get(i as usize)).find(|f| f.0 == t).map(|f| {
                            let mut v = f.1.clone();
                            v.sort_unstable();
                            v.dedup();
                            v
                        })
                    });
                    per_tag.push((t, if ls.is_some() { lk } else { None }));
                }
                if ls.is_none() {
                    // no script / language system: GPOS contributes nothing (and no fallback either)
                    self.ev("no-langsys".into());
                    return self.out;
                }
                match order {
                    Order::PerFeature => {
                        for (t, lk) in per_tag {
                            match lk {
                                Some(v) => {
                                    for i in v {
                                        self.apply_lookup(l, i as usize);
                                    }
                                }
                                None if t == tag("kern") => {
                                    if let Some(k) = &c.kern {
                                        self.apply_kern(k);
                                        self.ev("kern-fallback".into());
                                    }
                                }
                                None => {}
                            }
                        }
                    }
                    Order::LookupList => {
                        let mut all: Vec<u16> = per_tag.iter().filter_map(|x| x.1.clone()).flatten().collect();
                        all.sort_unstable();
                        all.dedup();
                        // the kern table stands in for a missing kern feature; it is not a lookup,
                        // its place in the order is where the feature is requested
                        let mut kern_done = false;
                        for (t, lk) in &per_tag {
                            if lk.is_none() && *t == tag("kern") && !kern_done {
                                if let Some(k) = &c.kern {
                                    self.apply_kern(k);
                                    self.ev("kern-fallback".into());
                                    kern_done = true;
                                }
                            }
                        }
                        for i in all {
                            self.apply_lookup(l, i as usize);
                        }
                    }
                }
            }
        }
        self.out
    }

    // ----------------------------------------------------------------------------------- kern

    fn apply_kern(&mut self, k: &Kern) {
        let n = self.out.g.len();
        for i in 0..n.saturating_sub(1) {
            let (l, r) = (self.out.g[i].gid, self.out.g[i + 1].gid);
            let mut acc: i32 = 0;
            let mut acc_alt: i32 = 0;
            let mut hit = false;
            for s in &k.subs {
                if s.cov & K_HORIZ == 0 {
                    self.ev("kern:vertical-subtable-ignored".into());
                    continue;
                }
                if s.cov & K_CROSS != 0 {
                    self.ev("kern:cross-stream-not-judged".into());
                    continue;
                }
                let v = match &s.data {
                    KernData::F0 { pairs } => pairs.get(&(l, r)).copied(),
                    KernData::F2 { lfirst, lclass, rfirst, rclass, m, .. } => {
                        let lc = l.checked_sub(*lfirst).and_then(|i| lclass.get(i as usize)).copied().unwrap_or(0) as usize;
                        let rc = r.checked_sub(*rfirst).and_then(|i| rclass.get(i as usize)).copied().unwrap_or(0) as usize;
                        let v = m[lc][rc];
                        if lc != 0 && rc != 0 {
                            Some(v)
                        } else {
                            None
                        }
                    }
                };
                if let Some(v) = v {
                    hit = true;
                    let fmt = if matches!(s.data, KernData::F0 { .. }) { 0 } else { 2 };
                    if s.cov & K_OVERRIDE != 0 {
                        acc = v as i32;
                        acc_alt = v as i32;
                        self.ev(format!("kern:fmt{}:override", fmt));
                    } else if s.cov & K_MIN != 0 {
                        // "minimum values" limit the accumulated kerning; the kern chapter does not
                        // say from which side: both clamps are accepted, plain addition is not
                        self.ev(format!("kern:fmt{}:minimum", fmt));
                        acc = acc.min(v as i32);
                        acc_alt = acc_alt.max(v as i32);
                    } else {
                        acc += v as i32;
                        acc_alt += v as i32;
                        self.ev(format!("kern:fmt{}:add", fmt));
                    }
                }
            }
            if self.q.kern_overwrites {
                self.out.g[i].xadv = acc;
                self.out.g[i].xadv_alt = acc_alt;
            } else if hit {
                self.out.g[i].xadv += acc;
                self.out.g[i].xadv_alt += acc_alt;
                self.out.applied += 1;
            }
        }
    }

    // ---------------------------------------------------------------------------------- flags

    fn skips(&self, flag: u16, mset: Option<u16>, i: usize) -> bool {
        let uni = &self.case.uni;
        let g = self.out.g[i].gid;
        match uni.cls(g) {
            1 => flag & F_IGN_BASE != 0,
            2 => flag & F_IGN_LIG != 0,
            3 => {
                if flag & F_IGN_MARK != 0 {
                    true
                } else if flag & F_MFS != 0 {
                    // a mark filtering set supersedes the mark attachment type
                    !mset.and_then(|s| uni.sets.get(s as usize)).map_or(false, |s| s.contains(&g))
                } else if flag >> 8 != 0 {
                    uni.mac.get(g as usize).copied().unwrap_or(0) as u16 != flag >> 8
                } else {
                    false
                }
            }
            _ => false,
        }
    }
    fn next(&self, lk: &Lookup, i: usize) -> Option<usize> {
        (i + 1..self.out.g.len()).find(|&k| !self.skips(lk.flag, lk.mset, k))
    }
    fn prev(&self, lk: &Lookup, i: usize) -> Option<usize> {
        (0..i).rev().find(|&k| !self.skips(lk.flag, lk.mset, k))
    }
    fn first(&self, lk: &Lookup) -> Option<usize> {
        (0..self.out.g.len()).find(|&k| !self.skips(lk.flag, lk.mset, k))
    }
    fn is_mark(&self, i: usize) -> bool {
        self.case.uni.is_mark(self.out.g[i].gid)
    }
    fn flag_class(lk: &Lookup) -> String {
        let mut v = Vec::new();
        if lk.flag & F_IGN_BASE != 0 {
            v.push("ignBase".to_string());
        }
        if lk.flag & F_IGN_LIG != 0 {
            v.push("ignLig".to_string());
        }
        if lk.flag & F_IGN_MARK != 0 {
            v.push("ignMark".to_string());
        }
        if lk.flag & F_MFS != 0 {
            v.push("markSet".to_string());
        }
        if lk.flag >> 8 != 0 {
            v.push("markAttachType".to_string());
        }
        if v.is_empty() {
            "none".to_string()
        } else {
            v.join("+")
        }
    }

    // -------------------------------------------------------------------------------- lookups

    fn add_val(&mut self, i: usize, v: Val, vf: u16, what: &str) {
        let v = v.masked(vf);
        let g = &mut self.out.g[i];
        g.dx += v.xp as i32;
        g.dy += v.yp as i32;
        g.xadv += v.xa as i32;
        g.xadv_alt += v.xa as i32;
        g.yadv += v.ya as i32;
        if v.ya != 0 {
            g.nojudge = true;
            self.out.amb.insert("y-advance");
        }
        self.ev(format!("vf-low:{}:{:x}", what, vf & 0xF));
        if vf & 0xF0 != 0 {
            self.ev(format!("vf-device-bits:{}", what));
        }
        if v != Val::default() {
            self.out.applied += 1;
            self.out.g[i].adjusted = true;
        }
    }

    fn single_at(&mut self, lk: &Lookup, i: usize) -> bool {
        let g = self.out.g[i].gid;
        for s in &lk.subs {
            match s {
                Sub::Single1 { cov, vf, v, dev } => {
                    if cov.index(g).is_some() && !(self.q.single_vf0_falls_through && *vf == 0) {
                        self.add_val(i, *v, *vf, "single");
                        self.ev(format!("type1.fmt1-applied{}", if *dev && vf & 0xF0 != 0 { ":device-table" } else { "" }));
                        return true;
                    }
                }
                Sub::Single2 { cov, vf, vals, dev } => {
                    if self.q.single_vf0_falls_through && *vf == 0 {
                        continue;
                    }
                    if let Some(ci) = cov.index(g) {
                        self.add_val(i, vals[ci], *vf, "single");
                        self.ev(format!("type1.fmt2-applied{}", if *dev && vf & 0xF0 != 0 { ":device-table" } else { "" }));
                        return true;
                    }
                }
                _ => {}
            }
        }
        false
    }

    /// Some(valueFormat2 != 0) when a subtable applied to the pair
    fn pair_at(&mut self, lk: &Lookup, i: usize, j: usize) -> Option<bool> {
        let (g1, g2) = (self.out.g[i].gid, self.out.g[j].gid);
        for s in &lk.subs {
            match s {
                Sub::Pair1 { cov, vf1, vf2, sets, .. } => {
                    if let Some(ci) = cov.index(g1) {
                        if let Some((_, v1, v2)) = sets[ci].iter().find(|x| x.0 == g2) {
                            self.add_val(i, *v1, *vf1, "pair1");
                            self.add_val(j, *v2, *vf2, "pair2nd");
                            self.ev("type2.fmt1-applied".into());
                            return Some(*vf2 != 0);
                        }
                    }
                }
                Sub::Pair2 { cov, vf1, vf2, cd1, cd2, m, .. } => {
                    if cov.index(g1).is_some() {
                        let (c1, c2) = (cd1.class(g1) as usize, cd2.class(g2) as usize);
                        let (v1, v2) = m[c1][c2];
                        self.add_val(i, v1, *vf1, "pair1");
                        self.add_val(j, v2, *vf2, "pair2nd");
                        self.ev("type2.fmt2-applied".into());
                        if c1 == 0 || c2 == 0 {
                            self.ev(format!("pair:class0:{}{}", if c1 == 0 { "first" } else { "" }, if c2 == 0 { "second" } else { "" }));
                        }
                        return Some(*vf2 != 0);
                    }
                }
                _ => {}
            }
        }
        None
    }

    fn anchor_ev(&mut self, a: &Anchor, what: &str) {
        self.ev(format!("anchor-fmt{}:{}{}", a.fmt, what, if a.dev { ":device" } else { "" }));
    }

    fn attach(&mut self, j: usize, b: usize, ba: Anchor, ma: Anchor, what: &str) {
        let uni = &self.case.uni;
        let gj = self.out.g[j].gid;
        if !uni.is_mark(gj) {
            // the coverage table of the lookup says which glyph is the mark, not GDEF
            let why = if !uni.has_gdef {
                "no-gdef"
            } else if !uni.has_classdef {
                "no-glyph-classdef"
            } else if uni.cls(gj) == 0 {
                "mark-not-classed-in-gdef"
            } else {
                "mark-classed-as-base-in-gdef"
            };
            self.ev(format!("mark-attach:{}", why));
        }
        self.anchor_ev(&ba, what);
        self.anchor_ev(&ma, "mark");
        let g = &mut self.out.g[j];
        g.att = Some(MarkAtt { base: b, bx: ba.x as i32, by: ba.y as i32, mx: ma.x as i32, my: ma.y as i32 });
        g.dx = 0;
        g.dy = 0;
        if g.curs.is_some() {
            g.nojudge = true;
            self.out.amb.insert("mark+cursive-on-one-glyph");
        }
        self.out.applied += 1;
    }

    fn mark_at(&mut self, lk: &Lookup, j: usize) {
        let g = self.out.g[j].gid;
        match lk.ltype {
            4 | 5 => {
                if self.q.mark_needs_gdef_class && !self.is_mark(j) {
                    return;
                }
                let b = match (0..j).rev().find(|&k| !self.is_mark(k)) {
                    Some(b) => b,
                    None => return,
                };
                let bg = self.out.g[b].gid;
                if self.unclassed_marks.contains(&bg) {
                    // the closest preceding non-mark (by GDEF) is itself used as a mark by some
                    // lookup: whether the search for the base continues past it is engine-specific
                    let covered = lk.subs.iter().any(|s| match s {
                        Sub::MarkBase { mcov, .. } | Sub::MarkLig { mcov, .. } => mcov.index(g).is_some(),
                        _ => false,
                    });
                    if covered {
                        self.out.g[j].nojudge = true;
                        self.out.amb.insert("base-search-meets-unclassed-mark");
                    }
                    return;
                }
                for s in &lk.subs {
                    match s {
                        Sub::MarkBase { mcov, bcov, marks, bases, .. } => {
                            if let (Some(mi), Some(bi)) = (mcov.index(g), bcov.index(bg)) {
                                let (cls, ma) = marks[mi];
                                if let Some(ba) = bases[bi][cls as usize] {
                                    self.attach(j, b, ba, ma, "base");
                                    self.ev("type4-applied".into());
                                    if b + 1 != j {
                                        self.ev("mark:base-not-adjacent".into());
                                    }
                                    return;
                                }
                                self.ev("mark:null-base-anchor".into());
                            }
                        }
                        Sub::MarkLig { mcov, lcov, marks, ligs, .. } => {
                            if let (Some(mi), Some(li)) = (mcov.index(g), lcov.index(bg)) {
                                let (cls, ma) = marks[mi];
                                let ncomp = ligs[li].len();
                                let comp = if self.out.g[j].lig_owner == Some(b) {
                                    self.ev("marklig:component-from-gsub".into());
                                    Some(self.out.g[j].comp as usize)
                                } else if ncomp == 1 {
                                    self.ev("marklig:single-component".into());
                                    Some(0)
                                } else {
                                    None
                                };
                                match comp {
                                    None => {
                                        // literal multi-component ligature: which component a mark
                                        // belongs to is not defined without GSUB bookkeeping
                                        self.ev("marklig:literal-multi-component-not-judged".into());
                                        self.out.g[j].nojudge = true;
                                        self.out.amb.insert("marklig-literal-component");
                                        return;
                                    }
                                    Some(c) if c < ncomp => {
                                        if let Some(la) = ligs[li][c][cls as usize] {
                                            self.attach(j, b, la, ma, "ligature");
                                            self.ev(format!("type5-applied:component{}", c.min(2)));
                                            return;
                                        }
                                        self.ev("mark:null-ligature-anchor".into());
                                    }
                                    Some(_) => {
                                        // fewer component records than components: font error
                                        self.out.g[j].nojudge = true;
                                        self.out.amb.insert("marklig-component-count");
                                        return;
                                    }
                                }
                            }
                        }
                        _ => {}
                    }
                }
            }
            6 => {
                // preceding glyph under the lookup's mark filtering (ignore bits do not apply to
                // the search for the second mark)
                let f2 = if self.q.mark_no_flags { 0 } else { lk.flag & !(F_IGN_BASE | F_IGN_LIG | F_IGN_MARK) };
                let mut k = match (0..j).rev().find(|&k| !self.skips(f2, lk.mset, k)) {
                    Some(k) => k,
                    None => return,
                };
                let covered = lk.subs.iter().any(|s| matches!(s, Sub::MarkBase { mcov, .. } if mcov.index(g).is_some()));
                if covered && (!self.is_mark(j) || self.unclassed_marks.contains(&self.out.g[k].gid)) {
                    // mark-to-mark between glyphs GDEF does not class as marks: engines decide by
                    // GDEF class, by earlier attachments, or by coverage
                    self.out.g[j].nojudge = true;
                    self.out.amb.insert("markmark-with-unclassed-mark");
                    return;
                }
                if !self.is_mark(k) {
                    return;
                }
                if self.q.markmark_any_preceding {
                    // the closest earlier mark of the run for which some subtable has both glyphs
                    // and a mark2 anchor
                    let mut cand = Some(k);
                    let mut found = None;
                    while let Some(c) = cand {
                        if !self.is_mark(c) {
                            break;
                        }
                        let cg = self.out.g[c].gid;
                        let ok = lk.subs.iter().any(|s| match s {
                            Sub::MarkBase { mcov, bcov, marks, bases, .. } => match (mcov.index(g), bcov.index(cg)) {
                                (Some(mi), Some(bi)) => bases[bi][marks[mi].0 as usize].is_some(),
                                _ => false,
                            },
                            _ => false,
                        });
                        if ok {
                            found = Some(c);
                            break;
                        }
                        cand = c.checked_sub(1);
                    }
                    match found {
                        Some(c) => k = c,
                        None => return,
                    }
                }
                let kg = self.out.g[k].gid;
                for s in &lk.subs {
                    if let Sub::MarkBase { mcov, bcov, marks, bases, .. } = s {
                        if let (Some(mi), Some(bi)) = (mcov.index(g), bcov.index(kg)) {
                            let (cls, ma) = marks[mi];
                            if let Some(ba) = bases[bi][cls as usize] {
                                let (a, b) = (&self.out.g[k], &self.out.g[j]);
                                if a.lig_owner.is_some() && a.lig_owner == b.lig_owner && a.comp != b.comp {
                                    // marks of different components of one ligature: engines do not
                                    // attach them; the specification does not say
                                    self.out.g[j].nojudge = true;
                                    self.out.amb.insert("markmark-across-components");
                                    return;
                                }
                                self.attach(j, k, ba, ma, "mark2");
                                self.ev("type6-applied".into());
                                if k + 1 != j {
                                    self.ev("markmark:skipped-filtered-mark".into());
                                }
                                return;
                            }
                            self.ev("mark:null-mark2-anchor".into());
                        }
                    }
                }
            }
            _ => {}
        }
    }

    fn cursive_at(&mut self, lk: &Lookup, i: usize, j: usize) {
        let (g1, g2) = (self.out.g[i].gid, self.out.g[j].gid);
        for s in &lk.subs {
            if let Sub::Cursive { cov, recs } = s {
                if let (Some(a), Some(b)) = (cov.index(g1), cov.index(g2)) {
                    if let (Some(ex), Some(en)) = (recs[a].1, recs[b].0) {
                        self.anchor_ev(&ex, "exit");
                        self.anchor_ev(&en, "entry");
                        let rtl_flag = lk.flag & F_RTL != 0;
                        if self.out.g[i].curs.is_some() {
                            self.out.amb.insert("cursive-relinked");
                            self.out.g[i].nojudge = true;
                        }
                        self.out.g[i].curs = Some(CLink { to: j, exit: (ex.x as i32, ex.y as i32), entry: (en.x as i32, en.y as i32), rtl_flag });
                        self.out.applied += 1;
                        self.ev(format!("type3-applied:rtl-flag-{}", if rtl_flag { "set" } else { "clear" }));
                        if j != i + 1 {
                            self.ev("cursive:skipped-glyphs-between".into());
                        }
                        return;
                    }
                    self.ev("cursive:null-anchor".into());
                }
            }
        }
    }

    /// Match a context rule at `i`; returns the positions of the input glyphs.
    fn ctx_match(&self, lk: &Lookup, i: usize, back: &dyn Fn(usize, u16) -> bool, nb: usize, input: &dyn Fn(usize, u16) -> bool, ni: usize, look: &dyn Fn(usize, u16) -> bool, nl: usize) -> Option<Vec<usize>> {
        let mut pos = vec![i];
        let mut k = i;
        for n in 1..ni {
            k = self.next(lk, k)?;
            if !input(n, self.out.g[k].gid) {
                return None;
            }
            pos.push(k);
        }
        let mut b = i;
        for n in 0..nb {
            b = self.prev(lk, b)?;
            if !back(n, self.out.g[b].gid) {
                return None;
            }
        }
        for n in 0..nl {
            k = self.next(lk, k)?;
            if !look(n, self.out.g[k].gid) {
                return None;
            }
        }
        Some(pos)
    }

    fn context_at(&mut self, l: &Layout, lk: &Lookup, i: usize) -> Option<Vec<usize>> {
        let g = self.out.g[i].gid;
        for s in &lk.subs {
            let mut found: Option<(Vec<usize>, Vec<(u16, u16)>, String)> = None;
            match s {
                Sub::Ctx1 { chain, cov, sets } => {
                    if let Some(ci) = cov.index(g) {
                        for r in &sets[ci] {
                            let m = self.ctx_match(lk, i, &|n, x| r.back[n] == x, r.back.len(), &|n, x| r.input[n - 1] == x, r.input.len() + 1, &|n, x| r.look[n] == x, r.look.len());
                            if let Some(p) = m {
                                found = Some((p, r.recs.clone(), format!("type{}.fmt1-applied", if *chain { 8 } else { 7 })));
                                break;
                            }
                        }
                    }
                }
                Sub::Ctx2 { chain, cov, bcd, icd, lcd, sets } => {
                    if cov.index(g).is_some() {
                        let c0 = icd.class(g) as usize;
                        if let Some(Some(rules)) = sets.get(c0) {
                            for r in rules {
                                let m = self.ctx_match(
                                    lk,
                                    i,
                                    &|n, x| r.back[n] == bcd.class(x),
                                    r.back.len(),
                                    &|n, x| r.input[n - 1] == icd.class(x),
                                    r.input.len() + 1,
                                    &|n, x| r.look[n] == lcd.class(x),
                                    r.look.len(),
                                );
                                if let Some(p) = m {
                                    found = Some((p, r.recs.clone(), format!("type{}.fmt2-applied{}", if *chain { 8 } else { 7 }, if c0 == 0 { ":class0-first" } else { "" })));
                                    break;
                                }
                            }
                        }
                    }
                }
                Sub::Ctx3 { chain, back, input, look, recs } => {
                    if input.first().map_or(false, |c| c.index(g).is_some()) {
                        let m = self.ctx_match(lk, i, &|n, x| back[n].index(x).is_some(), back.len(), &|n, x| input[n].index(x).is_some(), input.len(), &|n, x| look[n].index(x).is_some(), look.len());
                        if let Some(p) = m {
                            found = Some((p, recs.clone(), format!("type{}.fmt3-applied", if *chain { 8 } else { 7 })));
                        }
                    }
                }
                _ => {}
            }
            if let Some((pos, recs, ev)) = found {
                self.ev(ev);
                let span_has_skipped = pos.windows(2).any(|w| w[1] != w[0] + 1);
                if span_has_skipped {
                    self.ev(format!("flags-skip:context:{}", Self::flag_class(lk)));
                }
                for (si, li) in recs {
                    let target = match pos.get(si as usize) {
                        Some(&t) => t,
                        None => continue,
                    };
                    let nl = match l.lookups.get(li as usize) {
                        Some(x) => x,
                        None => continue,
                    };
                    if nl.flag & !F_RTL != lk.flag & !F_RTL || nl.mset != lk.mset {
                        // positions counted with the parent's or with the nested lookup's flags:
                        // engines differ
                        self.out.amb.insert("nested-lookup-different-flags");
                        for &p in &pos {
                            self.out.g[p].nojudge = true;
                        }
                    }
                    match nl.ltype {
                        1 => {
                            if self.single_at(nl, target) {
                                self.ev("nested:single".into());
                            }
                        }
                        2 => {
                            if let Some(j) = self.next(nl, target) {
                                if self.pair_at(nl, target, j).is_some() {
                                    self.ev("nested:pair".into());
                                    if !pos.contains(&j) {
                                        self.ev("nested:pair-second-beyond-input".into());
                                    }
                                }
                            }
                        }
                        _ => {
                            self.out.amb.insert("nested-lookup-type");
                        }
                    }
                }
                return Some(pos);
            }
        }
        None
    }

    pub fn apply_lookup(&mut self, l: &Layout, li: usize) {
        let lk = match l.lookups.get(li) {
            Some(x) => x,
            None => return,
        };
        if lk.ext {
            self.ev(format!("extension:type{}", lk.ltype));
        }
        let n = self.out.g.len();
        let fc = Self::flag_class(lk);
        match lk.ltype {
            1 => {
                for i in 0..n {
                    if self.skips(lk.flag, lk.mset, i) {
                        // would it have applied?
                        let g = self.out.g[i].gid;
                        let covered = lk.subs.iter().any(|s| match s {
                            Sub::Single1 { cov, .. } | Sub::Single2 { cov, .. } => cov.index(g).is_some(),
                            _ => false,
                        });
                        if covered {
                            self.ev(format!("flags-skip:single:{}", fc));
                        }
                        continue;
                    }
                    self.single_at(lk, i);
                }
            }
            2 => {
                let mut cur = self.first(lk);
                while let Some(i) = cur {
                    let j = match self.next(lk, i) {
                        Some(j) => j,
                        None => break,
                    };
                    match self.pair_at(lk, i, j) {
                        Some(second_consumed) => {
                            if j != i + 1 {
                                self.ev(format!("flags-skip:pair:{}", fc));
                            }
                            if second_consumed && !self.q.pair_second_always_next {
                                self.ev("pair:second-record-consumes-second-glyph".into());
                                cur = self.next(lk, j);
                            } else {
                                self.ev("pair:second-glyph-starts-next-pair".into());
                                cur = Some(j);
                            }
                        }
                        None => cur = Some(j),
                    }
                }
            }
            3 => {
                let marks_only = Lookup { ltype: 3, flag: F_IGN_MARK | (lk.flag & F_RTL), mset: None, subs: Vec::new(), ext: false };
                let nav = if self.q.cursive_marks_only { &marks_only } else { lk };
                let mut cur = self.first(nav);
                while let Some(i) = cur {
                    let j = match self.next(nav, i) {
                        Some(j) => j,
                        None => break,
                    };
                    self.cursive_at(lk, i, j);
                    cur = Some(j);
                }
            }
            4 | 5 | 6 => {
                for j in 0..n {
                    if !self.q.mark_no_flags && self.skips(lk.flag, lk.mset, j) {
                        let g = self.out.g[j].gid;
                        let covered = lk.subs.iter().any(|s| match s {
                            Sub::MarkBase { mcov, .. } | Sub::MarkLig { mcov, .. } => mcov.index(g).is_some(),
                            _ => false,
                        });
                        if covered {
                            self.ev(format!("flags-skip:mark-type{}:{}", lk.ltype, fc));
                        }
                        continue;
                    }
                    self.mark_at(lk, j);
                }
            }
            7 | 8 => {
                let mut cur = self.first(lk);
                while let Some(i) = cur {
                    match self.context_at(l, lk, i) {
                        Some(pos) => {
                            let last = *pos.last().unwrap_or(&i);
                            if pos.len() > 1 {
                                self.ev("context:resume-after-input".into());
                            }
                            cur = if self.q.context_no_resume { self.next(lk, i) } else { self.next(lk, last) };
                        }
                        None => cur = self.next(lk, i),
                    }
                }
            }
            _ => {}
        }
    }
}

/// After all lookups: mark glyphs whose combination of effects is outside the unambiguous core.
pub fn finalize(o: &mut Outcome) {
    let n = o.g.len();
    // which glyph a nested lookup with other flags than its parent lands on is engine-specific:
    // nothing in such a run is judged
    if o.amb.contains("nested-lookup-different-flags") || o.amb.contains("nested-lookup-type") {
        for g in o.g.iter_mut() {
            g.nojudge = true;
        }
    }
    // cursive glyphs that also carry adjustments
    let mut in_link = vec![false; n];
    for i in 0..n {
        if let Some(c) = o.g[i].curs {
            in_link[i] = true;
            if c.to < n {
                in_link[c.to] = true;
            }
        }
    }
    for i in 0..n {
        if in_link[i] && (o.g[i].adjusted || o.g[i].xadv != 0 || o.g[i].att.is_some()) {
            o.amb.insert("cursive+adjustment-on-one-glyph");
            o.g[i].nojudge = true;
        }
    }
    // the glyphs of one cursive chain stand or fall together
    loop {
        let mut changed = false;
        for i in 0..n {
            if let Some(c) = o.g[i].curs {
                if c.to < n && o.g[i].nojudge != o.g[c.to].nojudge {
                    o.g[i].nojudge = true;
                    o.g[c.to].nojudge = true;
                    changed = true;
                }
            }
        }
        if !changed {
            break;
        }
    }
}

// ---------------------------------------------------------------------------------------------
// Pen model
// ---------------------------------------------------------------------------------------------

/// Absolute glyph origins from per-glyph (advance, x offset, y offset), as a consumer of
/// `GlyphLayout::glyph_positions` computes them: the pen starts at 0; left-to-right the glyph is
/// drawn at pen + offset and the pen then advances; right-to-left the pen first moves left by the
/// advance and the glyph is drawn at pen + offset.
pub fn origins(pos: &[(i32, i32, i32)], rtl: bool) -> Vec<(i32, i32)> {
    let mut pen = 0i32;
    let mut out = Vec::with_capacity(pos.len());
    for &(adv, xo, yo) in pos {
        if rtl {
            pen -= adv;
            out.push((pen + xo, yo));
        } else {
            out.push((pen + xo, yo));
            pen += adv;
        }
    }
    out
}
