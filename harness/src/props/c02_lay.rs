//! C02: minimal but hostile GSUB / GPOS / GDEF writer and lookup-program generator.
//!
//! Independent of allsorts. Produces small fonts whose lookup programs are structurally valid
//! OpenType but adversarial: cyclic / self-referencing / deeply nested contextual lookups,
//! ligatures that delete everything, multiple substitutions that grow the run, out-of-range
//! substitute glyph ids, sequence indices beyond the input, class-0 rules, mark attachment with
//! out-of-range classes / missing anchors, cursive chains.

use crate::rt::Rng;
use crate::sfnt::W;

// ---------------------------------------------------------------------------------------------
// offset-patching builder
// ---------------------------------------------------------------------------------------------

pub struct B {
    pub w: W,
    fix: Vec<(usize, Vec<u8>)>,
}

impl B {
    pub fn new() -> B {
        B { w: W::new(), fix: Vec::new() }
    }
    pub fn u16(&mut self, v: u16) -> &mut B {
        self.w.u16(v);
        self
    }
    pub fn i16(&mut self, v: i16) -> &mut B {
        self.w.i16(v);
        self
    }
    pub fn u32(&mut self, v: u32) -> &mut B {
        self.w.u32(v);
        self
    }
    /// offset16 to `child` (placed after the fixed part)
    pub fn off(&mut self, child: Vec<u8>) -> &mut B {
        self.fix.push((self.w.len(), child));
        self.w.u16(0);
        self
    }
    pub fn opt_off(&mut self, child: Option<Vec<u8>>) -> &mut B {
        match child {
            Some(c) => self.off(c),
            None => self.u16(0),
        }
    }
    pub fn done(mut self) -> Vec<u8> {
        for (at, child) in std::mem::take(&mut self.fix) {
            let pos = self.w.len();
            if pos <= 0xFFFF {
                self.w.set_u16(at, pos as u16);
                self.w.bytes(&child);
            }
        }
        self.w.b
    }
}

pub fn coverage(glyphs: &[u16], ranges: bool) -> Vec<u8> {
    let mut g: Vec<u16> = glyphs.to_vec();
    g.sort();
    g.dedup();
    let mut w = W::new();
    if !ranges {
        w.u16(1).u16(g.len() as u16);
        for x in &g {
            w.u16(*x);
        }
    } else {
        let mut rs: Vec<(u16, u16, u16)> = Vec::new();
        for (i, &x) in g.iter().enumerate() {
            match rs.last_mut() {
                Some(r) if r.1 as u32 + 1 == x as u32 => r.1 = x,
                _ => rs.push((x, x, i as u16)),
            }
        }
        w.u16(2).u16(rs.len() as u16);
        for r in rs {
            w.u16(r.0).u16(r.1).u16(r.2);
        }
    }
    w.b
}

/// sorted, de-duplicated copy (the order coverage indices refer to)
pub fn cov_order(glyphs: &[u16]) -> Vec<u16> {
    let mut g = glyphs.to_vec();
    g.sort();
    g.dedup();
    g
}

pub fn classdef(pairs: &[(u16, u16)], fmt1: bool) -> Vec<u8> {
    let mut p: Vec<(u16, u16)> = pairs.to_vec();
    p.sort();
    p.dedup_by_key(|x| x.0);
    let mut w = W::new();
    if fmt1 && !p.is_empty() {
        let start = p[0].0;
        let end = p[p.len() - 1].0;
        w.u16(1).u16(start).u16(end - start + 1);
        for g in start..=end {
            w.u16(p.iter().find(|x| x.0 == g).map_or(0, |x| x.1));
        }
    } else {
        w.u16(2).u16(p.len() as u16);
        for (g, c) in p {
            w.u16(g).u16(g).u16(c);
        }
    }
    w.b
}

// ---------------------------------------------------------------------------------------------
// program description
// ---------------------------------------------------------------------------------------------

pub struct Lk {
    pub ty: u16,
    pub flag: u16,
    pub mfs: u16,
    pub subs: Vec<Vec<u8>>,
    pub ext: bool,
}

pub struct Pool {
    /// glyphs the text is biased to produce
    pub hot: Vec<u16>,
    pub marks: Vec<u16>,
    /// glyphs no generated lookup covers: the tail of non-exponential multiple substitutions
    pub sinks: Vec<u16>,
    pub n: u16,
    /// out-of-range ids / indices / classes allowed (font is then not "well-formed")
    pub wild: bool,
    /// set when an out-of-range glyph id was actually written
    pub wrote_oob: bool,
}

impl Pool {
    pub fn gid(&mut self, rng: &mut Rng) -> u16 {
        if self.wild && rng.chance(1, 7) {
            self.wrote_oob = true;
            return *rng.pick(&[self.n, self.n.saturating_add(1), 0x7FFF, 0x8000, 0xFFFF, 0xFFFE]);
        }
        if rng.chance(4, 5) {
            *rng.pick(&self.hot)
        } else {
            rng.below(self.n as usize) as u16
        }
    }
    pub fn hot_gid(&self, rng: &mut Rng) -> u16 {
        *rng.pick(&self.hot)
    }
    pub fn subset(&self, rng: &mut Rng, min: usize) -> Vec<u16> {
        let mut v: Vec<u16> = self.hot.iter().copied().filter(|_| rng.chance(3, 5)).collect();
        while v.len() < min.min(self.hot.len()) {
            v.push(self.hot_gid(rng));
            v = cov_order(&v);
        }
        if rng.chance(1, 5) {
            let g = rng.below(self.n as usize) as u16;
            if !self.sinks.contains(&g) {
                v.push(g);
            }
        }
        cov_order(&v)
    }
}

fn lookup_flag(rng: &mut Rng, pool: &Pool) -> (u16, u16) {
    match rng.below(10) {
        0 => (0x0008, 0),                              // ignore marks
        1 => (0x0002, 0),                              // ignore base glyphs
        2 => (0x0004, 0),                              // ignore ligatures
        3 => (0x0010, rng.below(3) as u16),            // mark filtering set (maybe beyond the sets defined)
        4 => ((1 + rng.below(3) as u16) << 8, 0),      // mark attachment type
        5 => (0x0001, 0),                              // right to left (cursive)
        6 if pool.wild => (rng.u16(), rng.u16()),
        _ => (0, 0),
    }
}

// ---- GSUB subtables ---------------------------------------------------------------------------

pub fn gsub_single(rng: &mut Rng, pool: &mut Pool) -> Vec<u8> {
    let cov = pool.subset(rng, 1);
    let mut b = B::new();
    if rng.chance(1, 3) {
        let target = pool.hot_gid(rng) as i32;
        let delta = target - cov[0] as i32;
        let ok = cov.iter().all(|&g| {
            let r = g as i32 + delta;
            r >= 0 && r < pool.n as i32
        });
        if ok || pool.wild {
            if !ok {
                pool.wrote_oob = true;
            }
            b.u16(1).off(coverage(&cov, rng.bool())).i16(delta as i16);
            return b.done();
        }
    }
    b.u16(2).off(coverage(&cov, rng.bool()));
    let n = if pool.wild && rng.chance(1, 8) { cov.len().saturating_sub(1) } else { cov.len() };
    b.u16(n as u16);
    for _ in 0..n {
        let g = pool.gid(rng);
        b.u16(g);
    }
    b.done()
}

/// Every covered glyph -> up to `f` glyphs (0 = deletion). `exponential`: all replacements are hot
/// glyphs (the run grows x f per application; only the "grow" programs use it, with every such
/// lookup applied once); otherwise only the first replacement is hot and the rest are sink glyphs,
/// so that repeated application grows the run linearly.
pub fn gsub_multiple(rng: &mut Rng, pool: &mut Pool, cov: &[u16], f: usize, exponential: bool) -> Vec<u8> {
    let cov = cov_order(cov);
    let mut b = B::new();
    b.u16(1).off(coverage(&cov, rng.bool())).u16(cov.len() as u16);
    for _ in 0..cov.len() {
        let k = if exponential { f } else { rng.below(f + 1) };
        let mut s = W::new();
        s.u16(k as u16);
        for j in 0..k {
            let g = if exponential {
                pool.hot_gid(rng)
            } else if j == 0 {
                pool.gid(rng)
            } else if pool.wild && rng.chance(1, 10) {
                pool.wrote_oob = true;
                *rng.pick(&[pool.n, 0xFFFF])
            } else {
                *rng.pick(&pool.sinks)
            };
            s.u16(g);
        }
        b.off(s.b);
    }
    b.done()
}

pub fn gsub_alternate(rng: &mut Rng, pool: &mut Pool) -> Vec<u8> {
    let cov = pool.subset(rng, 1);
    let mut b = B::new();
    b.u16(1).off(coverage(&cov, rng.bool())).u16(cov.len() as u16);
    for _ in 0..cov.len() {
        let k = rng.below(5);
        let mut s = W::new();
        s.u16(k as u16);
        for _ in 0..k {
            s.u16(pool.gid(rng));
        }
        b.off(s.b);
    }
    b.done()
}

/// `greedy`: every pair / triple of hot glyphs ligates into a hot glyph (the run collapses)
pub fn gsub_ligature(rng: &mut Rng, pool: &mut Pool, greedy: bool) -> Vec<u8> {
    let cov = if greedy { cov_order(&pool.hot) } else { pool.subset(rng, 1) };
    let mut b = B::new();
    b.u16(1).off(coverage(&cov, rng.bool())).u16(cov.len() as u16);
    for &first in &cov {
        let mut set = B::new();
        let mut ligs: Vec<Vec<u8>> = Vec::new();
        if greedy {
            let others: Vec<u16> = pool.hot.clone();
            if rng.bool() {
                for &o in others.iter().take(6) {
                    let mut l = W::new();
                    l.u16(if rng.bool() { first } else { pool.hot_gid(rng) }).u16(3).u16(o).u16(pool.hot_gid(rng));
                    ligs.push(l.b);
                }
            }
            for &o in &others {
                let mut l = W::new();
                l.u16(if rng.bool() { first } else { pool.hot_gid(rng) }).u16(2).u16(o);
                ligs.push(l.b);
            }
        } else {
            for _ in 0..1 + rng.below(4) {
                let k = match rng.below(8) {
                    0 => 1,
                    1 if pool.wild => 0,
                    2 => 5 + rng.below(4),
                    _ => 2 + rng.below(3),
                };
                let mut l = W::new();
                l.u16(pool.gid(rng)).u16(k as u16);
                for _ in 1..k.max(1) {
                    l.u16(pool.hot_gid(rng));
                }
                ligs.push(l.b);
            }
        }
        set.u16(ligs.len() as u16);
        for l in ligs {
            set.off(l);
        }
        b.off(set.done());
    }
    b.done()
}

/// (sequence index, lookup index) records; `targets` = lookups to call
fn seq_records(rng: &mut Rng, pool: &Pool, glyph_count: usize, targets: &[u16], beyond: bool) -> Vec<(u16, u16)> {
    let n = if targets.is_empty() { 0 } else { 1 + rng.below(3.min(targets.len() + 1)) };
    (0..n)
        .map(|i| {
            let seq = if beyond && rng.chance(1, 2) {
                *rng.pick(&[glyph_count as u16, glyph_count as u16 + 1, 0x7FFF, 0xFFFF, 64])
            } else if glyph_count == 0 {
                0
            } else if rng.chance(1, 2) {
                0
            } else {
                rng.below(glyph_count) as u16
            };
            let lk = if pool.wild && rng.chance(1, 12) { *rng.pick(&[0xFFFFu16, 0x7FFF, 200]) } else { targets[(i + rng.below(targets.len())) % targets.len()] };
            (seq, lk)
        })
        .collect()
}

#[derive(Copy, Clone)]
pub struct CtxOpts {
    pub chain: bool,
    pub fmt: u16,
    /// sequence indices beyond the input
    pub beyond: bool,
    /// class-0 rules (format 2)
    pub class0: bool,
    /// keep the input short and over hot glyphs so that the rule fires
    pub eager: bool,
}

pub fn context(rng: &mut Rng, pool: &mut Pool, targets: &[u16], o: CtxOpts) -> Vec<u8> {
    let mut b = B::new();
    let glyph_count = |rng: &mut Rng, pool: &Pool| -> usize {
        if o.eager {
            1 + rng.below(2)
        } else if pool.wild && rng.chance(1, 10) {
            0
        } else {
            1 + rng.small(4)
        }
    };
    let ctx_len = |rng: &mut Rng| if o.chain && !o.eager { rng.below(3) } else if o.chain { rng.below(2) * rng.below(2) } else { 0 };
    match o.fmt {
        1 => {
            let cov = if o.eager { cov_order(&pool.hot) } else { pool.subset(rng, 1) };
            b.u16(1).off(coverage(&cov, rng.bool())).u16(cov.len() as u16);
            for _ in 0..cov.len() {
                let mut rs = B::new();
                let nr = 1 + rng.below(3);
                rs.u16(nr as u16);
                for _ in 0..nr {
                    let g = glyph_count(rng, pool);
                    let mut r = W::new();
                    let recs = seq_records(rng, pool, g, targets, o.beyond);
                    if o.chain {
                        let (bk, la) = (ctx_len(rng), ctx_len(rng));
                        r.u16(bk as u16);
                        for _ in 0..bk {
                            r.u16(pool.hot_gid(rng));
                        }
                        r.u16(g as u16);
                        for _ in 1..g.max(1) {
                            r.u16(pool.hot_gid(rng));
                        }
                        r.u16(la as u16);
                        for _ in 0..la {
                            r.u16(pool.hot_gid(rng));
                        }
                        r.u16(recs.len() as u16);
                    } else {
                        r.u16(g as u16).u16(recs.len() as u16);
                        for _ in 1..g.max(1) {
                            r.u16(pool.hot_gid(rng));
                        }
                    }
                    for (s, l) in recs {
                        r.u16(s).u16(l);
                    }
                    rs.off(r.b);
                }
                b.off(rs.done());
            }
        }
        2 => {
            // classes 1..k over some hot glyphs; the others stay in class 0
            let k = 1 + rng.below(3) as u16;
            let mut classed: Vec<(u16, u16)> = Vec::new();
            for &g in &pool.hot {
                if !o.class0 || rng.bool() {
                    classed.push((g, 1 + rng.below(k as usize) as u16));
                }
            }
            let mut cov = if o.eager || o.class0 { cov_order(&pool.hot) } else { pool.subset(rng, 1) };
            if o.class0 {
                // glyphs outside the class definition (class 0) are covered too
                cov.push(rng.below(pool.n as usize) as u16);
                cov = cov_order(&cov);
            }
            b.u16(2).off(coverage(&cov, rng.bool()));
            let cd = classdef(&classed, rng.bool());
            if o.chain {
                b.off(cd.clone()).off(cd.clone()).off(cd);
            } else {
                b.off(cd);
            }
            let nsets = k as usize + 1 + if pool.wild && rng.chance(1, 6) { 2 } else { 0 };
            b.u16(nsets as u16);
            for class in 0..nsets {
                if class == 0 && !o.class0 && rng.chance(2, 3) {
                    b.u16(0);
                    continue;
                }
                let mut rs = B::new();
                let nr = 1 + rng.below(2);
                rs.u16(nr as u16);
                for _ in 0..nr {
                    let g = glyph_count(rng, pool);
                    let cls = |rng: &mut Rng| -> u16 {
                        if o.class0 && rng.bool() {
                            0
                        } else if pool.wild && rng.chance(1, 10) {
                            k + 3
                        } else {
                            rng.below(k as usize + 1) as u16
                        }
                    };
                    let recs = seq_records(rng, pool, g, targets, o.beyond);
                    let mut r = W::new();
                    if o.chain {
                        let (bk, la) = (ctx_len(rng), ctx_len(rng));
                        r.u16(bk as u16);
                        for _ in 0..bk {
                            r.u16(cls(rng));
                        }
                        r.u16(g as u16);
                        for _ in 1..g.max(1) {
                            r.u16(cls(rng));
                        }
                        r.u16(la as u16);
                        for _ in 0..la {
                            r.u16(cls(rng));
                        }
                        r.u16(recs.len() as u16);
                    } else {
                        r.u16(g as u16).u16(recs.len() as u16);
                        for _ in 1..g.max(1) {
                            r.u16(cls(rng));
                        }
                    }
                    for (s, l) in recs {
                        r.u16(s).u16(l);
                    }
                    rs.off(r.b);
                }
                b.off(rs.done());
            }
        }
        _ => {
            let g = glyph_count(rng, pool);
            let recs = seq_records(rng, pool, g, targets, o.beyond);
            b.u16(3);
            let cov_of = |rng: &mut Rng, pool: &Pool| if o.eager { coverage(&pool.hot, rng.bool()) } else { coverage(&pool.subset(rng, 1), rng.bool()) };
            if o.chain {
                let (bk, la) = (ctx_len(rng), ctx_len(rng));
                b.u16(bk as u16);
                for _ in 0..bk {
                    let c = cov_of(rng, pool);
                    b.off(c);
                }
                b.u16(g as u16);
                for _ in 0..g {
                    let c = cov_of(rng, pool);
                    b.off(c);
                }
                b.u16(la as u16);
                for _ in 0..la {
                    let c = cov_of(rng, pool);
                    b.off(c);
                }
                b.u16(recs.len() as u16);
            } else {
                b.u16(g as u16).u16(recs.len() as u16);
                for _ in 0..g {
                    let c = cov_of(rng, pool);
                    b.off(c);
                }
            }
            for (s, l) in recs {
                b.u16(s).u16(l);
            }
        }
    }
    b.done()
}

pub fn gsub_reverse(rng: &mut Rng, pool: &mut Pool) -> Vec<u8> {
    let cov = pool.subset(rng, 1);
    let mut b = B::new();
    b.u16(1).off(coverage(&cov, rng.bool()));
    for _ in 0..2 {
        let n = rng.below(3) * rng.below(2);
        b.u16(n as u16);
        for _ in 0..n {
            let c = coverage(&pool.subset(rng, 1), rng.bool());
            b.off(c);
        }
    }
    let n = if pool.wild && rng.chance(1, 6) { cov.len().saturating_sub(1) } else { cov.len() };
    b.u16(n as u16);
    for _ in 0..n {
        let g = pool.gid(rng);
        b.u16(g);
    }
    b.done()
}

// ---- GPOS subtables ---------------------------------------------------------------------------

fn device(rng: &mut Rng) -> Vec<u8> {
    let mut w = W::new();
    if rng.bool() {
        // VariationIndex
        w.u16(rng.below(3) as u16).u16(rng.below(4) as u16).u16(0x8000);
    } else {
        let fmt = 1 + rng.below(3) as u16;
        w.u16(9).u16(12).u16(fmt).u16(rng.u16()).u16(rng.u16());
    }
    w.b
}

fn anchor(rng: &mut Rng, pool: &Pool) -> Vec<u8> {
    let v = |rng: &mut Rng| -> i16 {
        match rng.below(6) {
            0 => *rng.pick(&[i16::MAX, i16::MIN, -1, 0]),
            _ => rng.range(-1500, 1500) as i16,
        }
    };
    let mut b = B::new();
    match rng.below(5) {
        0 => {
            b.u16(2).i16(v(rng)).i16(v(rng)).u16(rng.below(40) as u16);
        }
        1 => {
            b.u16(3).i16(v(rng)).i16(v(rng));
            for _ in 0..2 {
                if rng.bool() {
                    b.off(device(rng));
                } else {
                    b.u16(0);
                }
            }
        }
        2 if pool.wild => {
            b.u16(*rng.pick(&[0u16, 4, 0xFFFF])).i16(v(rng)).i16(v(rng));
        }
        _ => {
            b.u16(1).i16(v(rng)).i16(v(rng));
        }
    }
    b.done()
}

/// value record fields for `format` appended to `b` (devices become children of `b`)
fn value_record(rng: &mut Rng, b: &mut B, format: u16) {
    for bit in 0..8 {
        if format & (1 << bit) != 0 {
            if bit < 4 {
                let v = match rng.below(8) {
                    0 => *rng.pick(&[i16::MAX, i16::MIN]),
                    _ => rng.range(-800, 800) as i16,
                };
                b.i16(v);
            } else if rng.bool() {
                b.off(device(rng));
            } else {
                b.u16(0);
            }
        }
    }
}

fn value_format(rng: &mut Rng, pool: &Pool) -> u16 {
    match rng.below(8) {
        0 => 0,
        1 => 0x0004,
        2 => 0x000F,
        3 => 0x0005,
        4 => 0x00FF,
        5 => 0x0044,
        6 if pool.wild => rng.u16(),
        _ => rng.below(16) as u16,
    }
}

pub fn gpos_single(rng: &mut Rng, pool: &mut Pool) -> Vec<u8> {
    let cov = pool.subset(rng, 1);
    let vf = value_format(rng, pool);
    let mut b = B::new();
    if rng.bool() {
        b.u16(1).off(coverage(&cov, rng.bool())).u16(vf);
        value_record(rng, &mut b, vf);
    } else {
        let n = if pool.wild && rng.chance(1, 6) { cov.len().saturating_sub(1) } else { cov.len() };
        b.u16(2).off(coverage(&cov, rng.bool())).u16(vf).u16(n as u16);
        for _ in 0..n {
            value_record(rng, &mut b, vf);
        }
    }
    b.done()
}

pub fn gpos_pair(rng: &mut Rng, pool: &mut Pool) -> Vec<u8> {
    let cov = pool.subset(rng, 1);
    let (vf1, vf2) = (value_format(rng, pool) & 0x0F, if rng.bool() { 0 } else { value_format(rng, pool) & 0x0F });
    let mut b = B::new();
    if rng.bool() {
        b.u16(1).off(coverage(&cov, rng.bool())).u16(vf1).u16(vf2).u16(cov.len() as u16);
        for _ in 0..cov.len() {
            let seconds = pool.subset(rng, 1);
            let mut ps = B::new();
            ps.u16(seconds.len() as u16);
            for s in seconds {
                ps.u16(s);
                value_record(rng, &mut ps, vf1);
                value_record(rng, &mut ps, vf2);
            }
            b.off(ps.done());
        }
    } else {
        let (c1, c2) = (1 + rng.below(3) as u16, 1 + rng.below(3) as u16);
        let cd1: Vec<(u16, u16)> = pool.hot.iter().map(|&g| (g, rng.below(c1 as usize) as u16)).collect();
        let cd2: Vec<(u16, u16)> = pool.hot.iter().map(|&g| (g, rng.below(c2 as usize + if pool.wild { 2 } else { 0 }) as u16)).collect();
        b.u16(2).off(coverage(&cov, rng.bool())).u16(vf1).u16(vf2).off(classdef(&cd1, rng.bool())).off(classdef(&cd2, rng.bool())).u16(c1).u16(c2);
        for _ in 0..c1 * c2 {
            value_record(rng, &mut b, vf1);
            value_record(rng, &mut b, vf2);
        }
    }
    b.done()
}

pub fn gpos_cursive(rng: &mut Rng, pool: &mut Pool, chain: bool) -> Vec<u8> {
    let cov = if chain { cov_order(&pool.hot) } else { pool.subset(rng, 1) };
    let mut b = B::new();
    b.u16(1).off(coverage(&cov, rng.bool()));
    let n = if pool.wild && rng.chance(1, 6) { cov.len().saturating_sub(1) } else { cov.len() };
    b.u16(n as u16);
    for _ in 0..n {
        for _ in 0..2 {
            if chain || rng.chance(3, 4) {
                b.off(anchor(rng, pool));
            } else {
                b.u16(0);
            }
        }
    }
    b.done()
}

/// kind 4 = mark-to-base, 5 = mark-to-ligature, 6 = mark-to-mark
pub fn gpos_mark(rng: &mut Rng, pool: &mut Pool, kind: u16, hostile: bool) -> Vec<u8> {
    let marks: Vec<u16> = if pool.marks.is_empty() { vec![pool.hot_gid(rng)] } else { cov_order(&pool.marks) };
    let bases: Vec<u16> = if kind == 6 { marks.clone() } else { cov_order(&pool.hot.iter().copied().filter(|g| !marks.contains(g) || rng.chance(1, 8)).collect::<Vec<_>>()) };
    let bases = if bases.is_empty() { vec![pool.hot_gid(rng)] } else { bases };
    let cc = if hostile && rng.chance(1, 6) { 0 } else { 1 + rng.below(3) as u16 };
    let mut b = B::new();
    b.u16(1).off(coverage(&marks, rng.bool())).off(coverage(&bases, rng.bool())).u16(cc);
    let mut ma = B::new();
    let nm = if hostile && rng.chance(1, 5) { marks.len().saturating_sub(1) } else { marks.len() };
    ma.u16(nm as u16);
    for _ in 0..nm {
        let class = if hostile && rng.chance(1, 3) { *rng.pick(&[cc, cc + 1, 0x7FFF, 0xFFFF]) } else { rng.below(cc.max(1) as usize) as u16 };
        ma.u16(class);
        if hostile && rng.chance(1, 6) {
            ma.u16(0);
        } else {
            ma.off(anchor(rng, pool));
        }
    }
    b.off(ma.done());
    let nb = if hostile && rng.chance(1, 5) { bases.len().saturating_sub(1) } else { bases.len() };
    let matrix = |rng: &mut Rng, rows: usize| -> Vec<u8> {
        let mut m = B::new();
        m.u16(rows as u16);
        for _ in 0..rows * cc as usize {
            if rng.chance(1, 4) {
                m.u16(0);
            } else {
                m.off(anchor(rng, pool));
            }
        }
        m.done()
    };
    if kind == 5 {
        let mut la = B::new();
        la.u16(nb as u16);
        for _ in 0..nb {
            let comps = if hostile && rng.chance(1, 5) { 0 } else { 1 + rng.below(3) };
            la.off(matrix(rng, comps));
        }
        b.off(la.done());
    } else {
        b.off(matrix(rng, nb));
    }
    b.done()
}

// ---- GDEF ---------------------------------------------------------------------------------------

pub fn gdef(rng: &mut Rng, pool: &Pool, ligs: &[u16], ivs: Option<Vec<u8>>) -> Vec<u8> {
    let mut classes: Vec<(u16, u16)> = Vec::new();
    for &g in &pool.hot {
        let c = if pool.marks.contains(&g) {
            3
        } else if ligs.contains(&g) {
            2
        } else if rng.chance(1, 6) {
            0
        } else {
            1
        };
        if c != 0 {
            classes.push((g, c));
        }
    }
    for _ in 0..rng.below(12) {
        classes.push((rng.below(pool.n as usize) as u16, 1 + rng.below(if pool.wild { 6 } else { 4 }) as u16));
    }
    let mark_attach: Vec<(u16, u16)> = pool.marks.iter().map(|&g| (g, 1 + rng.below(3) as u16)).collect();
    let with_sets = rng.chance(2, 3) || ivs.is_some();
    let mut b = B::new();
    b.u16(1).u16(if ivs.is_some() { 3 } else if with_sets { 2 } else { 0 });
    b.off(classdef(&classes, rng.chance(1, 4)));
    b.u16(0).u16(0);
    if mark_attach.is_empty() {
        b.u16(0);
    } else {
        b.off(classdef(&mark_attach, rng.bool()));
    }
    if with_sets {
        let nsets = 1 + rng.below(2);
        let mut s = W::new();
        s.u16(1).u16(nsets as u16);
        let mut covs: Vec<Vec<u8>> = Vec::new();
        let mut at = 4 + 4 * nsets;
        for _ in 0..nsets {
            let set: Vec<u16> = pool.marks.iter().copied().filter(|_| rng.bool()).collect();
            let c = coverage(&set, rng.bool());
            s.u32(at as u32);
            at += c.len();
            covs.push(c);
        }
        for c in covs {
            s.bytes(&c);
        }
        b.off(s.b);
    }
    if let Some(ivs) = ivs {
        // offset32 to the item variation store, appended after everything else
        let at = b.w.len();
        b.u32(0);
        let mut bytes = b.done();
        let pos = bytes.len() as u32;
        bytes[at..at + 4].copy_from_slice(&pos.to_be_bytes());
        bytes.extend_from_slice(&ivs);
        return bytes;
    }
    b.done()
}

// ---- variations -----------------------------------------------------------------------------------

pub fn fvar(rng: &mut Rng, axes: usize) -> Vec<u8> {
    let mut w = W::new();
    w.u16(1).u16(0).u16(16).u16(2).u16(axes as u16).u16(20).u16(0).u16((4 * axes + 4) as u16);
    let tags: &[&[u8; 4]] = &[b"wght", b"wdth", b"slnt", b"opsz"];
    for a in 0..axes {
        let (min, def, max) = *rng.pick(&[(100i32, 400i32, 900i32), (0, 0, 1), (-10, 0, 0), (50, 100, 200)]);
        w.bytes(tags[a % 4]).i32(min << 16).i32(def << 16).i32(max << 16).u16(0).u16(256 + a as u16);
    }
    w.b
}

fn f2dot14(rng: &mut Rng) -> i16 {
    match rng.below(8) {
        0 => -16384,
        1 => 0,
        2 => 16384,
        3 => 8192,
        4 => -8192,
        5 if rng.chance(1, 4) => *rng.pick(&[i16::MAX, i16::MIN]),
        _ => rng.range(-16384, 16384) as i16,
    }
}

/// ItemVariationStore with up to 3 data sets of up to 4 items (what `device()` refers to).
pub fn item_variation_store(rng: &mut Rng, axes: usize, wild: bool) -> Vec<u8> {
    let nregions = 1 + rng.below(3);
    let mut rl = W::new();
    rl.u16(if wild && rng.chance(1, 6) { axes as u16 + 1 } else { axes as u16 }).u16(nregions as u16);
    for _ in 0..nregions * axes {
        let mut v = [f2dot14(rng), f2dot14(rng), f2dot14(rng)];
        if !wild || rng.chance(3, 4) {
            v.sort();
        }
        rl.i16(v[0]).i16(v[1]).i16(v[2]);
    }
    let ndata = 1 + rng.below(3);
    let mut datas: Vec<Vec<u8>> = Vec::new();
    for _ in 0..ndata {
        let items = 1 + rng.below(4);
        let nri = 1 + rng.below(nregions);
        let short = rng.below(nri + 1);
        let mut d = W::new();
        d.u16(items as u16).u16(if wild && rng.chance(1, 8) { nri as u16 + 1 } else { short as u16 }).u16(nri as u16);
        for _ in 0..nri {
            d.u16(if wild && rng.chance(1, 6) { nregions as u16 + rng.below(2) as u16 } else { rng.below(nregions) as u16 });
        }
        for _ in 0..items {
            for k in 0..nri {
                if k < short {
                    d.i16(match rng.below(6) {
                        0 => *rng.pick(&[i16::MAX, i16::MIN]),
                        _ => rng.range(-300, 300) as i16,
                    });
                } else {
                    d.i8(rng.range(-128, 127) as i8);
                }
            }
        }
        datas.push(d.b);
    }
    let mut w = W::new();
    let hdr = 8 + 4 * ndata;
    w.u16(1).u32(hdr as u32).u16(ndata as u16);
    let mut at = hdr + rl.len();
    for d in &datas {
        w.u32(at as u32);
        at += d.len();
    }
    w.bytes(&rl.b);
    for d in &datas {
        w.bytes(d);
    }
    w.b
}

/// FeatureVariations table: condition sets over the axes, each replacing a few features by
/// feature tables with other lookup lists.
pub fn feature_variations(rng: &mut Rng, axes: usize, nfeatures: usize, nlookups: usize, exclusive: &[u16], wild: bool) -> Vec<u8> {
    let nrec = 1 + rng.below(3);
    let mut recs: Vec<(Vec<u8>, Vec<u8>)> = Vec::new();
    for _ in 0..nrec {
        // condition set
        let nc = if rng.chance(1, 5) { 0 } else { 1 + rng.below(2) };
        let mut cs = W::new();
        cs.u16(nc as u16);
        for i in 0..nc {
            cs.u32((2 + 4 * nc + 8 * i) as u32);
        }
        for _ in 0..nc {
            let mut r = [f2dot14(rng), f2dot14(rng)];
            if !wild || rng.chance(3, 4) {
                r.sort();
            }
            if rng.chance(1, 3) {
                r = [-16384, 16384];
            }
            let axis = if wild && rng.chance(1, 6) { axes as u16 + rng.below(2) as u16 } else { rng.below(axes) as u16 };
            cs.u16(if wild && rng.chance(1, 10) { 2 } else { 1 }).u16(axis).i16(r[0]).i16(r[1]);
        }
        // feature table substitution
        let ns = 1 + rng.below(3.min(nfeatures.max(1)));
        let mut idx: Vec<u16> = (0..ns).map(|_| if wild && rng.chance(1, 8) { nfeatures as u16 + 1 } else { rng.below(nfeatures.max(1)) as u16 }).collect();
        if !wild || rng.chance(3, 4) {
            idx.sort();
            idx.dedup();
        }
        let mut fts = W::new();
        fts.u16(1).u16(0).u16(idx.len() as u16);
        let mut at = 6 + 6 * idx.len();
        let mut tables: Vec<Vec<u8>> = Vec::new();
        for fi in &idx {
            let k = rng.below(3);
            let mut f = W::new();
            f.u16(0).u16(k as u16);
            for _ in 0..k {
                let mut l = rng.below(nlookups.max(1)) as u16;
                if exclusive.contains(&l) {
                    l = 0;
                }
                if exclusive.contains(&l) {
                    f.u16(0xFFFF);
                } else {
                    f.u16(if wild && rng.chance(1, 10) { 0xFFFF } else { l });
                }
            }
            fts.u16(*fi).u32(at as u32);
            at += f.len();
            tables.push(f.b);
        }
        for tb in tables {
            fts.bytes(&tb);
        }
        recs.push((cs.b, fts.b));
    }
    let mut w = W::new();
    w.u16(1).u16(0).u32(nrec as u32);
    let mut at = 8 + 8 * nrec;
    let mut body = W::new();
    for (cs, fts) in &recs {
        let cs_at = at;
        at += cs.len();
        let fts_at = at;
        at += fts.len();
        w.u32(if rng.chance(1, 8) { 0 } else { cs_at as u32 }).u32(if rng.chance(1, 10) { 0 } else { fts_at as u32 });
        body.bytes(cs).bytes(fts);
    }
    w.bytes(&body.b);
    w.b
}

// ---- table assembly -----------------------------------------------------------------------------

pub struct ScriptDef {
    pub tag: u32,
    /// (language tag or None for the default langsys, feature indices)
    pub langs: Vec<(Option<u32>, Vec<u16>)>,
}

pub fn layout_table(scripts: &[ScriptDef], features: &[(u32, Vec<u16>)], lookups: &[Lk], gpos: bool, variations: Option<Vec<u8>>) -> Option<Vec<u8>> {
    // script list
    let mut sl = B::new();
    let mut ss: Vec<&ScriptDef> = scripts.iter().collect();
    ss.sort_by_key(|s| s.tag);
    sl.u16(ss.len() as u16);
    for s in ss {
        let langsys = |feats: &[u16]| -> Vec<u8> {
            let mut w = W::new();
            w.u16(0).u16(0xFFFF).u16(feats.len() as u16);
            for f in feats {
                w.u16(*f);
            }
            w.b
        };
        let mut st = B::new();
        match s.langs.iter().find(|l| l.0.is_none()) {
            Some(d) => st.off(langsys(&d.1)),
            None => st.u16(0),
        };
        let mut named: Vec<&(Option<u32>, Vec<u16>)> = s.langs.iter().filter(|l| l.0.is_some()).collect();
        named.sort_by_key(|l| l.0);
        st.u16(named.len() as u16);
        for l in named {
            st.u32(l.0.unwrap_or(0));
            st.off(langsys(&l.1));
        }
        sl.u32(s.tag);
        sl.off(st.done());
    }
    // feature list
    let mut fl = B::new();
    fl.u16(features.len() as u16);
    for (tag, lks) in features {
        let mut f = W::new();
        f.u16(0).u16(lks.len() as u16);
        for l in lks {
            f.u16(*l);
        }
        fl.u32(*tag);
        fl.off(f.b);
    }
    // lookup list
    let mut ll = B::new();
    ll.u16(lookups.len() as u16);
    for l in lookups {
        let ext_ty = if gpos { 9 } else { 7 };
        let mut lk = B::new();
        lk.u16(if l.ext { ext_ty } else { l.ty }).u16(l.flag).u16(l.subs.len() as u16);
        for s in &l.subs {
            if l.ext {
                let mut e = W::new();
                e.u16(1).u16(l.ty).u32(8);
                e.bytes(s);
                lk.off(e.b);
            } else {
                lk.off(s.clone());
            }
        }
        if l.flag & 0x10 != 0 {
            lk.u16(l.mfs);
        }
        let bytes = lk.done();
        if bytes.len() > 30_000 {
            return None;
        }
        ll.off(bytes);
    }
    let (sl, fl, ll) = (sl.done(), fl.done(), ll.done());
    if 10 + sl.len() + fl.len() + ll.len() > 0xFFFF || ll.len() > 0xFFFF {
        return None;
    }
    let mut w = W::new();
    match variations {
        None => {
            w.u16(1).u16(0).u16(10).u16(10 + sl.len() as u16).u16((10 + sl.len() + fl.len()) as u16);
            w.bytes(&sl).bytes(&fl).bytes(&ll);
        }
        Some(fv) => {
            if 14 + sl.len() + fl.len() + ll.len() > 0xFFFF {
                return None;
            }
            w.u16(1).u16(1).u16(14).u16(14 + sl.len() as u16).u16((14 + sl.len() + fl.len()) as u16);
            w.u32((14 + sl.len() + fl.len() + ll.len()) as u32);
            w.bytes(&sl).bytes(&fl).bytes(&ll).bytes(&fv);
        }
    }
    Some(w.b)
}

// ---- hostile programs ---------------------------------------------------------------------------

pub const PROGRAMS: &[&str] = &[
    "cycle", "nest", "delete-all", "grow", "oob-ids", "seq-index-beyond", "class0", "lig-skip-marks", "mark-attach-oob", "cursive-chain", "pos-context-cycle", "mixed",
];

pub struct Program {
    pub kind: &'static str,
    pub gsub: Vec<Lk>,
    pub gpos: Vec<Lk>,
    /// lookups that features must reference directly
    pub gsub_entry: Vec<u16>,
    pub gpos_entry: Vec<u16>,
    /// GSUB lookups that exactly one feature may reference (exponential growth passes)
    pub exclusive: Vec<u16>,
    pub depth: usize,
    /// factor by which the exponential passes of a "grow" program multiply a run at most (1 otherwise)
    pub growth: f64,
}

fn lk(ty: u16, sub: Vec<u8>) -> Lk {
    Lk { ty, flag: 0, mfs: 0, subs: vec![sub], ext: false }
}

fn random_gsub_lookup(rng: &mut Rng, pool: &mut Pool, nlookups: u16) -> Lk {
    let targets: Vec<u16> = (0..1 + rng.below(3)).map(|_| rng.below(nlookups.max(1) as usize) as u16).collect();
    let o = CtxOpts { chain: false, fmt: 1 + rng.below(3) as u16, beyond: pool.wild && rng.chance(1, 4), class0: rng.chance(1, 4), eager: rng.bool() };
    let (ty, sub) = match rng.below(10) {
        0 | 1 => (1, gsub_single(rng, pool)),
        2 => {
            let cov = pool.subset(rng, 1);
            (2, gsub_multiple(rng, pool, &cov, 3, false))
        }
        3 => (3, gsub_alternate(rng, pool)),
        4 | 5 => (4, gsub_ligature(rng, pool, false)),
        6 => (5, context(rng, pool, &targets, o)),
        7 | 8 => (6, context(rng, pool, &targets, CtxOpts { chain: true, ..o })),
        _ => (8, gsub_reverse(rng, pool)),
    };
    let (flag, mfs) = lookup_flag(rng, pool);
    let mut l = Lk { ty, flag, mfs, subs: vec![sub], ext: rng.chance(1, 8) };
    if rng.chance(1, 6) {
        // a second subtable of the same type
        let sub2 = match ty {
            1 => gsub_single(rng, pool),
            4 => gsub_ligature(rng, pool, false),
            5 => context(rng, pool, &targets, o),
            6 => context(rng, pool, &targets, CtxOpts { chain: true, ..o }),
            _ => gsub_single(rng, pool),
        };
        if matches!(ty, 1 | 4 | 5 | 6) {
            l.subs.push(sub2);
        }
    }
    l
}

fn random_gpos_lookup(rng: &mut Rng, pool: &mut Pool, nlookups: u16) -> Lk {
    let targets: Vec<u16> = (0..1 + rng.below(3)).map(|_| rng.below(nlookups.max(1) as usize) as u16).collect();
    let o = CtxOpts { chain: false, fmt: 1 + rng.below(3) as u16, beyond: pool.wild && rng.chance(1, 4), class0: rng.chance(1, 4), eager: rng.bool() };
    let hostile = pool.wild;
    let (ty, sub) = match rng.below(11) {
        0 | 1 => (1, gpos_single(rng, pool)),
        2 | 3 => (2, gpos_pair(rng, pool)),
        4 => {
            let chain = rng.bool();
            (3, gpos_cursive(rng, pool, chain))
        }
        5 | 6 => (4, gpos_mark(rng, pool, 4, hostile)),
        7 => (5, gpos_mark(rng, pool, 5, hostile)),
        8 => (6, gpos_mark(rng, pool, 6, hostile)),
        9 => (7, context(rng, pool, &targets, o)),
        _ => (8, context(rng, pool, &targets, CtxOpts { chain: true, ..o })),
    };
    let (flag, mfs) = lookup_flag(rng, pool);
    Lk { ty, flag, mfs, subs: vec![sub], ext: rng.chance(1, 8) }
}

pub fn gen_program(rng: &mut Rng, pool: &mut Pool, kind: &'static str, text_len_hint: usize) -> Program {
    let mut p = Program { kind, gsub: Vec::new(), gpos: Vec::new(), gsub_entry: Vec::new(), gpos_entry: Vec::new(), exclusive: Vec::new(), depth: 0, growth: 1.0 };
    let eager = |chain: bool, fmt: u16| CtxOpts { chain, fmt, beyond: false, class0: false, eager: true };
    match kind {
        "cycle" | "nest" => {
            // L0 -> L1 -> ... -> L(d-1) [-> L0 | itself | a terminal substitution]
            let d = if kind == "cycle" { 1 + rng.below(8) } else { 6 + rng.below(6) };
            p.depth = d;
            let terminal = d as u16;
            for i in 0..d {
                let next = if i + 1 < d {
                    vec![i as u16 + 1]
                } else if kind == "cycle" {
                    match rng.below(3) {
                        0 => vec![0],
                        1 => vec![i as u16],
                        _ => vec![rng.below(d) as u16, terminal],
                    }
                } else {
                    vec![terminal]
                };
                let mut targets = next;
                if rng.chance(1, 3) {
                    targets.push(terminal);
                }
                let chain = rng.bool();
                let fmt = 1 + rng.below(3) as u16;
                let sub = context(rng, pool, &targets, eager(chain, fmt));
                p.gsub.push(lk(if chain { 6 } else { 5 }, sub));
            }
            // terminal: something that changes the run
            let t = match rng.below(4) {
                0 => {
                    let cov = pool.hot.clone();
                    lk(2, gsub_multiple(rng, pool, &cov, 3, false))
                }
                1 => lk(4, gsub_ligature(rng, pool, true)),
                _ => lk(1, gsub_single(rng, pool)),
            };
            p.gsub.push(t);
            p.gsub_entry.push(0);
            if rng.bool() {
                p.gsub_entry.push(rng.below(d) as u16);
            }
        }
        "delete-all" => {
            let passes = 1 + rng.below(4);
            for _ in 0..passes {
                let l = if rng.chance(1, 3) {
                    let cov = pool.hot.clone();
                    lk(2, gsub_multiple(rng, pool, &cov, 0, true))
                } else {
                    lk(4, gsub_ligature(rng, pool, true))
                };
                p.gsub_entry.push(p.gsub.len() as u16);
                p.gsub.push(l);
            }
            if rng.bool() {
                // deletion from inside a context
                let target = rng.below(p.gsub.len()) as u16;
                let chain = rng.bool();
                let fmt = 1 + rng.below(3) as u16;
                let sub = context(rng, pool, &[target], eager(chain, fmt));
                p.gsub_entry.push(p.gsub.len() as u16);
                p.gsub.push(lk(if chain { 6 } else { 5 }, sub));
            }
        }
        "grow" | "grow-probe" => {
            // f hot glyphs per hot glyph and pass. Every pass is a lookup of its own that exactly
            // one feature references, so the run grows by at most f^passes: capped at ~16k glyphs
            // for a 64-character text. ("grow-probe" goes beyond that on purpose: allsorts has no
            // limit on the length of the run, see known_findings.json.)
            let probe = kind == "grow-probe";
            let f = if probe { 30 + rng.below(3) } else { 2 + rng.below(7) };
            let ctx_pass = !probe && rng.chance(1, 3);
            let mut passes = 1;
            let mut size = text_len_hint.max(4) * f * if ctx_pass { f } else { 1 };
            while passes < 6 && size * f <= 16_000 && rng.chance(4, 5) {
                passes += 1;
                size *= f;
            }
            if probe {
                passes = 2;
            }
            p.depth = passes;
            p.growth = (f as f64).powi(passes as i32 + if ctx_pass { 1 } else { 0 });
            for _ in 0..passes {
                let cov = pool.hot.clone();
                p.gsub_entry.push(p.gsub.len() as u16);
                p.exclusive.push(p.gsub.len() as u16);
                p.gsub.push(lk(2, gsub_multiple(rng, pool, &cov, f, true)));
            }
            if ctx_pass {
                // one more growth pass driven from inside a context: the pass it calls is not
                // referenced by a feature itself
                let target = p.gsub.len() as u16;
                let cov = pool.hot.clone();
                p.exclusive.push(target);
                p.gsub.push(lk(2, gsub_multiple(rng, pool, &cov, f, true)));
                let chain = rng.bool();
                let sub = context(rng, pool, &[target], CtxOpts { chain, fmt: 3, beyond: false, class0: false, eager: true });
                p.gsub_entry.push(p.gsub.len() as u16);
                p.exclusive.push(p.gsub.len() as u16);
                p.gsub.push(lk(if chain { 6 } else { 5 }, sub));
            }
        }
        "oob-ids" => {
            pool.wild = true;
            for _ in 0..2 + rng.below(4) {
                let cov = pool.subset(rng, 1);
                let l = match rng.below(5) {
                    0 => lk(1, gsub_single(rng, pool)),
                    1 => lk(2, gsub_multiple(rng, pool, &cov, 3, false)),
                    2 => lk(3, gsub_alternate(rng, pool)),
                    3 => lk(4, gsub_ligature(rng, pool, false)),
                    _ => lk(8, gsub_reverse(rng, pool)),
                };
                p.gsub_entry.push(p.gsub.len() as u16);
                p.gsub.push(l);
            }
        }
        "seq-index-beyond" => {
            let n = 2 + rng.below(3);
            for i in 0..n {
                let chain = rng.bool();
                let o = CtxOpts { chain, fmt: 1 + rng.below(3) as u16, beyond: true, class0: false, eager: true };
                let sub = context(rng, pool, &[n as u16, n as u16 + 1], o);
                p.gsub_entry.push(i as u16);
                p.gsub.push(lk(if chain { 6 } else { 5 }, sub));
            }
            p.gsub.push(lk(1, gsub_single(rng, pool)));
            let cov = pool.hot.clone();
            p.gsub.push(lk(2, gsub_multiple(rng, pool, &cov, 3, false)));
            // the same through GPOS
            let o = CtxOpts { chain: rng.bool(), fmt: 1 + rng.below(3) as u16, beyond: true, class0: false, eager: true };
            let sub = context(rng, pool, &[1], o);
            p.gpos.push(lk(if o.chain { 8 } else { 7 }, sub));
            p.gpos.push(lk(1, gpos_single(rng, pool)));
            p.gpos_entry.push(0);
        }
        "class0" => {
            let n = 1 + rng.below(3);
            for i in 0..n {
                let chain = rng.bool();
                let o = CtxOpts { chain, fmt: 2, beyond: false, class0: true, eager: true };
                let sub = context(rng, pool, &[n as u16], o);
                p.gsub_entry.push(i as u16);
                p.gsub.push(lk(if chain { 6 } else { 5 }, sub));
            }
            p.gsub.push(lk(1, gsub_single(rng, pool)));
            let o = CtxOpts { chain: rng.bool(), fmt: 2, beyond: false, class0: true, eager: true };
            let sub = context(rng, pool, &[1], o);
            p.gpos.push(lk(if o.chain { 8 } else { 7 }, sub));
            p.gpos.push(lk(1, gpos_single(rng, pool)));
            p.gpos_entry.push(0);
        }
        "lig-skip-marks" => {
            for _ in 0..1 + rng.below(3) {
                let greedy = rng.bool();
                let mut l = lk(4, gsub_ligature(rng, pool, greedy));
                let (flag, mfs) = *rng.pick(&[(0x0008u16, 0u16), (0x0010, 0), (0x0010, 1), (0x0100, 0), (0x0200, 0), (0x000E, 0)]);
                l.flag = flag;
                l.mfs = mfs;
                p.gsub_entry.push(p.gsub.len() as u16);
                p.gsub.push(l);
            }
            p.gpos_entry.push(0);
            p.gpos.push(lk(5, gpos_mark(rng, pool, 5, false)));
            p.gpos_entry.push(1);
            p.gpos.push(lk(4, gpos_mark(rng, pool, 4, false)));
        }
        "mark-attach-oob" => {
            for _ in 0..2 + rng.below(3) {
                let kind = 4 + rng.below(3) as u16;
                let mut l = lk(kind, gpos_mark(rng, pool, kind, true));
                if rng.chance(1, 3) {
                    let (flag, mfs) = lookup_flag(rng, pool);
                    l.flag = flag;
                    l.mfs = mfs;
                }
                p.gpos_entry.push(p.gpos.len() as u16);
                p.gpos.push(l);
            }
            if rng.bool() {
                p.gsub_entry.push(0);
                p.gsub.push(lk(4, gsub_ligature(rng, pool, false)));
            }
        }
        "cursive-chain" => {
            for _ in 0..1 + rng.below(2) {
                let mut l = lk(3, gpos_cursive(rng, pool, true));
                l.flag = if rng.bool() { 1 } else { 0 } | if rng.chance(1, 3) { 8 } else { 0 };
                p.gpos_entry.push(p.gpos.len() as u16);
                p.gpos.push(l);
            }
            if rng.bool() {
                p.gpos_entry.push(p.gpos.len() as u16);
                p.gpos.push(lk(4, gpos_mark(rng, pool, 4, false)));
            }
            if rng.bool() {
                p.gpos_entry.push(p.gpos.len() as u16);
                p.gpos.push(lk(6, gpos_mark(rng, pool, 6, false)));
            }
        }
        "pos-context-cycle" => {
            let d = 1 + rng.below(8);
            p.depth = d;
            let terminal = d as u16;
            for i in 0..d {
                let mut targets = if i + 1 < d { vec![i as u16 + 1] } else { vec![*rng.pick(&[0u16, i as u16, terminal])] };
                targets.push(terminal + rng.below(3) as u16);
                let chain = rng.bool();
                let fmt = 1 + rng.below(3) as u16;
                let sub = context(rng, pool, &targets, eager(chain, fmt));
                p.gpos.push(lk(if chain { 8 } else { 7 }, sub));
            }
            p.gpos.push(lk(1, gpos_single(rng, pool)));
            p.gpos.push(lk(2, gpos_pair(rng, pool)));
            p.gpos.push(lk(4, gpos_mark(rng, pool, 4, false)));
            p.gpos_entry.push(0);
        }
        _ => {}
    }
    // filler: random lookups of every type (the "mixed" program is only this)
    let extra_sub = if kind == "mixed" { 3 + rng.below(6) } else if kind.starts_with("grow") { 0 } else { rng.below(3) };
    let total = (p.gsub.len() + extra_sub) as u16;
    for _ in 0..extra_sub {
        let l = random_gsub_lookup(rng, pool, total);
        if rng.chance(2, 3) {
            p.gsub_entry.push(p.gsub.len() as u16);
        }
        p.gsub.push(l);
    }
    let extra_pos = if kind == "mixed" { 2 + rng.below(5) } else { rng.below(3) };
    let total = (p.gpos.len() + extra_pos) as u16;
    for _ in 0..extra_pos {
        let l = random_gpos_lookup(rng, pool, total);
        if rng.chance(2, 3) {
            p.gpos_entry.push(p.gpos.len() as u16);
        }
        p.gpos.push(l);
    }
    p
}
