//! C15 helpers: name (borrowed + owned), OS/2, post.

use super::tt::*;
use super::*;
use allsorts::binary::read::ReadScope;
use allsorts::binary::write::{WriteBinary, WriteBuffer};
use allsorts::binary::U16Be;
use allsorts::error::{ParseError, WriteError};
use allsorts::post::{Header as PostHeader, PascalString, PostTable, SubTable as PostSubTable};
use allsorts::tables::os2::{FsSelection, Os2, Version0, Version1, Version2to4, Version5};
use allsorts::tables::owned as otables;
use allsorts::tables::{LangTagRecord, NameRecord, NameTable};
use std::borrow::Cow;
use std::convert::TryFrom;

// ---------------------------------------------------------------------------------------------
// name (borrowed)
// ---------------------------------------------------------------------------------------------

pub fn fp_name(n: &NameTable<'_>) -> Fp {
    let recs: Vec<(u16, u16, u16, u16, u16, u16)> = n.name_records.iter().map(|r| (r.platform_id, r.encoding_id, r.language_id, r.name_id, r.length, r.offset)).collect();
    let tags: Option<Vec<(u16, u16)>> = n.opt_langtag_records.as_ref().map(|a| a.iter().map(|r| (r.length, r.offset)).collect());
    fp![
        "format" => if tags.is_some() { 1 } else { 0 },
        "count" => recs.len(),
        "records" => fv(&recs),
        "langtag_count" => tags.as_ref().map(|t| t.len()),
        "langtags" => tags.as_ref().map(|t| fv(t)),
        "storage" => fbytes(n.string_storage.data()),
    ]
}

pub fn step_name(cx: &mut Ctx, bytes: &[u8]) -> Step {
    mk_step(cx, "NameTable", bytes.len(), || ReadScope::new(bytes).read::<NameTable<'_>>(), fp_name, |b, n| NameTable::write(b, &n))
}

/// abstract description of a borrowed name table
pub struct NameAst {
    pub recs: Vec<(u16, u16, u16, u16, u16, u16)>,
    pub tags: Option<Vec<(u16, u16)>>,
    pub storage: Vec<u8>,
}

impl NameAst {
    pub fn fp(&self) -> Fp {
        fp![
            "format" => if self.tags.is_some() { 1 } else { 0 },
            "count" => self.recs.len(),
            "records" => fv(&self.recs),
            "langtag_count" => self.tags.as_ref().map(|t| t.len()),
            "langtags" => self.tags.as_ref().map(|t| fv(t)),
            "storage" => fbytes(&self.storage),
        ]
    }
    pub fn rec_bytes(&self) -> (Vec<u8>, Vec<u8>) {
        let mut r = Vec::with_capacity(self.recs.len() * 12);
        for x in &self.recs {
            for v in [x.0, x.1, x.2, x.3, x.4, x.5] {
                r.extend_from_slice(&v.to_be_bytes());
            }
        }
        let mut t = Vec::new();
        if let Some(tags) = &self.tags {
            for x in tags {
                t.extend_from_slice(&x.0.to_be_bytes());
                t.extend_from_slice(&x.1.to_be_bytes());
            }
        }
        (r, t)
    }
    /// run `f` on the allsorts value described by this AST
    pub fn with<R>(&self, f: impl FnOnce(Option<&NameTable<'_>>) -> R) -> R {
        let (rb, tb) = self.rec_bytes();
        let recs = ReadScope::new(&rb).ctxt().read_array::<NameRecord>(self.recs.len());
        let tags = match &self.tags {
            Some(t) => match ReadScope::new(&tb).ctxt().read_array::<LangTagRecord>(t.len()) {
                Ok(a) => Some(a),
                Err(_) => return f(None),
            },
            None => None,
        };
        match recs {
            Ok(recs) => {
                let t = NameTable { string_storage: ReadScope::new(&self.storage), name_records: recs, opt_langtag_records: tags };
                f(Some(&t))
            }
            Err(_) => f(None),
        }
    }
    pub fn json(&self) -> J {
        J::obj(vec![
            ("records", J::s(fv(&self.recs))),
            ("langtags", J::s(format!("{:?}", self.tags.as_ref().map(|t| fv(t))))),
            ("storage_len", J::U(self.storage.len() as u64)),
        ])
    }
}

fn gen_name_ast(rng: &mut Rng, nrec: usize, ntag: Option<usize>, storage_len: usize) -> NameAst {
    let storage = if storage_len > 4096 {
        let mut s = vec![0x41u8; storage_len];
        for i in (0..storage_len).step_by(97) {
            s[i] = rng.u8();
        }
        s
    } else {
        rng.bytes(storage_len)
    };
    let rec = |rng: &mut Rng| {
        let len = if storage_len == 0 { 0 } else { rng.below(storage_len.min(65535) + 1) };
        let off = if storage_len == 0 { 0 } else { rng.below((storage_len - len).min(65535) + 1) };
        (len as u16, off as u16)
    };
    let recs = (0..nrec)
        .map(|_| {
            let (l, o) = rec(rng);
            (*rng.pick(&[0u16, 1, 3, 4, 0xFFFF]), edge_u16(rng), if ntag.is_some() && rng.bool() { 0x8000 + rng.below(4) as u16 } else { edge_u16(rng) }, rng.below(30) as u16, l, o)
        })
        .collect();
    let tags = ntag.map(|n| (0..n).map(|_| rec(rng)).collect());
    NameAst { recs, tags, storage }
}

pub fn rt_name(cx: &mut Ctx, rng: &mut Rng) {
    let ntag = if rng.bool() { Some(edge_len(rng, 40).min(40)) } else { None };
    // largest record count whose string offset 6 + 12 n (+ 2 + 4 m) still fits in 16 bits
    let fixed = 6 + ntag.map_or(0, |m| 2 + 4 * m);
    let max_rec = (65535 - fixed) / 12;
    let nrec = match rng.below(30) {
        0 => max_rec,
        1 => 0,
        2 => max_rec - 1,
        _ => rng.small(60),
    };
    // keep the string offset within u16: 6 + 12 n (+ 2 + 4 m) <= 65535
    // (storage beyond 64K is out of reach of the 16-bit record offsets: see overflow_name)
    let storage_len = match rng.below(40) {
        0 => 65535,
        1 => 65534,
        2 => 40_000,
        3 => 0,
        _ => rng.small(3000),
    };
    let ast = gen_name_ast(rng, nrec, ntag, storage_len);
    let exp = ast.fp();
    let w = ast.with(|t| t.map(|t| gwrite(cx, "NameTable::write", storage_len + nrec * 12, |b| NameTable::write(b, t))));
    let w = match w {
        Some(w) => w,
        None => {
            cx.inconclusive("name-gen");
            return;
        }
    };
    let wit = || ast.json();
    finish_rt(cx, if ntag.is_some() { "name-format1" } else { "name-format0" }, &exp, w, &mut |cx, b| step_name(cx, b), &wit);
}

// ---------------------------------------------------------------------------------------------
// name (owned)
// ---------------------------------------------------------------------------------------------

pub fn fp_name_owned(n: &otables::NameTable<'_>) -> Fp {
    let mut f = fp!["format" => if n.langtag_records.is_empty() { 0 } else { 1 }, "count" => n.name_records.len(), "langtag_count" => n.langtag_records.len()];
    let mut h = 0u64;
    for (i, r) in n.name_records.iter().enumerate() {
        if i < 24 {
            f.push((format!("record[{}]", i), format!("{:?} {}", (r.platform_id, r.encoding_id, r.language_id, r.name_id), fbytes(&r.string))));
        } else {
            h = mix(h, mix(hash_bytes(&r.string), ((r.platform_id as u64) << 48) | ((r.encoding_id as u64) << 32) | ((r.language_id as u64) << 16) | r.name_id as u64));
        }
    }
    f.push(("record[rest]".to_string(), format!("{:016x}", h)));
    for (i, t) in n.langtag_records.iter().enumerate().take(64) {
        f.push((format!("langtag[{}]", i), fbytes(t)));
    }
    f
}

/// borrowed parse -> owned conversion -> owned writer
pub fn step_name_owned(cx: &mut Ctx, bytes: &[u8]) -> Step {
    mk_step(
        cx,
        "owned::NameTable",
        bytes.len(),
        || {
            let n = ReadScope::new(bytes).read::<NameTable<'_>>()?;
            otables::NameTable::try_from(&n)
        },
        fp_name_owned,
        |b, n| otables::NameTable::write(b, &n),
    )
}

pub fn gen_name_owned(rng: &mut Rng, nrec: usize, ntag: usize, max_str: usize) -> otables::NameTable<'static> {
    let mut total = 0usize;
    let mut s = |rng: &mut Rng| -> Cow<'static, [u8]> {
        let l = edge_len(rng, max_str).min(65535usize.saturating_sub(total));
        total += l;
        Cow::Owned(rng.bytes(l))
    };
    let name_records = (0..nrec)
        .map(|_| otables::NameRecord { platform_id: *rng.pick(&[0u16, 1, 3]), encoding_id: edge_u16(rng), language_id: edge_u16(rng), name_id: rng.below(26) as u16, string: s(rng) })
        .collect();
    let langtag_records = (0..ntag).map(|_| s(rng)).collect();
    otables::NameTable { name_records, langtag_records }
}

pub fn rt_name_owned(cx: &mut Ctx, rng: &mut Rng) {
    let nrec = match rng.below(20) {
        0 => 0,
        _ => rng.small(50),
    };
    let ntag = if rng.bool() { 0 } else { 1 + rng.small(8) };
    let t = gen_name_owned(rng, nrec, ntag, 400);
    let exp = fp_name_owned(&t);
    let w = gwrite(cx, "owned::NameTable::write", 70_000, |b| otables::NameTable::write(b, &t));
    let wit = || fp_json(&exp);
    finish_rt(cx, if ntag > 0 { "name-owned-format1" } else { "name-owned-format0" }, &exp, w, &mut |cx, b| step_name_owned(cx, b), &wit);
}

// ---------------------------------------------------------------------------------------------
// OS/2
// ---------------------------------------------------------------------------------------------

/// declared normalisation: versions 2-3 are written as 4 (the version is implied by the optional
/// parts present; anything carrying the version-5 fields is version 5)
pub fn os2_written_version(o: &Os2) -> u16 {
    if o.version5.is_some() {
        5
    } else if o.version2to4.is_some() {
        4
    } else if o.version1.is_some() {
        1
    } else {
        0
    }
}

pub fn fp_os2(o: &Os2) -> Fp {
    fp![
        "version(normalised)" => os2_written_version(o),
        "x_avg_char_width" => o.x_avg_char_width,
        "us_weight_class" => o.us_weight_class,
        "us_width_class" => o.us_width_class,
        "fs_type" => o.fs_type,
        "subscript" => (o.y_subscript_x_size, o.y_subscript_y_size, o.y_subscript_x_offset, o.y_subscript_y_offset),
        "superscript" => (o.y_superscript_x_size, o.y_superscript_y_size, o.y_superscript_x_offset, o.y_superscript_y_offset),
        "strikeout" => (o.y_strikeout_size, o.y_strikeout_position),
        "s_family_class" => o.s_family_class,
        "panose" => o.panose,
        "unicode_range" => (o.ul_unicode_range1, o.ul_unicode_range2, o.ul_unicode_range3, o.ul_unicode_range4),
        "ach_vend_id" => o.ach_vend_id,
        "fs_selection" => o.fs_selection.bits(),
        "char_index" => (o.us_first_char_index, o.us_last_char_index),
        "version0" => o.version0.as_ref().map(|v| (v.s_typo_ascender, v.s_typo_descender, v.s_typo_line_gap, v.us_win_ascent, v.us_win_descent)),
        "version1" => o.version1.as_ref().map(|v| (v.ul_code_page_range1, v.ul_code_page_range2)),
        "version2to4" => o.version2to4.as_ref().map(|v| (v.sx_height, v.s_cap_height, v.us_default_char, v.us_break_char, v.us_max_context)),
        "version5" => o.version5.as_ref().map(|v| (v.us_lower_optical_point_size, v.us_upper_optical_point_size)),
    ]
}

pub fn step_os2(cx: &mut Ctx, bytes: &[u8]) -> Step {
    mk_step(cx, "Os2", bytes.len(), || ReadScope::new(bytes).read_dep::<Os2>(bytes.len()), fp_os2, |b, o| Os2::write(b, &o))
}

pub fn rt_os2(cx: &mut Ctx, rng: &mut Rng) {
    let version = rng.below(6) as u16;
    let short_v0 = version == 0 && rng.bool();
    let o = Os2 {
        version,
        x_avg_char_width: edge_i16(rng),
        us_weight_class: edge_u16(rng),
        us_width_class: edge_u16(rng),
        fs_type: edge_u16(rng),
        y_subscript_x_size: edge_i16(rng),
        y_subscript_y_size: edge_i16(rng),
        y_subscript_x_offset: edge_i16(rng),
        y_subscript_y_offset: edge_i16(rng),
        y_superscript_x_size: edge_i16(rng),
        y_superscript_y_size: edge_i16(rng),
        y_superscript_x_offset: edge_i16(rng),
        y_superscript_y_offset: edge_i16(rng),
        y_strikeout_size: edge_i16(rng),
        y_strikeout_position: edge_i16(rng),
        s_family_class: edge_i16(rng),
        panose: {
            let b = rng.bytes(10);
            let mut p = [0u8; 10];
            p.copy_from_slice(&b);
            p
        },
        ul_unicode_range1: edge_u32(rng),
        ul_unicode_range2: edge_u32(rng),
        ul_unicode_range3: edge_u32(rng),
        ul_unicode_range4: edge_u32(rng),
        ach_vend_id: rng.u32(),
        fs_selection: FsSelection::from_bits_truncate(rng.u16()),
        us_first_char_index: edge_u16(rng),
        us_last_char_index: edge_u16(rng),
        version0: if short_v0 { None } else { Some(Version0 { s_typo_ascender: edge_i16(rng), s_typo_descender: edge_i16(rng), s_typo_line_gap: edge_i16(rng), us_win_ascent: edge_u16(rng), us_win_descent: edge_u16(rng) }) },
        version1: if version >= 1 { Some(Version1 { ul_code_page_range1: edge_u32(rng), ul_code_page_range2: edge_u32(rng) }) } else { None },
        version2to4: if version >= 2 { Some(Version2to4 { sx_height: edge_i16(rng), s_cap_height: edge_i16(rng), us_default_char: edge_u16(rng), us_break_char: edge_u16(rng), us_max_context: edge_u16(rng) }) } else { None },
        version5: if version >= 5 { Some(Version5 { us_lower_optical_point_size: edge_u16(rng), us_upper_optical_point_size: edge_u16(rng) }) } else { None },
    };
    let mut exp = fp_os2(&o);
    // expected version spelled out independently of os2_written_version
    let want = match version {
        0 => 0,
        1 => 1,
        2 | 3 | 4 => 4,
        _ => 5,
    };
    exp[0].1 = format!("{:?}", want as u16);
    let w = gwrite(cx, "Os2::write", 100, |b| Os2::write(b, &o));
    let wit = || fp_json(&fp_os2(&o));
    let name = format!("os2-v{}{}", version, if short_v0 { "-short" } else { "" });
    // the serialised version field itself
    if let Wr::Ok(b) = &w {
        let written = u16::from_be_bytes([b[0], b[1]]);
        if written != want {
            cx.violation("rt-differs", "os2:written-version", J::obj(vec![("version", J::U(version as u64)), ("written", J::U(written as u64)), ("expected", J::U(want as u64))]));
        }
        if version == 2 || version == 3 {
            cx.class("rt:os2:v2-3-written-as-4");
        }
    }
    finish_rt(cx, &name, &exp, w, &mut |cx, b| step_os2(cx, b), &wit);
}

// ---------------------------------------------------------------------------------------------
// post
// ---------------------------------------------------------------------------------------------

pub fn fp_post(p: &PostTable<'_>) -> Fp {
    let h = &p.header;
    let mut f = fp![
        "version" => h.version, "italic_angle" => h.italic_angle,
        "underline" => (h.underline_position, h.underline_thickness),
        "is_fixed_pitch" => h.is_fixed_pitch,
        "mem" => (h.min_mem_type_42, h.max_mem_type_42, h.min_mem_type_1, h.max_mem_type_1),
        "has_sub_table" => p.opt_sub_table.is_some(),
    ];
    if let Some(s) = &p.opt_sub_table {
        let idx = s.glyph_name_index.to_vec();
        f.push(("num_glyphs".to_string(), idx.len().to_string()));
        f.push(("glyph_name_index".to_string(), fv(&idx)));
        f.push(("names_count".to_string(), s.names.len().to_string()));
        let mut h = 0u64;
        for (i, n) in s.names.iter().enumerate() {
            if i < 16 {
                f.push((format!("name[{}]", i), fbytes(n.bytes)));
            } else {
                h = mix(h, hash_bytes(n.bytes));
            }
        }
        f.push(("name[rest]".to_string(), format!("{:016x}", h)));
    }
    f
}

pub fn step_post(cx: &mut Ctx, bytes: &[u8]) -> Step {
    mk_step(cx, "PostTable", bytes.len(), || ReadScope::new(bytes).read::<PostTable<'_>>(), fp_post, |b, p| PostTable::write(b, &p))
}

pub fn gen_post_header(rng: &mut Rng, version: i32) -> PostHeader {
    PostHeader {
        version,
        italic_angle: edge_u32(rng) as i32,
        underline_position: edge_i16(rng),
        underline_thickness: edge_i16(rng),
        is_fixed_pitch: edge_u32(rng),
        min_mem_type_42: edge_u32(rng),
        max_mem_type_42: edge_u32(rng),
        min_mem_type_1: edge_u32(rng),
        max_mem_type_1: edge_u32(rng),
    }
}

pub fn rt_post(cx: &mut Ctx, rng: &mut Rng) {
    let version = *rng.pick(&[0x0001_0000i32, 0x0002_0000, 0x0002_0000, 0x0002_5000, 0x0003_0000]);
    let header = gen_post_header(rng, version);
    let name = format!("post-{:x}", version >> 12);
    if version != 0x0002_0000 {
        let p = PostTable { header, opt_sub_table: None };
        let exp = fp_post(&p);
        let w = gwrite(cx, "PostTable::write", 32, |b| PostTable::write(b, &p));
        let wit = || fp_json(&exp);
        finish_rt(cx, &name, &exp, w, &mut |cx, b| step_post(cx, b), &wit);
        return;
    }
    // version 2: numGlyphs, glyphNameIndex[], Pascal strings for indices >= 258
    let n = match rng.below(20) {
        0 => 0,
        1 => 65535,
        _ => rng.small(300),
    };
    let k = if n == 0 { 0 } else { rng.small(60).min(n) };
    let mut idx: Vec<u16> = (0..n).map(|_| rng.below(258 + k) as u16).collect();
    if k > 0 {
        let at = rng.below(n);
        idx[at] = (258 + k - 1) as u16; // the highest name is referenced, so every name is needed
    }
    let strings: Vec<Vec<u8>> = (0..k)
        .map(|_| {
            let l = match rng.below(10) {
                0 => 0,
                1 => 255,
                _ => rng.small(40),
            };
            rng.bytes(l)
        })
        .collect();
    let raw: Vec<u8> = idx.iter().flat_map(|v| v.to_be_bytes()).collect();
    let arr = match ReadScope::new(&raw).ctxt().read_array::<U16Be>(n) {
        Ok(a) => a,
        Err(_) => {
            cx.inconclusive("post-gen");
            return;
        }
    };
    let p = PostTable { header, opt_sub_table: Some(PostSubTable { glyph_name_index: arr, names: strings.iter().map(|s| PascalString { bytes: s }).collect() }) };
    let exp = fp_post(&p);
    let w = gwrite(cx, "PostTable::write", raw.len() + 64 * k, |b| PostTable::write(b, &p));
    let wit = || fp_json(&exp);
    finish_rt(cx, &name, &exp, w, &mut |cx, b| step_post(cx, b), &wit);
}

// ---------------------------------------------------------------------------------------------
// overflow cases
// ---------------------------------------------------------------------------------------------

pub fn overflow_name(cx: &mut Ctx, rng: &mut Rng) {
    match rng.below(7) {
        0 | 1 => {
            // borrowed: record count around the point where the string offset (6 + 12 n [+ 2 + 4 m])
            // stops fitting in 16 bits, and beyond 65535 records
            let ntag = if rng.bool() { Some(rng.below(3)) } else { None };
            let nrec = *rng.pick(&[5460usize, 5461, 5462, 6000, 65535, 65536, 70000]);
            let ast = gen_name_ast(rng, nrec, ntag, 64);
            let exp = ast.fp();
            let w = ast.with(|t| t.map(|t| gwrite(cx, "NameTable::write", nrec * 12, |b| NameTable::write(b, t))));
            if let Some(w) = w {
                expect_refused_or_exact(cx, "name-records", &exp, w, &mut |cx, b| rd_of(step_name(cx, b)), &|| ast.json());
            }
        }
        2 => {
            // borrowed: storage beyond 64K (record offsets are 16-bit fields of the value itself)
            let sl = *rng.pick(&[65536usize, 65537, 131072, 1 << 20]);
            let ast = gen_name_ast(rng, 3, None, sl);
            let exp = ast.fp();
            let w = ast.with(|t| t.map(|t| gwrite(cx, "NameTable::write", ast.storage.len(), |b| NameTable::write(b, t))));
            if let Some(w) = w {
                expect_refused_or_exact(cx, "name-storage", &exp, w, &mut |cx, b| rd_of(step_name(cx, b)), &|| ast.json());
            }
        }
        3 | 4 => {
            // owned: string storage crossing 65535 bytes / one string longer than 65535
            let (nr, nt) = (2 + rng.below(4), rng.below(3));
            let mut t = gen_name_owned(rng, nr, nt, 100);
            let big = *rng.pick(&[65535usize, 65536, 65537, 70_000]);
            let at = rng.below(t.name_records.len());
            let mut s = vec![0x61u8; big];
            s[0] = rng.u8();
            t.name_records[at].string = Cow::Owned(s);
            if rng.bool() {
                // a second string after the big one: its offset exceeds 65535
                t.name_records.push(otables::NameRecord { platform_id: 3, encoding_id: 1, language_id: 0x409, name_id: 1, string: Cow::Owned(vec![1, 2, 3]) });
            }
            let exp = fp_name_owned(&t);
            let w = gwrite(cx, "owned::NameTable::write", big, |b| otables::NameTable::write(b, &t));
            expect_refused_or_exact(cx, "name-owned-strings", &exp, w, &mut |cx, b| rd_of(step_name_owned(cx, b)), &|| fp_json(&exp));
        }
        5 => {
            // owned: many small strings whose offsets pass 65535
            let n = 300 + rng.below(100);
            let t = otables::NameTable {
                name_records: (0..n).map(|i| otables::NameRecord { platform_id: 3, encoding_id: 1, language_id: 0x409, name_id: i as u16, string: Cow::Owned(vec![i as u8; 230]) }).collect(),
                langtag_records: if rng.bool() { vec![Cow::Owned(vec![0, 0x65, 0, 0x6e])] } else { vec![] },
            };
            let exp = fp_name_owned(&t);
            let w = gwrite(cx, "owned::NameTable::write", 100_000, |b| otables::NameTable::write(b, &t));
            expect_refused_or_exact(cx, "name-owned-offsets", &exp, w, &mut |cx, b| rd_of(step_name_owned(cx, b)), &|| fp_json(&exp));
        }
        _ => {
            // owned: more than 65535 records / language tags
            let n = *rng.pick(&[65536usize, 65537]);
            let tags = rng.chance(1, 3);
            let t = if tags {
                otables::NameTable { name_records: vec![], langtag_records: (0..n).map(|_| Cow::Owned(vec![])).collect() }
            } else {
                otables::NameTable { name_records: (0..n).map(|i| otables::NameRecord { platform_id: 0, encoding_id: 3, language_id: 0, name_id: i as u16, string: Cow::Owned(vec![]) }).collect(), langtag_records: vec![] }
            };
            let exp = fp_name_owned(&t);
            let w = gwrite(cx, "owned::NameTable::write", n * 12, |b| otables::NameTable::write(b, &t));
            expect_refused_or_exact(cx, "name-owned-count", &exp, w, &mut |cx, b| rd_of(step_name_owned(cx, b)), &|| J::obj(vec![("records_or_tags", J::U(n as u64)), ("tags", J::Bool(tags))]));
        }
    }
}

pub fn overflow_post(cx: &mut Ctx, rng: &mut Rng) {
    let header = gen_post_header(rng, 0x0002_0000);
    if rng.bool() {
        // Pascal string longer than 255
        let l = *rng.pick(&[255usize, 256, 257, 300, 65536]);
        let s = vec![0x62u8; l];
        let raw = [0u8, 0, 1, 2]; // glyph 0 -> .notdef, glyph 1 -> name 0
        let arr = match ReadScope::new(&raw).ctxt().read_array::<U16Be>(2) {
            Ok(a) => a,
            Err(_) => return,
        };
        let p = PostTable { header, opt_sub_table: Some(PostSubTable { glyph_name_index: arr, names: vec![PascalString { bytes: &s }] }) };
        let exp = fp_post(&p);
        let w = gwrite(cx, "PostTable::write", l, |b| PostTable::write(b, &p));
        expect_refused_or_exact(cx, "post-pascal-string", &exp, w, &mut |cx, b| rd_of(step_post(cx, b)), &|| J::obj(vec![("string_len", J::U(l as u64))]));
    } else {
        let n = *rng.pick(&[65535usize, 65536, 65537]);
        let raw = vec![0u8; n * 2];
        let arr = match ReadScope::new(&raw).ctxt().read_array::<U16Be>(n) {
            Ok(a) => a,
            Err(_) => return,
        };
        let p = PostTable { header, opt_sub_table: Some(PostSubTable { glyph_name_index: arr, names: vec![] }) };
        let exp = fp_post(&p);
        let w = gwrite(cx, "PostTable::write", n * 2, |b| PostTable::write(b, &p));
        expect_refused_or_exact(cx, "post-num-glyphs", &exp, w, &mut |cx, b| rd_of(step_post(cx, b)), &|| J::obj(vec![("num_glyphs", J::U(n as u64))]));
    }
}

#[allow(dead_code)]
fn _unused(_: &WriteBuffer, _: ParseError, _: WriteError) {}
