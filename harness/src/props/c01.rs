//! C01 — untrusted font data: a value or an error, never a crash / abort / hang / memory blow-up.
//!
//! Case = seed font x 1-4 structure-aware faults x the full entry-point script, every public call
//! under the panic / allocation / CPU-time monitors (stack overflow, allocation aborts and hangs
//! are caught by the supervisor through the case journal).

use super::entry::{run_script, Depth, Script};
use super::Prop;
use crate::gen::{faults, faults_container};
use crate::rt::*;

pub struct C01 {
    seeds: Vec<SeedFont>,
    witnesses: Vec<(String, Vec<u8>)>,
}

impl C01 {
    pub fn new(cx: &mut Ctx) -> C01 {
        // mode "tiny": only the smallest seeds (Miri / valgrind volumes)
        let max = if cx.mode == "tiny" { 3_000 } else if cx.quick() { 260_000 } else { 4_000_000 };
        let seeds = load_seed_fonts(max, true);
        let mut seeds = seeds;
        // Derived seeds: small CID-keyed CFF fonts (several Font DICTs, FDSelect, local subrs) cut out
        // of the one large CID fixture with allsorts' own subsetter, so that the quick tier reaches the
        // CID paths too. (Seeds need not be independent of allsorts; they only have to be well-formed.)
        if cx.mode != "tiny" {
            if let Ok(big) = std::fs::read("/repo/tests/fonts/noto/NotoSansJP-Regular.otf") {
                for (k, step) in [(0u16, 97u16), (1, 211), (2, 401)] {
                    let made = std::panic::catch_unwind(|| {
                        let scope = allsorts::binary::read::ReadScope::new(&big);
                        let fd = scope.read::<allsorts::font_data::FontData<'_>>().ok()?;
                        let p = fd.table_provider(0).ok()?;
                        let mut ids: Vec<u16> = vec![0];
                        ids.extend((1..70u16).map(|i| i * step + k));
                        allsorts::subset::subset(&p, &ids).ok()
                    });
                    if let Ok(Some(data)) = made {
                        seeds.push(SeedFont { name: format!("derived/NotoSansJP-cid-subset-{}.otf", k), data });
                    }
                }
            }
        }
        let mut witnesses = Vec::new();
        for p in list_files("/verif/findings/witness", &["bin"]) {
            if let Ok(d) = std::fs::read(&p) {
                witnesses.push((p.file_name().unwrap().to_string_lossy().to_string(), d));
            }
        }
        C01 { seeds, witnesses }
    }

    fn run(&self, cx: &mut Ctx, rng: &mut Rng, name: &str, data: &[u8], faults_desc: &[String]) {
        let mut s = Script { cx: Some(cx), out: Default::default(), len: data.len() };
        let mut r2 = rng.fork();
        run_script(&mut s, data, &mut r2, Depth::Full);
        let Script { out, .. } = s;
        cx.class_n("api-calls", out.calls);
        cx.class_n("api-ok", out.ok);
        cx.class_n("api-err", out.err);
        if out.loaded {
            cx.class("font-loaded");
        }
        if !faults_desc.is_empty() && out.ok > 0 && (out.loaded || out.deep_ok > 0) {
            cx.class("faulted-font-got-past-front-door");
            cx.nontrivial(hash_bytes(data));
        }
        if cx.want_sample() && !faults_desc.is_empty() {
            cx.sample(J::obj(vec![
                ("seed_font", J::s(name)),
                ("faults", J::A(faults_desc.iter().map(|f| J::s(f.clone())).collect())),
                ("calls", J::U(out.calls)),
                ("ok", J::U(out.ok)),
                ("err", J::U(out.err)),
                ("loaded", J::Bool(out.loaded)),
            ]));
        }
    }
}

impl C01 {
    fn image_case(&self, cx: &mut Ctx, rng: &mut Rng) {
        use crate::gen::bitmap_c01 as bm;
        use crate::sfnt;
        // host font: a small glyf seed, or a minimal generated font
        let small: Vec<&SeedFont> = self.seeds.iter().filter(|f| f.data.len() < 30_000 && f.data.starts_with(&[0, 1, 0, 0])).collect();
        let host = if !small.is_empty() && rng.chance(2, 3) {
            let f = *rng.pick(&small);
            sfnt::Font::parse(&f.data).map(|p| (f.name.clone(), p))
        } else {
            None
        };
        let (name, host) = match host {
            Some(h) => h,
            None => {
                let n = 2 + rng.below(40) as u16;
                let sub = crate::sfnt::cmap::write_format12(&[(0x41, 0x41, 1), (0x1F600, 0x1F600, 1)], 0);
                let cmap = crate::sfnt::cmap::write_cmap(&[crate::sfnt::cmap::Record { platform: 3, encoding: 10, subtable: 0 }], &[sub]);
                ("generated/minimal.ttf".to_string(), sfnt::tables::minimal_font(cmap, n, None))
            }
        };
        let n = host.gets("maxp").and_then(sfnt::tables::maxp_num_glyphs).unwrap_or(4);
        let mut desc: Vec<String> = Vec::new();
        let mut tables: Vec<(&str, Vec<u8>)> = Vec::new();
        let kind = rng.below(8);
        match kind {
            0..=4 => {
                let color = rng.chance(3, 5);
                let mut t = bm::gen_bitmap_tables(rng, n.min(60), color);
                for &(ifmt, imfmt) in &t.formats {
                    cx.class(&format!("img-gen:index-format-{}", ifmt));
                    cx.class(&format!("img-gen:image-format-{}", imfmt));
                }
                desc.push(format!("generated-{}-tables", if color { "CBLC/CBDT" } else { "EBLC/EBDT" }));
                for _ in 0..rng.below(4) {
                    let d = if rng.chance(3, 4) { bm::fault_field(rng, &mut t) } else { bm::fault_data(rng, &mut t) };
                    cx.class(&format!("fault:{}", d.split(' ').next().unwrap_or("")));
                    desc.push(d);
                }
                // a colour pair may also be offered under the monochrome tags and vice versa
                let as_color = if rng.chance(1, 8) { !color } else { color };
                let (lt, dt) = if as_color { ("CBLC", "CBDT") } else { ("EBLC", "EBDT") };
                tables.push((lt, t.loc));
                tables.push((dt, t.dat));
                cx.class(if as_color { "seed:generated-cblc-cbdt" } else { "seed:generated-eblc-ebdt" });
            }
            5 | 6 => {
                let (mut t, fields) = bm::gen_sbix(rng, n.min(60));
                desc.push("generated-sbix".into());
                for _ in 0..rng.below(3) {
                    let d = bm::fault_fields(rng, &mut t, &fields);
                    cx.class("fault:img.field");
                    desc.push(d);
                }
                tables.push(("sbix", t));
                cx.class("seed:generated-sbix");
            }
            _ => {
                let (mut t, fields) = bm::gen_svg(rng, n.min(60));
                desc.push("generated-SVG".into());
                for _ in 0..rng.below(3) {
                    let d = bm::fault_fields(rng, &mut t, &fields);
                    cx.class("fault:img.field");
                    desc.push(d);
                }
                tables.push(("SVG ", t));
                cx.class("seed:generated-svg");
            }
        }
        let data = bm::attach(&host, &tables);
        self.run(cx, rng, &name, &data, &desc);
    }
}

impl C01 {
    fn misc_case(&self, cx: &mut Ctx, rng: &mut Rng) {
        use crate::gen::bitmap_c01 as bm;
        use crate::gen::misc_c01 as mc;
        use crate::sfnt;
        let vf = super::c12::c12_gen::gen_vfont(rng, true);
        let built = super::c12::c12_gen::build_font(&vf, rng);
        let host = match sfnt::Font::parse(&built.bytes) {
            Some(h) => h,
            None => {
                cx.inconclusive("generated-font-unparsable");
                return;
            }
        };
        let n = host.gets("maxp").and_then(sfnt::tables::maxp_num_glyphs).unwrap_or(4);
        let axis_count = host.gets("fvar").and_then(|f| sfnt::be16(f, 8)).unwrap_or(1) as usize;
        let mut desc = vec!["generated-variable-font+kern+cvar".to_string()];
        let (mut kern, kfields) = mc::gen_kern(rng, n);
        let ncvt = rng.below(40) as u16;
        let (cvt, mut cvar, cfields) = mc::gen_cvt_cvar(rng, axis_count, ncvt);
        for _ in 0..rng.below(3) {
            let d = if rng.bool() { bm::fault_fields(rng, &mut kern, &kfields) } else { bm::fault_fields(rng, &mut cvar, &cfields) };
            cx.class("fault:img.field");
            desc.push(d);
        }
        cx.class("seed:generated-kern-cvar");
        let data = bm::attach(&host, &[("kern", kern), ("cvt ", cvt), ("cvar", cvar)]);
        self.run(cx, rng, "generated/variable+kern+cvar.ttf", &data, &desc);
    }
}

impl Prop for C01 {
    fn exhaustive(&mut self, cx: &mut Ctx, shard: u64, of: u64) {
        // committed witnesses of fixed defects and known findings, and the unfaulted seeds
        let mut rng = Rng::new(0xC01);
        for (i, (name, data)) in self.witnesses.iter().enumerate() {
            if i as u64 % of == shard {
                cx.case_seed = 0xFFFF_0000 + i as u64;
                cx.evals += 1;
                cx.class("witness-replayed");
                self.run(cx, &mut rng, name, data, &[format!("witness {}", name)]);
            }
        }
        for (i, f) in self.seeds.iter().enumerate() {
            let stride = if cx.mode == "tiny" { of * 8 } else { of };
            if i as u64 % stride == shard && (cx.tier == Tier::Thorough || f.data.len() < 40_000) {
                cx.case_seed = 0xFFFE_0000 + i as u64;
                cx.evals += 1;
                cx.class("clean-seed");
                self.run(cx, &mut rng, &f.name, &f.data, &[]);
            }
        }
    }

    fn case(&mut self, cx: &mut Ctx, rng: &mut Rng) {
        if self.seeds.is_empty() {
            cx.inconclusive("no-seed-fonts");
            return;
        }
        // bias towards small seeds (cheap) but keep the large ones in play
        let derived: Vec<usize> = self.seeds.iter().enumerate().filter(|(_, f)| f.name.starts_with("derived/")).map(|(i, _)| i).collect();
        let f = if !derived.is_empty() && rng.chance(1, 10) {
            // small CID-keyed CFF fonts: few such seeds, so they get their own share
            &self.seeds[*rng.pick(&derived)]
        } else if rng.chance(3, 4) {
            let k = rng.below(self.seeds.len());
            let k2 = rng.below(self.seeds.len());
            if self.seeds[k].data.len() < self.seeds[k2].data.len() { &self.seeds[k] } else { &self.seeds[k2] }
        } else {
            &self.seeds[rng.below(self.seeds.len())]
        };
        // Generated variable TrueType fonts (composites incl. composites of empty glyphs, empty glyphs,
        // numberOfHMetrics < numGlyphs, gvar in every packed encoding, optional avar/HVAR/MVAR) from the
        // C12 generator, unfaulted or with 1-2 faults: the fixtures' variable fonts have no composites.
        if rng.chance(1, 14) {
            let vf = super::c12::c12_gen::gen_vfont(rng, true);
            let built = super::c12::c12_gen::build_font(&vf, rng);
            let mut data = built.bytes;
            let mut desc = vec!["generated-variable-font".to_string()];
            cx.class("seed:generated-variable-font");
            for _ in 0..rng.below(3) {
                let a = faults::apply_fault(rng, &mut data, &[]);
                desc.push(a.desc);
            }
            self.run(cx, rng, "generated/variable.ttf", &data, &desc);
            return;
        }
        // Generated embedded-image tables (CBLC/CBDT, EBLC/EBDT, sbix, SVG) attached to a small
        // TrueType seed or to a minimal font, unfaulted or with 1-3 located field / data faults: the
        // corpus has no CBDT font and reaches EBLC only through a non-default image filter.
        if rng.chance(1, 7) {
            self.image_case(cx, rng);
            return;
        }
        // Generated kern (formats 0 / 2) and cvt / cvar tables on a generated variable font.
        if rng.chance(1, 16) {
            self.misc_case(cx, rng);
            return;
        }
        // F6: container faults behind the compression layer (WOFF2 transforms, WOFF directory/zlib)
        if rng.chance(1, 5) {
            let name = f.name.clone();
            if rng.chance(2, 3) {
                let tt = if rng.chance(1, 3) { Some(super::c11::gen_ttfont(rng, true)) } else { super::c11::read_ttfont(&f.data, &name) };
                if let Some(tt) = tt {
                    let (data, desc) = faults_container::woff2_case(rng, cx, &tt);
                    cx.class("fault:woff2-container");
                    for d in desc.iter().skip(1) {
                        // class = operator family only (no tags / numbers)
                        let w0 = d.split(|c: char| c == '+' || c == '[' || c == '=' || c == ' ' || c == ':' || c == '@').next().unwrap_or("");
                        let w0 = match w0 {
                            "w2.glyf" | "w2.hmtx" | "w2.loca" | "w2.dir" | "w2.hdr" | "w2" => w0.to_string(),
                            _ => "w2.other-table".to_string(),
                        };
                        let w1 = if w0 == "w2" { d.split(' ').filter(|w| w.chars().all(|c| c.is_ascii_alphabetic() || c == '_' || c == '-')).nth(0).unwrap_or("").to_string() } else { String::new() };
                        cx.class(&format!("fault:{}{}{}", w0, if w1.is_empty() { "" } else { " " }, w1));
                    }
                    self.run(cx, rng, &name, &data, &desc);
                    return;
                }
            } else if let Some((data, desc)) = faults_container::woff_case(rng, &f.data) {
                cx.class("fault:woff-container");
                self.run(cx, rng, &name, &data, &desc);
                return;
            }
        }
        let mut data = f.data.clone();
        let nfaults = 1 + rng.small(3);
        let donors: Vec<&[u8]> = (0..2).map(|_| self.seeds[rng.below(self.seeds.len())].data.as_slice()).collect();
        let mut desc = Vec::new();
        for _ in 0..nfaults {
            let a = faults::apply_fault(rng, &mut data, &donors);
            let op = a.desc.split(|c: char| c == '[' || c == ' ' || c == '@' || c == '+').next().unwrap_or("").to_string();
            cx.class(&format!("fault:{}", op));
            desc.push(a.desc);
        }
        self.run(cx, rng, &f.name.clone(), &data, &desc);
    }
}
