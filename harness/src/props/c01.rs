//! C01 — untrusted font data: a value or an error, never a crash / abort / hang / memory blow-up.
//!
//! Case = seed font x 1-4 structure-aware faults x the full entry-point script, every public call
//! under the panic / allocation / CPU-time monitors (stack overflow, allocation aborts and hangs
//! are caught by the supervisor through the case journal).

use super::entry::{run_script, Depth, Script};
use super::Prop;
use crate::gen::faults;
use crate::rt::*;

pub struct C01 {
    seeds: Vec<SeedFont>,
    witnesses: Vec<(String, Vec<u8>)>,
}

impl C01 {
    pub fn new(cx: &mut Ctx) -> C01 {
        let max = if cx.quick() { 260_000 } else { 4_000_000 };
        let seeds = load_seed_fonts(max, true);
        let mut witnesses = Vec::new();
        for p in list_files("/verif/findings/witness", &["bin"]) {
            if let Ok(d) = std::fs::read(&p) {
                witnesses.push((p.file_name().unwrap().to_string_lossy().to_string(), d));
            }
        }
        C01 { seeds, witnesses }
    }

    fn run(&self, cx: &mut Ctx, rng: &mut Rng, name: &str, data: &[u8], faults_desc: &[String]) {
        let mut s = Script { cx: Some(cx), out: Default::default(), len: data.len() };
        let mut r2 = rng.fork();
        run_script(&mut s, data, &mut r2, Depth::Full);
        let Script { out, .. } = s;
        cx.class_n("api-calls", out.calls);
        cx.class_n("api-ok", out.ok);
        cx.class_n("api-err", out.err);
        if out.loaded {
            cx.class("font-loaded");
        }
        if !faults_desc.is_empty() && out.ok > 0 && (out.loaded || out.deep_ok > 0) {
            cx.class("faulted-font-got-past-front-door");
            cx.nontrivial(hash_bytes(data));
        }
        if cx.want_sample() && !faults_desc.is_empty() {
            cx.sample(J::obj(vec![
                ("seed_font", J::s(name)),
                ("faults", J::A(faults_desc.iter().map(|f| J::s(f.clone())).collect())),
                ("calls", J::U(out.calls)),
                ("ok", J::U(out.ok)),
                ("err", J::U(out.err)),
                ("loaded", J::Bool(out.loaded)),
            ]));
        }
    }
}

impl Prop for C01 {
    fn exhaustive(&mut self, cx: &mut Ctx, shard: u64, of: u64) {
        // committed witnesses of fixed defects and known findings, and the unfaulted seeds
        let mut rng = Rng::new(0xC01);
        for (i, (name, data)) in self.witnesses.iter().enumerate() {
            if i as u64 % of == shard {
                cx.case_seed = 0xFFFF_0000 + i as u64;
                cx.evals += 1;
                cx.class("witness-replayed");
                self.run(cx, &mut rng, name, data, &[format!("witness {}", name)]);
            }
        }
        for (i, f) in self.seeds.iter().enumerate() {
            if i as u64 % of == shard && (cx.tier == Tier::Thorough || f.data.len() < 40_000) {
                cx.case_seed = 0xFFFE_0000 + i as u64;
                cx.evals += 1;
                cx.class("clean-seed");
                self.run(cx, &mut rng, &f.name, &f.data, &[]);
            }
        }
    }

    fn case(&mut self, cx: &mut Ctx, rng: &mut Rng) {
        if self.seeds.is_empty() {
            cx.inconclusive("no-seed-fonts");
            return;
        }
        // bias towards small seeds (cheap) but keep the large ones in play
        let f = if rng.chance(3, 4) {
            let k = rng.below(self.seeds.len());
            let k2 = rng.below(self.seeds.len());
            if self.seeds[k].data.len() < self.seeds[k2].data.len() { &self.seeds[k] } else { &self.seeds[k2] }
        } else {
            &self.seeds[rng.below(self.seeds.len())]
        };
        let mut data = f.data.clone();
        let nfaults = 1 + rng.small(3);
        let donors: Vec<&[u8]> = (0..2).map(|_| self.seeds[rng.below(self.seeds.len())].data.as_slice()).collect();
        let mut desc = Vec::new();
        for _ in 0..nfaults {
            let a = faults::apply_fault(rng, &mut data, &donors);
            let op = a.desc.split(|c: char| c == '[' || c == ' ' || c == '@' || c == '+').next().unwrap_or("").to_string();
            cx.class(&format!("fault:{}", op));
            desc.push(a.desc);
        }
        self.run(cx, rng, &f.name.clone(), &data, &desc);
    }
}
