//! C15 — reading is the inverse of writing for every table the library can write.
//!
//! Three oracles (see DESIGN §C15):
//!  1. value -> bytes -> value: random values within format limits, `T::write` into a `WriteBuffer`,
//!     `ReadScope::read::<T>`, comparison of harness-side fingerprints with the declared
//!     normalisations applied to the expected side only (rules `rt-*`).
//!  2. bytes -> value -> bytes -> value -> bytes: every writable table of every fixture font and of
//!     lightly faulted variants, and generator-made CFF / CFF2 / ItemVariationStore byte strings:
//!     second and third serialisations identical, re-parse equal to first parse (rules `stab-*`).
//!  3. overflow refusal: values whose counts / lengths / offsets exceed their field: `Err`, or `Ok`
//!     with an exact re-parse; anything else is `truncated-write`.
//!
//! Helper files: c15_tt.rs (primitives, head, hhea, maxp, hmtx, cvt, loca), c15_tn.rs (name, OS/2,
//! post), c15_tg.rs (glyf), c15_tc.rs (cmap), c15_cff.rs (DICT / operands / INDEX / charset /
//! encoding / FDSelect), c15_cffw.rs (whole CFF, CFF2, ItemVariationStore), c15_stab.rs (fixture
//! corpus and stability cases).

use super::Prop;
use crate::rt::*;
use allsorts::binary::write::WriteBuffer;
use allsorts::error::{ParseError, WriteError};

#[path = "c15_tt.rs"]
mod tt;
#[path = "c15_tn.rs"]
mod tn;
#[path = "c15_tg.rs"]
mod tg;
#[path = "c15_tc.rs"]
mod tc;
#[path = "c15_cff.rs"]
mod cffm;
#[path = "c15_cffw.rs"]
mod cffw;
#[path = "c15_stab.rs"]
mod stab;

// ---------------------------------------------------------------------------------------------
// Fingerprints: harness-side, field-wise description of a value
// ---------------------------------------------------------------------------------------------

pub type Fp = Vec<(String, String)>;

macro_rules! fp {
    ($($k:expr => $v:expr),* $(,)?) => {
        vec![$(($k.to_string(), format!("{:?}", $v))),*]
    };
}
pub(crate) use fp;

/// Debug rendering of a slice, hashed when long (keeps witnesses readable and comparison cheap).
pub fn fv<T: std::fmt::Debug>(v: &[T]) -> String {
    if v.len() <= 48 {
        format!("{:?}", v)
    } else {
        let s = format!("{:?}", v);
        format!("len={} hash={:016x} head={:?}", v.len(), hash_str(&s), &v[..8])
    }
}

pub fn fbytes(v: &[u8]) -> String {
    if v.len() <= 64 {
        let mut s = String::with_capacity(v.len() * 2);
        for b in v {
            s.push_str(&format!("{:02x}", b));
        }
        s
    } else {
        format!("len={} hash={:016x}", v.len(), hash_bytes(v))
    }
}

/// Name of the first field that differs.
pub fn fp_diff(a: &Fp, b: &Fp) -> Option<(String, String, String)> {
    for i in 0..a.len().max(b.len()) {
        match (a.get(i), b.get(i)) {
            (Some(x), Some(y)) => {
                if x != y {
                    let name = if x.0 == y.0 { x.0.clone() } else { format!("{}/{}", x.0, y.0) };
                    return Some((name, x.1.clone(), y.1.clone()));
                }
            }
            (Some(x), None) => return Some((format!("{}(missing)", x.0), x.1.clone(), String::new())),
            (None, Some(y)) => return Some((format!("{}(extra)", y.0), String::new(), y.1.clone())),
            (None, None) => {}
        }
    }
    None
}

/// strip indices so that signatures stay stable: `glyph[12].flags` -> `glyph[].flags`
pub fn sig_field(name: &str) -> String {
    let mut out = String::new();
    let mut in_br = false;
    for c in name.chars() {
        match c {
            '[' => {
                in_br = true;
                out.push('[');
            }
            ']' => {
                in_br = false;
                out.push(']');
            }
            _ if in_br => {}
            c => out.push(c),
        }
    }
    out
}

pub fn fp_json(f: &Fp) -> J {
    J::O(f
        .iter()
        .take(40)
        .map(|(k, v)| {
            let mut v = v.clone();
            if v.len() > 300 {
                v.truncate(300);
                v.push_str("...");
            }
            (k.clone(), J::S(v))
        })
        .collect())
}

pub fn trunc_hex(b: &[u8]) -> J {
    if b.len() <= 600 {
        J::hex(b)
    } else {
        J::obj(vec![
            ("len", J::U(b.len() as u64)),
            ("head", J::hex(&b[..300])),
            ("tail", J::hex(&b[b.len() - 100..])),
        ])
    }
}

// ---------------------------------------------------------------------------------------------
// Guarded write / read
// ---------------------------------------------------------------------------------------------

pub enum Wr {
    Panic,
    Err(WriteError),
    Ok(Vec<u8>),
}

pub fn werr(e: &WriteError) -> &'static str {
    match e {
        WriteError::BadValue => "BadValue",
        WriteError::NotImplemented => "NotImplemented",
        WriteError::PlaceholderMismatch => "PlaceholderMismatch",
    }
}

pub fn perr(e: &ParseError) -> String {
    let s = format!("{:?}", e);
    // MissingTable(tag) etc: keep the variant only
    s.split('(').next().unwrap_or("").to_string()
}

/// Run a writer under the monitors.
pub fn gwrite(
    cx: &mut Ctx,
    what: &str,
    approx_len: usize,
    f: impl FnOnce(&mut WriteBuffer) -> Result<(), WriteError>,
) -> Wr {
    let r = cx.guard(what, approx_len, || {
        let mut b = WriteBuffer::new();
        f(&mut b).map(|()| b.into_inner())
    });
    match r {
        None => Wr::Panic,
        Some(Err(e)) => Wr::Err(e),
        Some(Ok(b)) => Wr::Ok(b),
    }
}

/// One parse + fingerprint + serialise step of a byte string (used by oracle 2 and as the reading
/// half of oracle 1).
pub enum Step {
    /// panic inside allsorts (already recorded by the guard)
    Panic,
    ParseErr(String),
    Parsed { fp: Fp, out: Wr },
}

/// Result of the reading half only.
pub enum Rd {
    Panic,
    Err(String),
    Ok(Fp),
}

// ---------------------------------------------------------------------------------------------
// Verdict helpers
// ---------------------------------------------------------------------------------------------

/// Oracle 1, writing half: the value is within limits, so the writer must produce bytes.
pub fn expect_written(cx: &mut Ctx, name: &str, w: Wr, witness: &dyn Fn() -> J) -> Option<Vec<u8>> {
    match w {
        Wr::Panic => {
            cx.class(&format!("rt:{}:writer-panic", name));
            None
        }
        Wr::Err(e) => {
            cx.violation(
                "rt-write-refused",
                &format!("{}:{}", name, werr(&e)),
                J::obj(vec![("structure", J::s(name)), ("error", J::s(werr(&e))), ("value", witness())]),
            );
            None
        }
        Wr::Ok(b) => Some(b),
    }
}

/// Oracle 1, reading half + comparison.
pub fn expect_same(cx: &mut Ctx, name: &str, expected: &Fp, bytes: &[u8], rd: Rd, witness: &dyn Fn() -> J) -> bool {
    match rd {
        Rd::Panic => {
            cx.class(&format!("rt:{}:reader-panic", name));
            false
        }
        Rd::Err(e) => {
            cx.violation(
                "rt-reparse-error",
                &format!("{}:{}", name, e),
                J::obj(vec![
                    ("structure", J::s(name)),
                    ("error", J::s(e)),
                    ("written", trunc_hex(bytes)),
                    ("value", witness()),
                ]),
            );
            false
        }
        Rd::Ok(got) => {
            if let Some((field, exp, obs)) = fp_diff(expected, &got) {
                cx.violation(
                    "rt-differs",
                    &format!("{}:{}", name, sig_field(&field)),
                    J::obj(vec![
                        ("structure", J::s(name)),
                        ("field", J::s(field)),
                        ("expected", J::s(exp)),
                        ("observed", J::s(obs)),
                        ("written", trunc_hex(bytes)),
                        ("value", witness()),
                    ]),
                );
                false
            } else {
                cx.class(&format!("rt:{}", name));
                cx.nontrivial(mix(hash_bytes(bytes), hash_str(name)));
                true
            }
        }
    }
}

/// Oracle 3: `Err`, or `Ok` whose re-parse equals the value.
pub fn expect_refused_or_exact(
    cx: &mut Ctx,
    name: &str,
    expected: &Fp,
    w: Wr,
    reread: &mut dyn FnMut(&mut Ctx, &[u8]) -> Rd,
    witness: &dyn Fn() -> J,
) {
    match w {
        Wr::Panic => cx.class(&format!("overflow:{}:panic", name)),
        Wr::Err(_) => cx.class(&format!("overflow:{}:err", name)),
        Wr::Ok(bytes) => match reread(cx, &bytes) {
            Rd::Panic => cx.class(&format!("overflow:{}:reader-panic", name)),
            Rd::Err(e) => cx.violation(
                "truncated-write",
                &format!("{}:reparse-{}", name, e),
                J::obj(vec![
                    ("structure", J::s(name)),
                    ("what", J::s("writer returned Ok for an out-of-range value; the bytes do not parse")),
                    ("error", J::s(e)),
                    ("written_len", J::U(bytes.len() as u64)),
                    ("written_head", J::hex(&bytes[..bytes.len().min(64)])),
                    ("value", witness()),
                ]),
            ),
            Rd::Ok(got) => {
                if let Some((field, exp, obs)) = fp_diff(expected, &got) {
                    cx.violation(
                        "truncated-write",
                        &format!("{}:{}", name, sig_field(&field)),
                        J::obj(vec![
                            ("structure", J::s(name)),
                            ("what", J::s("writer returned Ok for an out-of-range value; re-parse differs")),
                            ("field", J::s(field)),
                            ("expected", J::s(exp)),
                            ("observed", J::s(obs)),
                            ("written_len", J::U(bytes.len() as u64)),
                            ("written_head", J::hex(&bytes[..bytes.len().min(64)])),
                            ("value", witness()),
                        ]),
                    );
                } else {
                    cx.class(&format!("overflow:{}:ok-exact", name));
                    cx.nontrivial(mix(hash_bytes(&bytes), hash_str(name)));
                }
            }
        },
    }
}

/// Oracle 2 driver. `pristine`: the input is an unmodified fixture table (or generator output that is
/// well-formed by construction), so a writer refusal is itself reportable.
pub fn stability(
    cx: &mut Ctx,
    tag: &str,
    pristine: bool,
    bytes: &[u8],
    step: &mut dyn FnMut(&mut Ctx, &[u8]) -> Step,
    witness: &dyn Fn() -> J,
) -> Option<Fp> {
    let (fp0, out0) = match step(cx, bytes) {
        Step::Panic => {
            cx.class(&format!("stable:{}:panic", tag));
            return None;
        }
        Step::ParseErr(_) => {
            cx.class(&format!("stable:{}:unparsable", tag));
            return None;
        }
        Step::Parsed { fp, out } => (fp, out),
    };
    let b1 = match out0 {
        Wr::Panic => {
            cx.class(&format!("stable:{}:writer-panic", tag));
            return Some(fp0);
        }
        Wr::Err(e) => {
            if pristine && !matches!(e, WriteError::NotImplemented) {
                cx.violation(
                    "stab-write-refused",
                    &format!("{}:{}", tag, werr(&e)),
                    J::obj(vec![
                        ("table", J::s(tag)),
                        ("error", J::s(werr(&e))),
                        ("input", trunc_hex(bytes)),
                        ("source", witness()),
                    ]),
                );
            } else {
                cx.class(&format!("stable:{}:write-refused-{}", tag, werr(&e)));
            }
            return Some(fp0);
        }
        Wr::Ok(b) => b,
    };
    let (fp1, out1) = match step(cx, &b1) {
        Step::Panic => {
            cx.class(&format!("stable:{}:panic", tag));
            return Some(fp0);
        }
        Step::ParseErr(e) => {
            cx.violation(
                "stab-reparse-error",
                &format!("{}:{}", tag, e),
                J::obj(vec![
                    ("table", J::s(tag)),
                    ("error", J::s(e)),
                    ("pristine", J::Bool(pristine)),
                    ("input", trunc_hex(bytes)),
                    ("written", trunc_hex(&b1)),
                    ("source", witness()),
                ]),
            );
            return Some(fp0);
        }
        Step::Parsed { fp, out } => (fp, out),
    };
    if let Some((field, a, b)) = fp_diff(&fp0, &fp1) {
        cx.violation(
            "stab-value-differs",
            &format!("{}:{}", tag, sig_field(&field)),
            J::obj(vec![
                ("table", J::s(tag)),
                ("field", J::s(field)),
                ("first_parse", J::s(a)),
                ("re_parse", J::s(b)),
                ("pristine", J::Bool(pristine)),
                ("input", trunc_hex(bytes)),
                ("written", trunc_hex(&b1)),
                ("source", witness()),
            ]),
        );
        return Some(fp0);
    }
    match out1 {
        Wr::Panic => cx.class(&format!("stable:{}:writer-panic", tag)),
        Wr::Err(e) => cx.violation(
            "stab-rewrite-refused",
            &format!("{}:{}", tag, werr(&e)),
            J::obj(vec![
                ("table", J::s(tag)),
                ("error", J::s(werr(&e))),
                ("written", trunc_hex(&b1)),
                ("source", witness()),
            ]),
        ),
        Wr::Ok(b2) => {
            if b2 != b1 {
                let at = b1.iter().zip(b2.iter()).position(|(x, y)| x != y).unwrap_or(b1.len().min(b2.len()));
                cx.violation(
                    "stab-bytes-differ",
                    tag,
                    J::obj(vec![
                        ("table", J::s(tag)),
                        ("first_difference_at", J::U(at as u64)),
                        ("len1", J::U(b1.len() as u64)),
                        ("len2", J::U(b2.len() as u64)),
                        ("b1", trunc_hex(&b1)),
                        ("b2", trunc_hex(&b2)),
                        ("source", witness()),
                    ]),
                );
            } else {
                cx.class(&format!("stable:{}", tag));
                cx.nontrivial(mix(hash_bytes(&b1), hash_str(tag)));
            }
        }
    }
    Some(fp0)
}

// ---------------------------------------------------------------------------------------------
// Value generators shared by the sub-modules
// ---------------------------------------------------------------------------------------------

pub fn edge_u16(rng: &mut Rng) -> u16 {
    match rng.below(8) {
        0 => 0,
        1 => 1,
        2 => 0xFF,
        3 => 0x100,
        4 => 0x7FFF,
        5 => 0x8000,
        6 => 0xFFFF,
        _ => rng.u16(),
    }
}

pub fn edge_i16(rng: &mut Rng) -> i16 {
    edge_u16(rng) as i16
}

pub fn edge_u32(rng: &mut Rng) -> u32 {
    match rng.below(10) {
        0 => 0,
        1 => 0xFF,
        2 => 0x100,
        3 => 0xFFFF,
        4 => 0x1_0000,
        5 => 0xFF_FFFF,
        6 => 0x100_0000,
        7 => 0x7FFF_FFFF,
        8 => 0xFFFF_FFFF,
        _ => rng.u32(),
    }
}

/// sizes near the 8/16-bit boundaries, mostly small
pub fn edge_len(rng: &mut Rng, max: usize) -> usize {
    let v = match rng.below(12) {
        0 => 0,
        1 => 1,
        2 => 254,
        3 => 255,
        4 => 256,
        5 => 257,
        _ => rng.small(max.min(300)),
    };
    v.min(max)
}

fn value_case_tt(cx: &mut Ctx, rng: &mut Rng) {
    match rng.below(24) {
        0 => tt::rt_small_records(cx, rng),
        1 => tt::rt_head(cx, rng),
        2 => tt::rt_hhea(cx, rng),
        3 => tt::rt_maxp(cx, rng),
        4 | 5 => tt::rt_hmtx(cx, rng),
        6 => tt::rt_cvt(cx, rng),
        7 | 8 => tt::rt_loca(cx, rng),
        9 | 10 => tn::rt_name(cx, rng),
        11 | 12 => tn::rt_name_owned(cx, rng),
        13 | 14 => tn::rt_os2(cx, rng),
        15 => tn::rt_post(cx, rng),
        16 | 17 | 18 => tg::rt_glyph(cx, rng),
        19 => tg::rt_glyf_table(cx, rng),
        20 | 21 | 22 => tc::rt_cmap_sub(cx, rng),
        _ => tc::rt_cmap_owned(cx, rng),
    }
}

fn value_case_cff(cx: &mut Ctx, rng: &mut Rng) {
    match rng.below(20) {
        0..=3 => cffm::rt_dict(cx, rng),
        4 | 5 => cffm::rt_operands(cx, rng),
        6 | 7 | 8 => cffm::rt_index(cx, rng),
        9 => cffm::rt_header(cx, rng),
        10 | 11 => cffm::rt_charset(cx, rng),
        12 => cffm::rt_encoding(cx, rng),
        13 => cffm::rt_fdselect(cx, rng),
        14 | 15 | 16 => cffw::rt_cff(cx, rng),
        17 | 18 => cffw::rt_cff2(cx, rng),
        _ => cffw::rt_ivs(cx, rng),
    }
}

fn overflow_case(cx: &mut Ctx, rng: &mut Rng) {
    match rng.below(20) {
        0..=3 => tn::overflow_name(cx, rng),
        4 => tn::overflow_post(cx, rng),
        5..=7 => tg::overflow_glyph(cx, rng),
        8 => {
            if rng.bool() {
                tg::overflow_glyph(cx, rng)
            } else {
                tg::edge_repeat_overshoot(cx, rng)
            }
        }
        9 | 10 => tg::overflow_loca(cx, rng),
        11..=14 => tc::overflow_cmap(cx, rng),
        15 => {
            if rng.chance(1, 4) {
                tc::overflow_cmap_table(cx, rng)
            } else {
                tc::edge_cmap4_zero_segments(cx, rng)
            }
        }
        16..=18 => cffm::overflow_cff_parts(cx, rng),
        _ => cffw::overflow_ivs(cx, rng),
    }
}

// ---------------------------------------------------------------------------------------------

pub struct C15 {
    corpus: Option<stab::Corpus>,
}

impl C15 {
    pub fn new(_cx: &mut Ctx) -> C15 {
        C15 { corpus: None }
    }

    fn corpus(&mut self, cx: &Ctx) -> &stab::Corpus {
        if self.corpus.is_none() {
            self.corpus = Some(stab::Corpus::load(cx.quick()));
        }
        self.corpus.as_ref().unwrap()
    }
}

impl Prop for C15 {
    fn exhaustive(&mut self, cx: &mut Ctx, shard: u64, of: u64) {
        // finite sub-spaces: DICT integer operands around every encoding boundary, all operators,
        // U24 boundaries, and every unfaulted fixture table once.
        let mut rng = Rng::new(0xC15);
        if shard == 0 {
            cx.case_seed = 0xFFFF_1500;
            cx.evals += 1;
            cffm::exhaustive_operands(cx);
            tt::exhaustive_prims(cx);
        }
        let n = self.corpus(cx).fonts.len();
        for i in 0..n {
            if i as u64 % of != shard {
                continue;
            }
            let big = self.corpus.as_ref().map_or(0, |c| c.fonts[i].size) > 120_000;
            if big && cx.quick() {
                continue;
            }
            cx.case_seed = 0xFFFE_1500 + i as u64;
            cx.evals += 1;
            let corpus = self.corpus.as_ref().unwrap();
            stab::all_tables(cx, &mut rng, corpus, i);
        }
    }

    fn case(&mut self, cx: &mut Ctx, rng: &mut Rng) {
        let mode = cx.mode.clone();
        let pick = match mode.as_str() {
            "value" => rng.below(70),
            "stable" => 70 + rng.below(20),
            "overflow" => 90 + rng.below(10),
            _ => rng.below(100),
        };
        match pick {
            0..=34 => value_case_tt(cx, rng),
            35..=69 => value_case_cff(cx, rng),
            70..=89 => {
                self.corpus(cx);
                let corpus = self.corpus.as_ref().unwrap();
                stab::case(cx, rng, corpus);
            }
            _ => {
                overflow_case(cx, rng)
            }
        }
    }
}
