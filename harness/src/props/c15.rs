//! C15 — (stub, under construction)

use super::Prop;
use crate::rt::*;

pub struct C15 {}

impl C15 {
    pub fn new(_cx: &mut Ctx) -> C15 {
        C15 {}
    }
}

impl Prop for C15 {
    fn case(&mut self, cx: &mut Ctx, _rng: &mut Rng) {
        cx.inconclusive("not-implemented");
    }
}
