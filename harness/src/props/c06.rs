//! C06 — character-to-glyph mapping conforms to the cmap encodings.
//!
//! Generated cmap tables (abstract code->glyph map + random layout choices per format) are written
//! by the independent writer, wrapped in a minimal sfnt, and allsorts' answers are compared with
//! the abstract map. Real fonts are compared with the independent cmap reader.

#[path = "c06_tables.rs"]
mod c06_tables;

use super::Prop;
use crate::rt::*;
use crate::sfnt::cmap::{self as icmap, EncKind, Layout2, Layout4, Map, Record};
use crate::sfnt::tables::minimal_font;
use allsorts::binary::read::ReadScope;
use allsorts::font::{Font, MatchingPresentation};
use allsorts::font_data::FontData;
use allsorts::tables::cmap::{Cmap, CmapSubtable};
use allsorts::tables::FontTableProvider;
use allsorts::tag;

pub struct C06 {
    seeds: Vec<SeedFont>,
}

impl C06 {
    pub fn new(cx: &mut Ctx) -> C06 {
        let max = if cx.quick() { 700_000 } else { 4_000_000 };
        C06 { seeds: load_seed_fonts(max, false) }
    }
}

fn gen_map(rng: &mut Rng, max_code: u32, max_gid: u16, dense: bool) -> Map {
    let mut m = Map::new();
    let n = rng.below(if dense { 300 } else { 80 });
    let mut c = match rng.below(4) {
        0 => 0,
        1 => rng.below(0x100) as u32,
        2 => rng.below(max_code as usize + 1) as u32,
        _ => max_code.saturating_sub(rng.below(400) as u32),
    };
    let mut g = 1 + rng.below(max_gid as usize) as u16;
    for _ in 0..n {
        if c > max_code {
            break;
        }
        m.insert(c, g);
        let step = match rng.below(6) {
            0..=2 => 1,
            3 => 2 + rng.below(4) as u32,
            4 => 1 + rng.small(2000) as u32,
            _ => 1,
        };
        c = c.saturating_add(step);
        g = match rng.below(5) {
            0..=2 => g.wrapping_add(1),
            3 => 1 + rng.below(max_gid as usize) as u16,
            _ => g,
        };
        if g == 0 || g > max_gid {
            g = 1 + rng.below(max_gid as usize) as u16;
        }
    }
    if max_code >= 0xFFFF && rng.chance(1, 4) {
        m.insert(0xFFFF, 1 + rng.below(max_gid as usize) as u16);
    }
    if max_code >= 0xFFFF && rng.chance(1, 4) {
        m.insert(0xFFFE, 1 + rng.below(max_gid as usize) as u16);
    }
    if rng.chance(1, 3) {
        m.insert(0x25CC.min(max_code), 1 + rng.below(max_gid as usize) as u16);
    }
    m
}

/// A generated subtable: bytes + expected map + the code space it can represent.
struct GenSub {
    format: u16,
    bytes: Vec<u8>,
    expected: Map, // only non-zero glyphs are "mapped"
    max_code: u32,
    desc: String,
    /// format 2 only: codes that are valid characters of the encoding
    valid2: Option<Layout2>,
}

/// Characters of scripts that Big5 (incl. the WHATWG / HKSCS extensions) does not encode.
const NO_BIG5_CODE: &[u32] = &[0x092E, 0x0E01, 0x0627, 0x05D0, 0x0B95, 0x1000, 0x1780, 0xAC00, 0x1F600, 0x10330, 0xE0100];

fn gen_subtable(rng: &mut Rng, format: u16, max_gid: u16) -> GenSub {
    match format {
        0 => {
            let m = gen_map(rng, 255, max_gid.min(255), true);
            GenSub { format, bytes: icmap::write_format0(&m, 0), expected: m, max_code: 255, desc: "fmt0".into(), valid2: None }
        }
        2 => {
            let mut l = Layout2::default();
            for _ in 0..rng.below(60) {
                l.single.insert(rng.below(256) as u8, 1 + rng.below(max_gid as usize) as u16);
            }
            for _ in 0..rng.below(6) {
                let lead = 0x81 + rng.below(0x7E) as u8;
                let first = rng.below(200) as u8;
                let n = 1 + rng.below((255 - first as usize).min(40));
                let gl: Vec<u16> = (0..n).map(|_| if rng.chance(1, 8) { 0 } else { 1 + rng.below(max_gid as usize) as u16 }).collect();
                l.double.insert(lead, (first, gl));
                if rng.bool() {
                    // idDelta that no glyph of the sub-array equals
                    let d = max_gid.wrapping_add(1 + rng.below(1000) as u16);
                    l.deltas.insert(lead, d);
                }
            }
            if rng.chance(1, 3) {
                l.deltas.insert(0, max_gid.wrapping_add(1 + rng.below(1000) as u16));
            }
            l.trim0 = rng.bool();
            let exp: Map = l.expected().into_iter().filter(|(_, g)| *g != 0).collect();
            GenSub { format, bytes: l.write(0), expected: exp, max_code: 0xFFFF, desc: format!("fmt2 leads={}", l.double.len()), valid2: Some(l) }
        }
        4 => {
            let dense = rng.bool();
            let m = gen_map(rng, 0xFFFF, max_gid, dense);
            let l = Layout4::choose(&m, rng);
            let narr = l.segs.iter().filter(|s| matches!(s.kind, icmap::Seg4Kind::Array { .. })).count();
            let desc = format!("fmt4 segs={} array-segs={} arrays={}", l.segs.len(), narr, l.arrays.len());
            let exp: Map = m.into_iter().filter(|(_, g)| *g != 0).collect();
            GenSub { format, bytes: l.write(0), expected: exp, max_code: 0xFFFF, desc, valid2: None }
        }
        6 => {
            let m = gen_map(rng, 0xFFFF, max_gid, true);
            // keep the dense range small
            let first = m.keys().next().copied().unwrap_or(0);
            let m: Map = m.into_iter().filter(|(c, _)| *c - first < 3000).collect();
            GenSub { format, bytes: icmap::write_format6(&m, 0, rng), expected: m, max_code: 0xFFFF, desc: "fmt6".into(), valid2: None }
        }
        10 => {
            let m = gen_map(rng, 0x10FFFF, max_gid, true);
            let first = m.keys().next().copied().unwrap_or(0);
            let m: Map = m.into_iter().filter(|(c, _)| *c - first < 3000).collect();
            GenSub { format, bytes: icmap::write_format10(&m, 0), expected: m, max_code: 0x10FFFF, desc: "fmt10".into(), valid2: None }
        }
        _ => {
            let dense = rng.bool();
            let mut m = gen_map(rng, 0x10FFFF, max_gid, dense);
            if rng.bool() {
                for (c, g) in gen_map(rng, 0xFFFF, max_gid, false) {
                    m.insert(c, g);
                }
            }
            let groups = icmap::groups12(&m, rng);
            let desc = format!("fmt12 groups={}", groups.len());
            GenSub { format: 12, bytes: icmap::write_format12(&groups, 0), expected: m, max_code: 0x10FFFF, desc, valid2: None }
        }
    }
}

fn probes(rng: &mut Rng, exp: &Map, max_code: u32, n_random: usize) -> Vec<u32> {
    let mut v: Vec<u32> = Vec::new();
    for &c in exp.keys() {
        v.push(c);
        v.push(c.wrapping_sub(1));
        v.push(c + 1);
    }
    v.extend_from_slice(&[0, 1, 0x20, 0xFF, 0x100, 0xFFFE, 0xFFFF, 0x10000, 0x10FFFF, 0x25CC, max_code, max_code.wrapping_add(1)]);
    for _ in 0..n_random {
        v.push(match rng.below(3) {
            0 => rng.below(0x10000) as u32,
            1 => rng.below(0x110000) as u32,
            _ => rng.u32(),
        });
    }
    v.sort();
    v.dedup();
    v
}

fn valid_code_fmt2(l: &Layout2, c: u32) -> bool {
    if c < 0x100 {
        // a one-byte code is a character unless the byte is a lead byte; a lone lead byte is not a
        // character of the encoding and therefore unmapped (glyph 0; FreeType agrees) - judged too
        let _ = l;
        true
    } else if c <= 0xFFFF {
        l.double.contains_key(&((c >> 8) as u8))
    } else {
        true
    }
}

impl C06 {
    /// Direct subtable API vs. expected map.
    fn check_subtable(&self, cx: &mut Ctx, rng: &mut Rng, g: &GenSub) {
        let sub = match ReadScope::new(&g.bytes).read::<CmapSubtable<'_>>() {
            Ok(s) => s,
            Err(e) => {
                cx.violation("subtable-rejected", &format!("fmt{}-rejected", g.format), J::obj(vec![("error", J::s(format!("{:?}", e))), ("desc", J::s(g.desc.clone())), ("bytes", J::hex(&g.bytes[..g.bytes.len().min(600)]))]));
                return;
            }
        };
        let owned = sub.to_owned();
        let nrand = if cx.quick() { 200 } else { 2000 };
        let mut probe_list = probes(rng, &g.expected, g.max_code, nrand);
        if let Some(l) = &g.valid2 {
            // lone lead bytes (looked up as one-byte codes) must be unmapped
            probe_list.extend(l.double.keys().map(|&b| b as u32));
            if !l.double.is_empty() {
                cx.class("fmt2:lone-lead-byte-probed");
            }
        }
        for c in probe_list {
            if let Some(l) = &g.valid2 {
                if !valid_code_fmt2(l, c) {
                    continue;
                }
            }
            let exp = g.expected.get(&c).copied().unwrap_or(0);
            let got = sub.map_glyph(c);
            let representable = c <= g.max_code || g.format == 0 || g.format == 6;
            let got_gid = match got {
                Ok(Some(x)) => x,
                Ok(None) => 0,
                Err(_) if !representable || c > 0xFFFF && g.max_code <= 0xFFFF => 0,
                Err(e) => {
                    cx.violation("map-glyph-error", &format!("fmt{}-error", g.format), J::obj(vec![("code", J::U(c as u64)), ("error", J::s(format!("{:?}", e))), ("desc", J::s(g.desc.clone())), ("bytes", J::hex(&g.bytes[..g.bytes.len().min(600)]))]));
                    return;
                }
            };
            if got_gid != exp {
                let sig = self.classify(g, c, exp, got_gid);
                cx.violation(
                    "map-glyph",
                    &sig,
                    J::obj(vec![
                        ("code", J::U(c as u64)),
                        ("expected", J::U(exp as u64)),
                        ("observed", J::U(got_gid as u64)),
                        ("desc", J::s(g.desc.clone())),
                        ("subtable", J::hex(&g.bytes[..g.bytes.len().min(800)])),
                    ]),
                );
                return;
            }
            if let Some(o) = &owned {
                let og = match o.map_glyph(c) {
                    Ok(Some(x)) => x,
                    Ok(None) => 0,
                    Err(_) => 0,
                };
                if og != exp {
                    cx.violation("owned-map-glyph", &format!("owned-{}", self.classify(g, c, exp, og)), J::obj(vec![("code", J::U(c as u64)), ("expected", J::U(exp as u64)), ("observed", J::U(og as u64)), ("desc", J::s(g.desc.clone()))]));
                    return;
                }
            }
        }
        cx.class(&format!("subtable:fmt{}", g.format));
        // enumeration == set of single lookups
        let mut enumerated: Vec<(u32, u16)> = Vec::new();
        match sub.mappings_fn(|c, gid| enumerated.push((c, gid))) {
            Ok(()) => {
                let mut nonzero: Vec<(u32, u16)> = enumerated.iter().copied().filter(|(_, g)| *g != 0).collect();
                nonzero.sort();
                nonzero.dedup();
                let exp: Vec<(u32, u16)> = g.expected.iter().map(|(c, g)| (*c, *g)).filter(|(_, g)| *g != 0).collect();
                if nonzero != exp {
                    let missing: Vec<_> = exp.iter().filter(|p| !nonzero.contains(p)).take(4).collect();
                    let extra: Vec<_> = nonzero.iter().filter(|p| !exp.contains(p)).take(4).collect();
                    cx.violation(
                        "mappings-fn",
                        &format!("fmt{}-enumeration", g.format),
                        J::obj(vec![("missing", J::s(format!("{:?}", missing))), ("extra", J::s(format!("{:?}", extra))), ("desc", J::s(g.desc.clone())), ("subtable", J::hex(&g.bytes[..g.bytes.len().min(800)]))]),
                    );
                }
                // every enumerated pair agrees with the single lookup
                for &(c, gid) in enumerated.iter().take(5000) {
                    let single = sub.map_glyph(c).ok().flatten().unwrap_or(0);
                    if single != gid {
                        cx.violation("mappings-fn", &format!("fmt{}-enumeration-vs-lookup", g.format), J::s(format!("code {:#x}: enumerated {} lookup {} ({})", c, gid, single, g.desc)));
                        break;
                    }
                }
                cx.class("enumeration-checked");
            }
            Err(e) => cx.violation("mappings-fn", &format!("fmt{}-enumeration-error", g.format), J::s(format!("{:?} {}", e, g.desc))),
        }
        if let Ok(m) = sub.mappings() {
            // keeps the first code per glyph
            for (gid, code) in m.iter().take(3000) {
                if *gid != 0 && g.expected.get(code) != Some(gid) {
                    cx.violation("mappings", &format!("fmt{}-mappings", g.format), J::s(format!("mappings() has glyph {} <- code {:#x} which is not in the table ({})", gid, code, g.desc)));
                    break;
                }
            }
        }
    }

    fn classify(&self, g: &GenSub, _c: u32, exp: u16, got: u16) -> String {
        if g.format == 4 && exp == 0 && got != 0 {
            return "fmt4-unmapped-code-got-glyph".to_string();
        }
        if exp != 0 && got == 0 {
            return format!("fmt{}-mapped-code-got-0", g.format);
        }
        format!("fmt{}-wrong-glyph", g.format)
    }

    /// Whole-font path: encoding records, preference order, encodings.
    fn check_font(&self, cx: &mut Ctx, rng: &mut Rng) {
        let max_gid = 1 + rng.below(3000) as u16;
        let nrec = 1 + rng.below(5);
        let choices: &[(u16, u16)] = &[(3, 10), (3, 1), (0, 4), (0, 3), (0, 6), (3, 0), (1, 0), (3, 4), (3, 2), (4, 0)];
        let mut recs: Vec<Record> = Vec::new();
        let mut subs: Vec<GenSub> = Vec::new();
        let mut used = Vec::new();
        for _ in 0..nrec {
            let (p, e) = *rng.pick(choices);
            if used.contains(&(p, e)) {
                continue;
            }
            used.push((p, e));
            let format = match (p, e) {
                (3, 10) | (0, 4) | (0, 6) => *rng.pick(&[12u16, 12, 10, 4]),
                (3, 1) | (0, 3) => *rng.pick(&[4u16, 4, 6, 12]),
                (3, 0) => 4,
                (1, 0) => *rng.pick(&[0u16, 6]),
                (3, 4) => *rng.pick(&[2u16, 4]),
                _ => *rng.pick(&[0u16, 4, 6, 12]),
            };
            let mut gsub = gen_subtable(rng, format, max_gid);
            if (p, e) == (3, 0) {
                // symbol fonts live at 0xF020..0xF0FF (or 0x20..0xFF for first_char 0x20)
                let base = if rng.bool() { 0xF000u32 } else { 0 };
                let mut m = Map::new();
                for c in 0x20..0x100u32 {
                    if rng.chance(2, 3) {
                        m.insert(base + c, 1 + rng.below(max_gid as usize) as u16);
                    }
                }
                let l = Layout4::choose(&m, rng);
                gsub = GenSub { format: 4, bytes: l.write(0), expected: m, max_code: 0xFFFF, desc: format!("symbol fmt4 base={:#x}", base), valid2: None };
            }
            if (p, e) == (3, 4) && format == 4 {
                // Big5 codes of the sample set
                let mut m = Map::new();
                for _ in 0..60 {
                    let (_, code) = *rng.pick(c06_tables::BIG5_SAMPLE);
                    m.insert(code as u32, 1 + rng.below(max_gid as usize) as u16);
                }
                for c in 0x20..0x7Fu32 {
                    if rng.bool() {
                        m.insert(c, 1 + rng.below(max_gid as usize) as u16);
                    }
                }
                // NUL (and other control codes) mapped to a real glyph, as many fonts do (.null)
                if rng.bool() {
                    m.insert(0, 1 + rng.below(max_gid as usize) as u16);
                    if rng.bool() {
                        m.insert(1 + rng.below(0x1F) as u32, 1 + rng.below(max_gid as usize) as u16);
                    }
                }
                let l = Layout4::choose(&m, rng);
                gsub = GenSub { format: 4, bytes: l.write(0), expected: m, max_code: 0xFFFF, desc: "big5 fmt4".into(), valid2: None };
            }
            subs.push(gsub);
            recs.push(Record { platform: p, encoding: e, subtable: subs.len() - 1 });
        }
        if recs.is_empty() {
            return;
        }
        rng.shuffle(&mut recs);
        let sub_bytes: Vec<Vec<u8>> = subs.iter().map(|s| s.bytes.clone()).collect();
        let cmap = icmap::write_cmap(&recs, &sub_bytes);
        // model: selection
        let enc: Vec<icmap::EncRec> = recs.iter().map(|r| icmap::EncRec { platform: r.platform, encoding: r.encoding, offset: 0 }).collect();
        let sel = icmap::select(&enc);
        let first_char = match rng.below(4) {
            0 => None,
            1 => Some(0xF020u16),
            2 => Some(0x20),
            _ => Some(*rng.pick(&[0u16, 0x1F, 0x21, 0xF000, 0x41])),
        };
        let font_bytes = minimal_font(cmap, max_gid + 1, first_char).build();
        let fd = match ReadScope::new(&font_bytes).read::<FontData<'_>>() {
            Ok(f) => f,
            Err(e) => {
                cx.inconclusive("generator:fontdata");
                eprintln!("C06 generator: FontData rejected own font: {:?}", e);
                return;
            }
        };
        let provider = match fd.table_provider(0) {
            Ok(p) => p,
            Err(_) => {
                cx.inconclusive("generator:provider");
                return;
            }
        };
        let font = Font::new(provider);
        let desc = format!("records={:?} first_char={:?}", recs.iter().map(|r| (r.platform, r.encoding, subs[r.subtable].desc.clone())).collect::<Vec<_>>(), first_char);
        let (sel_idx, kind) = match sel {
            None => {
                if font.is_ok() {
                    cx.violation("selection", "unsupported-records-accepted", J::s(desc));
                }
                cx.class("selection:none");
                return;
            }
            Some(s) => s,
        };
        let mut font = match font {
            Ok(f) => f,
            Err(e) => {
                cx.violation("selection", "supported-records-rejected", J::s(format!("{:?} {}", e, desc)));
                return;
            }
        };
        let g = &subs[recs[sel_idx].subtable];
        cx.class(&format!("selection:{:?}", kind));
        cx.class(&format!("font:fmt{}", g.format));
        // probe characters
        let mut chars: Vec<char> = Vec::new();
        let fc = first_char.unwrap_or(0x20) as u32;
        let expected_for = |ch: char| -> Option<u16> {
            let c = ch as u32;
            match kind {
                EncKind::Unicode => Some(g.expected.get(&c).copied().unwrap_or(0)),
                EncKind::Symbol => {
                    // only the documented legacy range is judged
                    let c0 = if (0xF020..=0xF0FF).contains(&c) { c - 0xF000 } else if (0x20..=0xFF).contains(&c) { c } else { return None };
                    let code = (c0 + fc).checked_sub(0x20)?;
                    Some(g.expected.get(&code).copied().unwrap_or(0))
                }
                EncKind::MacRoman => {
                    let b = c06_tables::MAC_ROMAN_PY.iter().position(|&u| u == c)?;
                    // Not judged: control characters, and the positions that allsorts' Mac Roman
                    // table (the PostScript "standard Macintosh" subset) leaves unmapped in BOTH
                    // directions (math symbols, Omega, lozenge, Apple logo) or where published
                    // tables differ (0xDB currency/euro). Partiality is not ruled out by C06; the
                    // mutual-inverse requirement is checked exhaustively elsewhere.
                    const SKIP: &[usize] = &[0xAD, 0xB0, 0xB2, 0xB3, 0xB6, 0xB7, 0xB8, 0xB9, 0xBA, 0xBD, 0xC3, 0xC5, 0xC6, 0xD7, 0xDB, 0xF0];
                    if b < 0x20 || SKIP.contains(&b) {
                        return None;
                    }
                    Some(g.expected.get(&(b as u32)).copied().unwrap_or(0))
                }
                EncKind::Big5 => {
                    if c < 0x80 {
                        return Some(g.expected.get(&c).copied().unwrap_or(0));
                    }
                    // a character that has no Big5 code is not mapped by a Big5 subtable: glyph 0
                    if NO_BIG5_CODE.contains(&c) {
                        return Some(0);
                    }
                    let code = c06_tables::BIG5_SAMPLE.iter().find(|(u, _)| *u == c)?.1;
                    if let Some(l) = &g.valid2 {
                        if !valid_code_fmt2(l, code as u32) {
                            return None;
                        }
                    }
                    Some(g.expected.get(&(code as u32)).copied().unwrap_or(0))
                }
            }
        };
        match kind {
            EncKind::Unicode => {
                for c in probes(rng, &g.expected, g.max_code, 100) {
                    if let Some(ch) = char::from_u32(c) {
                        chars.push(ch);
                    }
                }
            }
            EncKind::Symbol => {
                for c in (0x20..0x100u32).chain(0xF020..0xF100) {
                    chars.push(char::from_u32(c).unwrap());
                }
            }
            EncKind::MacRoman => {
                for &u in c06_tables::MAC_ROMAN_PY.iter() {
                    if let Some(ch) = char::from_u32(u) {
                        chars.push(ch);
                    }
                }
            }
            EncKind::Big5 => {
                for c in 0x20..0x7Fu32 {
                    chars.push(char::from_u32(c).unwrap());
                }
                for (code, _) in g.expected.iter().take(80) {
                    if let Some((u, _)) = c06_tables::BIG5_SAMPLE.iter().find(|(_, b)| *b as u32 == *code) {
                        chars.push(char::from_u32(*u).unwrap());
                    }
                }
                for _ in 0..20 {
                    chars.push(char::from_u32(rng.pick(c06_tables::BIG5_SAMPLE).0).unwrap());
                }
                for &c in NO_BIG5_CODE {
                    chars.push(char::from_u32(c).unwrap());
                }
                if g.expected.get(&0).map_or(false, |x| *x != 0) {
                    cx.class("big5:code-0-mapped-and-characters-without-big5-code-probed");
                }
            }
        }
        let mut judged = 0;
        for ch in chars {
            if ch == '\u{25CC}' {
                continue; // memoised separately (C03)
            }
            let exp = match expected_for(ch) {
                Some(e) => e,
                None => continue,
            };
            let (got, _) = font.lookup_glyph_index(ch, MatchingPresentation::NotRequired, None);
            judged += 1;
            if got != exp {
                let sig = format!("font-{:?}-{}", kind, self.classify(g, ch as u32, exp, got));
                cx.violation(
                    "lookup-glyph-index",
                    &sig,
                    J::obj(vec![("char", J::U(ch as u64)), ("expected", J::U(exp as u64)), ("observed", J::U(got as u64)), ("selected", J::s(g.desc.clone())), ("font", J::s(desc.clone())), ("font_bytes", J::hex(&font_bytes[..font_bytes.len().min(3000)]))]),
                );
                return;
            }
        }
        if judged > 0 {
            cx.class(&format!("font-judged:{:?}", kind));
        }
    }

    fn check_real_font(&self, cx: &mut Ctx, rng: &mut Rng) {
        if self.seeds.is_empty() {
            return;
        }
        let f = &self.seeds[rng.below(self.seeds.len())];
        let fd = match ReadScope::new(&f.data).read::<FontData<'_>>() {
            Ok(x) => x,
            Err(_) => return,
        };
        let provider = match fd.table_provider(0) {
            Ok(p) => p,
            Err(_) => return,
        };
        let cmap_data = match provider.table_data(tag::CMAP) {
            Ok(Some(d)) => d.into_owned(),
            _ => return,
        };
        let recs = match icmap::read_records(&cmap_data) {
            Some(r) => r,
            None => return,
        };
        let cmap = match ReadScope::new(&cmap_data).read::<Cmap<'_>>() {
            Ok(c) => c,
            Err(_) => return,
        };
        for r in &recs {
            let off = r.offset as usize;
            let fmt = icmap::subtable_format(&cmap_data, off).unwrap_or(99);
            if ![0u16, 2, 4, 6, 10, 12].contains(&fmt) {
                continue;
            }
            let sub = match cmap.scope.offset(off).read::<CmapSubtable<'_>>() {
                Ok(s) => s,
                Err(_) => continue,
            };
            let nbmp = if cx.quick() { 3000 } else { 0x10000 };
            let start = if cx.quick() { rng.below(0x10000 - nbmp) as u32 } else { 0 };
            let mut codes: Vec<u32> = (start..start + nbmp as u32).collect();
            for _ in 0..500 {
                codes.push(rng.below(0x110000) as u32);
            }
            if fmt == 2 {
                continue; // real format 2 tables: validity of codes depends on the encoding, judged on generated tables only
            }
            for c in codes {
                let exp = match icmap::lookup(&cmap_data, off, c) {
                    Some(e) => e,
                    None => continue,
                };
                let got = match sub.map_glyph(c) {
                    Ok(Some(g)) => g,
                    Ok(None) => 0,
                    Err(_) => 0,
                };
                if got != exp {
                    cx.violation(
                        "real-font-map-glyph",
                        &format!("real-fmt{}-{}", fmt, if exp == 0 { "unmapped-got-glyph" } else { "wrong-glyph" }),
                        J::obj(vec![("font", J::s(f.name.clone())), ("record", J::s(format!("{:?}", r))), ("code", J::U(c as u64)), ("expected", J::U(exp as u64)), ("observed", J::U(got as u64))]),
                    );
                    return;
                }
            }
            cx.class(&format!("real:fmt{}", fmt));
        }
        cx.nontrivial(mix(hash_str(&f.name), rng.u64()));
    }
}

impl Prop for C06 {
    fn exhaustive(&mut self, cx: &mut Ctx, shard: u64, of: u64) {
        use allsorts::big5::{big5_to_unicode, unicode_to_big5};
        use allsorts::macroman::{char_to_macroman, is_macroman, macroman_to_char};
        if shard == 0 {
            // Mac Roman: mutual inverses, exhaustively
            for b in 0..=255u8 {
                if let Some(c) = macroman_to_char(b) {
                    if char_to_macroman(c) != Some(b) {
                        cx.violation("macroman-inverse", "macroman-decode-encode", J::s(format!("macroman_to_char({:#x}) = {:?} but char_to_macroman gives {:?}", b, c, char_to_macroman(c))));
                    }
                }
            }
            cx.class_n("exhaustive:macroman-bytes", 256);
            cx.evals += 256;
        }
        // all scalar values, split by shard
        let mut n = 0u64;
        for u in 0..0x110000u32 {
            if u as u64 % of != shard {
                continue;
            }
            let c = match char::from_u32(u) {
                Some(c) => c,
                None => continue,
            };
            n += 1;
            let m = char_to_macroman(c);
            if is_macroman(c) != m.is_some() {
                cx.violation("macroman-inverse", "is-macroman", J::s(format!("is_macroman({:#x}) disagrees with char_to_macroman", u)));
            }
            if let Some(b) = m {
                if macroman_to_char(b) != Some(c) {
                    cx.violation("macroman-inverse", "macroman-encode-decode", J::s(format!("char_to_macroman({:#x}) = {:#x} but macroman_to_char gives {:?}", u, b, macroman_to_char(b))));
                }
            }
            if let Some(b) = unicode_to_big5(c) {
                if big5_to_unicode(b) != Some(c) {
                    cx.violation("big5-inverse", "big5-encode-decode", J::s(format!("unicode_to_big5({:#x}) = {:#x} but big5_to_unicode gives {:?}", u, b, big5_to_unicode(b))));
                }
            }
        }
        cx.class_n("exhaustive:scalar-values", n);
        cx.evals += n;
        let mut n2 = 0u64;
        for b in 0..=0xFFFFu32 {
            if b as u64 % of != shard {
                continue;
            }
            n2 += 1;
            if let Some(c) = big5_to_unicode(b as u16) {
                if let Some(b2) = unicode_to_big5(c) {
                    if big5_to_unicode(b2) != Some(c) {
                        cx.violation("big5-inverse", "big5-decode-encode-decode", J::s(format!("big5 {:#x} -> {:?} -> {:#x} -> {:?}", b, c, b2, big5_to_unicode(b2))));
                    }
                }
            }
        }
        cx.class_n("exhaustive:big5-codes", n2);
        cx.evals += n2;
        // the independent Big5 sample agrees with allsorts (sanity of the table used in font checks)
        if shard == 0 {
            let mut bad = 0;
            for &(u, b) in c06_tables::BIG5_SAMPLE {
                if unicode_to_big5(char::from_u32(u).unwrap()) != Some(b) {
                    bad += 1;
                }
            }
            if bad > 0 {
                cx.class_n("big5-sample-disagreements-with-python-codec", bad);
            }
        }
    }

    fn case(&mut self, cx: &mut Ctx, rng: &mut Rng) {
        match rng.below(10) {
            0..=5 => {
                let fmt = *rng.pick(&[0u16, 2, 4, 4, 4, 6, 10, 12, 12]);
                let mg = 1 + rng.below(5000) as u16;
                let g = gen_subtable(rng, fmt, mg);
                if cx.want_sample() {
                    cx.sample(J::obj(vec![("kind", J::s("subtable")), ("desc", J::s(g.desc.clone())), ("mapped_codes", J::U(g.expected.len() as u64))]));
                }
                let h = hash_bytes(&g.bytes);
                self.check_subtable(cx, rng, &g);
                if !g.expected.is_empty() {
                    cx.nontrivial(h);
                }
            }
            6..=8 => {
                let h = rng.clone().u64();
                self.check_font(cx, rng);
                cx.nontrivial(h);
            }
            _ => self.check_real_font(cx, rng),
        }
    }
}
