//! C06 — (stub, under construction)

use super::Prop;
use crate::rt::*;

pub struct C06 {}

impl C06 {
    pub fn new(_cx: &mut Ctx) -> C06 {
        C06 {}
    }
}

impl Prop for C06 {
    fn case(&mut self, cx: &mut Ctx, _rng: &mut Rng) {
        cx.inconclusive("not-implemented");
    }
}
