//! Shared workload of C07 / C08 / C09 ("one workload, three oracles"): source fonts (real fixtures
//! read by the independent reader, and generated TrueType fonts), glyph-id lists, output options,
//! source containers, and the call into allsorts under the run-time monitors.

use crate::rt::*;
use crate::sfnt::cff_c07;
use crate::sfnt::cmap::{self as icmap, EncKind, Layout4, Map};
use crate::sfnt::glyf::{self as ig, Args, BBox, Component, Composite, EncChoice, Glyph, Scale};
use crate::sfnt::tables as it;
use crate::sfnt::woff::{build_woff, WoffTable};
use crate::sfnt::woff2::{self as w2, GlyfChoices, W2Table};
use crate::sfnt::{self, be16, be32, tag};
use allsorts::binary::read::ReadScope;
use allsorts::font_data::FontData;
use allsorts::outline::OutlineSink;
use allsorts::pathfinder_geometry::line_segment::LineSegment2F;
use allsorts::pathfinder_geometry::vector::Vector2F;
use allsorts::subset::prince::PrinceCmapTarget;
use allsorts::tables::Fixed;
use std::cell::RefCell;
use std::collections::{BTreeMap, BTreeSet, HashMap};
use std::rc::Rc;

#[path = "c07_macroman.rs"]
mod macroman;
pub use macroman::MAC_ROMAN_PY;
// independent Big5 sample (Unicode, Big5 code) generated from Python's codec; the table C06 uses
#[path = "c06_tables.rs"]
mod c06_tables;
pub use c06_tables::BIG5_SAMPLE;

// ---- recording sink ---------------------------------------------------------------------------

#[derive(Clone, Debug, PartialEq)]
pub enum Cmd {
    Move(u32, u32),
    Line(u32, u32),
    Quad(u32, u32, u32, u32),
    Cubic(u32, u32, u32, u32, u32, u32),
    Close,
}

/// Records the exact f32 bit patterns delivered by allsorts' outline visitors.
#[derive(Default)]
pub struct RecSink {
    pub cmds: Vec<Cmd>,
}
impl OutlineSink for RecSink {
    fn move_to(&mut self, to: Vector2F) {
        self.cmds.push(Cmd::Move(to.x().to_bits(), to.y().to_bits()));
    }
    fn line_to(&mut self, to: Vector2F) {
        self.cmds.push(Cmd::Line(to.x().to_bits(), to.y().to_bits()));
    }
    fn quadratic_curve_to(&mut self, c: Vector2F, to: Vector2F) {
        self.cmds.push(Cmd::Quad(c.x().to_bits(), c.y().to_bits(), to.x().to_bits(), to.y().to_bits()));
    }
    fn cubic_curve_to(&mut self, c: LineSegment2F, to: Vector2F) {
        self.cmds.push(Cmd::Cubic(c.from_x().to_bits(), c.from_y().to_bits(), c.to_x().to_bits(), c.to_y().to_bits(), to.x().to_bits(), to.y().to_bits()));
    }
    fn close(&mut self) {
        self.cmds.push(Cmd::Close);
    }
}

pub fn cmds_str(c: &[Cmd]) -> String {
    let f = |b: &u32| f32::from_bits(*b);
    let mut s = String::new();
    for (i, x) in c.iter().enumerate() {
        if i >= 40 {
            s.push_str("...");
            break;
        }
        match x {
            Cmd::Move(a, b) => s.push_str(&format!("M{},{} ", f(a), f(b))),
            Cmd::Line(a, b) => s.push_str(&format!("L{},{} ", f(a), f(b))),
            Cmd::Quad(a, b, c, d) => s.push_str(&format!("Q{},{},{},{} ", f(a), f(b), f(c), f(d))),
            Cmd::Cubic(a, b, c, d, e, g) => s.push_str(&format!("C{},{},{},{},{},{} ", f(a), f(b), f(c), f(d), f(e), f(g))),
            Cmd::Close => s.push_str("Z "),
        }
    }
    s
}

// ---- source fonts -----------------------------------------------------------------------------

#[derive(Copy, Clone, Debug, PartialEq, Eq)]
pub enum Kind {
    TrueType,
    Cff,
    Cff2,
}

#[derive(Clone, Debug)]
pub struct CmapSel {
    pub kind: EncKind,
    pub platform: u16,
    pub encoding: u16,
    pub format: u16,
    /// (code, glyph != 0), ascending by code
    pub pairs: Vec<(u32, u16)>,
}

#[derive(Clone, Debug)]
pub struct Axis {
    pub min: i32,
    pub def: i32,
    pub max: i32,
}

pub struct Src {
    pub name: String,
    pub generated: bool,
    pub plain: Vec<u8>,
    pub font: sfnt::Font,
    pub kind: Kind,
    pub num_glyphs: usize,
    pub nhm: usize,
    pub metrics: Vec<(u16, i16)>,
    pub loca: Vec<u32>,
    pub composites: Vec<u16>,
    pub cmap: Option<CmapSel>,
    pub axes: Vec<Axis>,
    pub os2_first_char: Option<u16>,
    /// CFF: parsed by the minimal independent reader (None: not CFF or unreadable)
    pub cff: Option<cff_c07::Cff>,
    pub ast: RefCell<Option<Option<Rc<Vec<(Glyph, BBox)>>>>>,
    /// generated Big5 / format 2 sources: (code, idDelta of its sub-header) of every zero entry of
    /// the glyph index array (a "hole": a character inside a range that maps to the missing glyph)
    pub big5_holes: Vec<(u32, u16)>,
    /// rule ids the independent validator reports on the source itself (tables copied verbatim
    /// into outputs inherit these; they are not attributed to allsorts)
    pub src_findings: RefCell<Option<BTreeSet<String>>>,
}

impl Src {
    pub fn from_bytes(name: &str, data: &[u8], generated: bool) -> Option<Src> {
        let font = sfnt::Font::parse(data)?;
        let n = it::maxp_num_glyphs(font.gets("maxp")?)? as usize;
        if n == 0 {
            return None;
        }
        let nhm = it::Hhea::read(font.gets("hhea")?)?.num_h_metrics as usize;
        let metrics = it::read_hmtx(font.gets("hmtx")?, n, nhm)?;
        let kind = if font.gets("CFF ").is_some() {
            Kind::Cff
        } else if font.gets("CFF2").is_some() {
            Kind::Cff2
        } else if font.gets("glyf").is_some() && font.gets("loca").is_some() {
            Kind::TrueType
        } else {
            return None;
        };
        let mut loca = Vec::new();
        let mut composites = Vec::new();
        if kind == Kind::TrueType {
            let head = it::Head::read(font.gets("head")?)?;
            loca = ig::read_loca(font.gets("loca")?, n, head.index_to_loc_format != 0)?;
            let glyf = font.gets("glyf")?;
            for g in 0..n {
                let (a, b) = (loca[g] as usize, loca[g + 1] as usize);
                if b < a || b > glyf.len() {
                    return None;
                }
                if b - a >= 10 && sfnt::bei16(glyf, a)? < 0 {
                    composites.push(g as u16);
                }
            }
        }
        let cmap = font.gets("cmap").and_then(|c| {
            let recs = icmap::read_records(c)?;
            let (i, kind) = icmap::select(&recs)?;
            let off = recs[i].offset as usize;
            let format = icmap::subtable_format(c, off)?;
            let mut pairs = icmap::enumerate(c, off)?;
            pairs.sort();
            Some(CmapSel { kind, platform: recs[i].platform, encoding: recs[i].encoding, format, pairs })
        });
        let mut axes = Vec::new();
        if let Some(fvar) = font.gets("fvar") {
            let off = be16(fvar, 4)? as usize;
            let count = be16(fvar, 8)? as usize;
            let size = be16(fvar, 10)? as usize;
            for i in 0..count {
                let o = off + i * size;
                axes.push(Axis { min: be32(fvar, o + 4)? as i32, def: be32(fvar, o + 8)? as i32, max: be32(fvar, o + 12)? as i32 });
            }
        }
        let os2_first_char = font.gets("OS/2").and_then(|o| be16(o, 64));
        let cff = font.gets("CFF ").and_then(cff_c07::parse);
        Some(Src {
            name: name.to_string(),
            generated,
            plain: data.to_vec(),
            font,
            kind,
            num_glyphs: n,
            nhm,
            metrics,
            loca,
            composites,
            cmap,
            axes,
            os2_first_char,
            cff,
            ast: RefCell::new(None),
            big5_holes: Vec::new(),
            src_findings: RefCell::new(None),
        })
    }

    /// Glyph `g` of a TrueType source, read by the independent reader.
    pub fn glyph(&self, g: usize) -> Option<(Glyph, BBox)> {
        let glyf = self.font.gets("glyf")?;
        let (a, b) = (*self.loca.get(g)? as usize, *self.loca.get(g + 1)? as usize);
        ig::read_glyph(glyf.get(a..b)?)
    }

    pub fn all_glyphs(&self) -> Option<Rc<Vec<(Glyph, BBox)>>> {
        if let Some(x) = self.ast.borrow().as_ref() {
            return x.clone();
        }
        let v: Option<Vec<(Glyph, BBox)>> = (0..self.num_glyphs).map(|g| self.glyph(g)).collect();
        let v = v.map(Rc::new);
        *self.ast.borrow_mut() = Some(v.clone());
        v
    }

    /// Components (old ids) of glyph `g`, empty when not composite.
    pub fn components(&self, g: usize) -> Vec<u16> {
        match self.glyph(g) {
            Some((Glyph::Composite(c), _)) => c.components.iter().map(|k| k.gid).collect(),
            _ => Vec::new(),
        }
    }

    /// Transitive component closure of `ids` minus `ids` (independent traversal of the source).
    pub fn closure_extras(&self, ids: &[u16]) -> BTreeSet<u16> {
        let mut seen: BTreeSet<u16> = ids.iter().copied().collect();
        let mut extras = BTreeSet::new();
        if self.kind != Kind::TrueType {
            return extras;
        }
        let comp: BTreeSet<u16> = self.composites.iter().copied().collect();
        let mut stack: Vec<u16> = ids.iter().copied().filter(|g| comp.contains(g)).collect();
        while let Some(g) = stack.pop() {
            for c in self.components(g as usize) {
                if seen.insert(c) {
                    extras.insert(c);
                    if comp.contains(&c) {
                        stack.push(c);
                    }
                }
            }
        }
        extras
    }
}

// ---- generated TrueType fonts -------------------------------------------------------------------

#[derive(Copy, Clone, Debug, PartialEq, Eq)]
pub enum CmapScenario {
    Bmp4,
    Astral12,
    Symbol,
    MacOnly,
    Platform0,
    /// > 255 glyphs, every mapped character is Mac Roman / ASCII, with duplicates
    BigMacRomanChars,
    /// the only cmap record is (3,4) Big5 with a format 2 subtable
    Big5Format2,
}

/// Code points in runs of consecutive values separated by gaps of 1..=5 or by jumps.
fn gen_codes(rng: &mut Rng, lo: u32, hi: u32, count: usize, allowed: Option<&[u32]>) -> Vec<u32> {
    let mut out = BTreeSet::new();
    if let Some(allowed) = allowed {
        // choose among the allowed code points (sorted), in runs over the sorted list
        let mut v: Vec<u32> = allowed.to_vec();
        v.sort();
        v.dedup();
        let mut i = rng.below(v.len());
        while out.len() < count.min(v.len()) {
            let run = 1 + rng.small(12);
            for _ in 0..run {
                out.insert(v[i % v.len()]);
                i += 1;
            }
            i += if rng.chance(2, 3) { 1 + rng.below(5) } else { rng.below(v.len()) };
        }
        return out.into_iter().collect();
    }
    let mut c = lo + rng.below((hi - lo).min(3000) as usize + 1) as u32;
    let mut guard = 0;
    while out.len() < count && guard < 10_000 {
        guard += 1;
        let run = 1 + rng.small(12) as u32;
        for _ in 0..run {
            if c > hi {
                break;
            }
            out.insert(c);
            c += 1;
        }
        c += if rng.chance(2, 3) { rng.below(5) as u32 + 1 } else { rng.below(((hi - lo) / 4).max(8) as usize) as u32 };
        if c > hi {
            c = lo + rng.below((hi - lo) as usize + 1) as u32;
        }
    }
    out.into_iter().collect()
}

/// Assign glyphs to sorted codes: runs of consecutive ids, random ids, duplicates.
fn assign_glyphs(rng: &mut Rng, codes: &[u32], n: usize) -> Map {
    let mut m = Map::new();
    if n < 2 {
        return m;
    }
    let mut i = 0;
    let mut used: Vec<u16> = Vec::new();
    while i < codes.len() {
        let len = (1 + rng.small(10)).min(codes.len() - i);
        match rng.below(4) {
            0 | 1 => {
                // consecutive glyph ids
                let mut g = 1 + rng.below(n - 1);
                for k in 0..len {
                    m.insert(codes[i + k], g as u16);
                    used.push(g as u16);
                    g += 1;
                    if g >= n {
                        g = 1;
                    }
                }
            }
            2 => {
                for k in 0..len {
                    let g = (1 + rng.below(n - 1)) as u16;
                    m.insert(codes[i + k], g);
                    used.push(g);
                }
            }
            _ => {
                // duplicates of glyphs already mapped
                for k in 0..len {
                    let g = if used.is_empty() { (1 + rng.below(n - 1)) as u16 } else { *rng.pick(&used) };
                    m.insert(codes[i + k], g);
                }
            }
        }
        i += len;
    }
    m
}

pub struct GenInfo {
    pub scenario: CmapScenario,
    pub desc: String,
}

/// A simple glyph of 60-150 points with one-byte deltas (for the "dense" fonts of `gen_font`).
fn dense_simple(rng: &mut Rng) -> ig::Simple {
    let mut s = ig::gen_simple(rng, 1, 3, 100);
    s.contours.clear();
    s.instructions.clear();
    let (mut x, mut y) = (0i32, 0i32);
    for _ in 0..(3 + rng.below(3)) {
        let mut c = Vec::new();
        for _ in 0..(20 + rng.below(11)) {
            x = (x + rng.range(-100, 100) as i32).clamp(-3000, 3000);
            y = (y + rng.range(-100, 100) as i32).clamp(-3000, 3000);
            c.push(ig::Pt { x: x as i16, y: y as i16, on: rng.chance(3, 4) });
        }
        s.contours.push(c);
    }
    s
}

/// A generated TrueType font: composites (nested, forward references), numberOfHMetrics <=
/// numGlyphs, a cmap per `scenario`, optional cvt/fpgm/prep/OS/2 with odd lengths.
pub fn gen_font(rng: &mut Rng, quick: bool, want: Option<CmapScenario>) -> Option<(Src, GenInfo)> {
    let scenario = want.unwrap_or_else(|| *rng.pick(&[CmapScenario::Bmp4, CmapScenario::Bmp4, CmapScenario::Astral12, CmapScenario::Symbol, CmapScenario::MacOnly, CmapScenario::Platform0, CmapScenario::BigMacRomanChars, CmapScenario::Big5Format2]));
    let big = scenario == CmapScenario::BigMacRomanChars || rng.chance(1, 12);
    // "dense": several hundred glyphs of many points with small deltas, so that the compact glyf table
    // fits short loca offsets (< 131070 bytes) while an uncompacted re-serialisation (5 bytes per point,
    // e.g. after WOFF2 reconstruction) may not - the short/long loca decision must then be revisited.
    let dense = !big && rng.chance(1, 25);
    let n = if dense { 270 + rng.below(130) } else if big { 257 + rng.below(if quick { 120 } else { 400 }) } else { 2 + rng.below(if quick { 40 } else { 90 }) };
    // kinds first so that composites may reference forward
    #[derive(Copy, Clone, PartialEq)]
    enum K {
        Empty,
        Simple,
        Comp,
    }
    let comp_rate = if dense { 0 } else { *rng.pick(&[0u32, 2, 4, 8]) };
    let kinds: Vec<K> = (0..n)
        .map(|i| {
            if rng.chance(1, 10) {
                K::Empty
            } else if i >= 1 && n > 2 && rng.chance(comp_rate, 16) {
                K::Comp
            } else {
                K::Simple
            }
        })
        .collect();
    let range = if dense { 120 } else { *rng.pick(&[300i32, 2000, 16000]) };
    let mut glyphs: Vec<Glyph> = Vec::with_capacity(n);
    let mut npoints: Vec<usize> = vec![0; n];
    // simple glyphs first (point counts are needed by point-matching components)
    for i in 0..n {
        glyphs.push(match kinds[i] {
            K::Simple => {
                let s = if dense { dense_simple(rng) } else { ig::gen_simple(rng, if big { 2 } else { 4 }, if big { 6 } else { 14 }, range) };
                if s.contours.is_empty() {
                    Glyph::Empty
                } else {
                    npoints[i] = s.num_points();
                    Glyph::Simple(s)
                }
            }
            _ => Glyph::Empty,
        });
    }
    let mut instr_flag_elsewhere = false;
    for i in 0..n {
        if kinds[i] != K::Comp {
            continue;
        }
        let nc = 1 + rng.small(3);
        let mut components = Vec::new();
        let mut pts = 0usize;
        for j in 0..nc {
            // acyclic: any non-composite glyph, or a composite with a lower index
            let mut gid = rng.below(n);
            for _ in 0..8 {
                if gid != i && (kinds[gid] != K::Comp || gid < i) {
                    break;
                }
                gid = rng.below(n);
            }
            if gid == i || (kinds[gid] == K::Comp && gid >= i) {
                continue;
            }
            let child_pts = npoints[gid];
            let args = if j > 0 && pts > 0 && child_pts > 0 && rng.chance(1, 8) {
                Args::Points(rng.below(pts) as u16, rng.below(child_pts) as u16)
            } else {
                Args::XY(rng.range(-600, 600) as i16, rng.range(-600, 600) as i16)
            };
            components.push(Component {
                gid: gid as u16,
                args,
                scale: match rng.below(6) {
                    0 => Scale::Uniform(rng.range(-20000, 20000) as i16),
                    1 => Scale::XY(rng.range(-20000, 20000) as i16, 16384),
                    2 => Scale::Matrix(16384, rng.range(-300, 300) as i16, rng.range(-300, 300) as i16, 16384),
                    _ => Scale::None,
                },
                extra_flags: *rng.pick(&[0u16, 0, 0x200, 0x4, 0x1000, 0x800, 0x400]),
                force_words: rng.chance(1, 4),
            });
            pts += child_pts;
        }
        if components.is_empty() {
            continue;
        }
        npoints[i] = pts;
        let il = if rng.chance(1, 3) { 1 + rng.below(12) } else { 0 };
        let mut components = components;
        let nk = components.len();
        if il > 0 && nk >= 2 && rng.chance(1, 2) {
            instr_flag_elsewhere = true;
            // WE_HAVE_INSTRUCTIONS on a component other than (or in addition to) the last one: legal,
            // and a subsetter that re-serialises composites must keep the instructions either way
            let k = rng.below(nk - 1);
            components[k].extra_flags |= 0x100;
            if rng.chance(1, 3) {
                components[nk - 1].extra_flags |= 0x100;
            }
        }
        glyphs[i] = Glyph::Composite(Composite { components, instructions: rng.bytes(il) });
    }
    let with_bbox: Vec<(Glyph, BBox)> = glyphs
        .into_iter()
        .map(|g| {
            let bb = match &g {
                Glyph::Simple(s) => s.bbox(),
                Glyph::Composite(_) => BBox { x_min: rng.range(-300, 0) as i16, y_min: rng.range(-300, 0) as i16, x_max: rng.range(0, 900) as i16, y_max: rng.range(0, 900) as i16 },
                Glyph::Empty => BBox { x_min: 0, y_min: 0, x_max: 0, y_max: 0 },
            };
            (g, bb)
        })
        .collect();
    // metrics
    let nhm = match rng.below(4) {
        0 => n,
        1 => 1,
        2 => 1 + rng.below(n),
        _ => (n / 2).max(1),
    };
    let lsb_is_xmin = rng.chance(1, 2);
    let mut metrics: Vec<(u16, i16)> = Vec::new();
    let mut last = 0u16;
    for (i, g) in with_bbox.iter().enumerate() {
        let adv = if i < nhm { rng.below(3000) as u16 } else { last };
        last = adv;
        let xmin = match &g.0 {
            Glyph::Empty => 0,
            _ => g.1.x_min,
        };
        metrics.push((adv, if lsb_is_xmin { xmin } else { rng.range(-500, 500) as i16 }));
    }
    // cmap
    let mut records: Vec<icmap::Record> = Vec::new();
    let mut subtables: Vec<Vec<u8>> = Vec::new();
    let mut os2_first: Option<u16> = if rng.chance(2, 3) { Some(0x20) } else { None };
    let mut big5_holes: Vec<(u32, u16)> = Vec::new();
    let nchars = if big { 60 + rng.below(200) } else { 1 + rng.below(3 * n + 20) };
    let mac_chars: Vec<u32> = MAC_ROMAN_PY.iter().copied().filter(|c| *c >= 0x20 && !mac_ambiguous_char(*c)).collect();
    let desc;
    match scenario {
        CmapScenario::Bmp4 => {
            let mut codes = gen_codes(rng, 0x20, 0xFFFF, nchars, None);
            codes.retain(|c| !(0xD800..0xE000).contains(c));
            if rng.chance(1, 3) {
                codes.push(0xFFFF);
                if rng.chance(1, 2) {
                    codes.push(0xFFFE);
                }
                codes.sort();
                codes.dedup();
            }
            let map = assign_glyphs(rng, &codes, n);
            subtables.push(Layout4::choose(&map, rng).write(0));
            records.push(icmap::Record { platform: 3, encoding: 1, subtable: 0 });
            if rng.chance(1, 3) {
                // lower-priority decoys
                let dc = gen_codes(rng, 0x20, 0xFF, 20, None);
                let decoy = assign_glyphs(rng, &dc, n);
                subtables.push(icmap::write_format0(&decoy, 0));
                records.insert(0, icmap::Record { platform: 1, encoding: 0, subtable: 1 });
            }
            desc = format!("(3,1) format 4, {} chars", map.len());
        }
        CmapScenario::Astral12 => {
            let mut codes = gen_codes(rng, 0x20, 0xFFFF, nchars / 2 + 1, None);
            codes.retain(|c| !(0xD800..0xE000).contains(c));
            codes.extend(gen_codes(rng, 0x10000, 0x2FFFF, nchars / 2 + 1, None));
            if rng.chance(1, 4) {
                codes.push(0x10FFFF);
            }
            let map = assign_glyphs(rng, &codes, n);
            subtables.push(icmap::write_format12(&icmap::groups12(&map, rng), 0));
            records.push(icmap::Record { platform: 3, encoding: 10, subtable: 0 });
            if rng.chance(1, 2) {
                let bmp: Map = map.iter().filter(|(c, _)| **c <= 0xFFFF).map(|(c, g)| (*c, *g)).collect();
                subtables.push(Layout4::choose(&bmp, rng).write(0));
                records.insert(0, icmap::Record { platform: 3, encoding: 1, subtable: 1 });
            }
            desc = format!("(3,10) format 12, {} chars", map.len());
        }
        CmapScenario::Symbol => {
            let raw = rng.chance(1, 4);
            let (lo, hi) = if raw { (0x20u32, 0xFFu32) } else { (0xF020, 0xF0FF) };
            let codes = gen_codes(rng, lo, hi, nchars.min(200), None);
            let map = assign_glyphs(rng, &codes, n);
            subtables.push(Layout4::choose(&map, rng).write(0));
            records.push(icmap::Record { platform: 3, encoding: 0, subtable: 0 });
            os2_first = match rng.below(3) {
                0 => None,
                1 => Some(0xF020),
                _ => Some(0x20),
            };
            desc = format!("(3,0) symbol format 4, {} chars, usFirstCharIndex {:?}", map.len(), os2_first);
        }
        CmapScenario::MacOnly => {
            let codes = gen_codes(rng, 0x20, 0xFF, nchars.min(224), None);
            let mut map = assign_glyphs(rng, &codes, n.min(256));
            let f6 = rng.chance(1, 3);
            if f6 {
                subtables.push(icmap::write_format6(&map, 0, rng));
            } else {
                map.retain(|_, g| *g < 256);
                subtables.push(icmap::write_format0(&map, 0));
            }
            records.push(icmap::Record { platform: 1, encoding: 0, subtable: 0 });
            desc = format!("(1,0) Mac Roman format {}, {} chars", if f6 { 6 } else { 0 }, map.len());
        }
        CmapScenario::Platform0 => {
            let astral = rng.chance(1, 3);
            let mut codes = gen_codes(rng, 0x20, 0xFFFF, nchars, None);
            codes.retain(|c| !(0xD800..0xE000).contains(c));
            if astral {
                codes.extend(gen_codes(rng, 0x10000, 0x1FFFF, 10, None));
            }
            let map = assign_glyphs(rng, &codes, n);
            if astral {
                subtables.push(icmap::write_format12(&icmap::groups12(&map, rng), 0));
                records.push(icmap::Record { platform: 0, encoding: 4, subtable: 0 });
            } else if rng.chance(1, 3) && map.len() > 0 && map.keys().last().unwrap() - map.keys().next().unwrap() < 4000 {
                subtables.push(icmap::write_format6(&map, 0, rng));
                records.push(icmap::Record { platform: 0, encoding: 3, subtable: 0 });
            } else {
                subtables.push(Layout4::choose(&map, rng).write(0));
                records.push(icmap::Record { platform: 0, encoding: 3, subtable: 0 });
            }
            desc = format!("platform 0 ({} chars, astral {})", map.len(), astral);
        }
        CmapScenario::Big5Format2 => {
            let mut l = icmap::Layout2::default();
            l.trim0 = rng.bool();
            let pick_glyph = |rng: &mut Rng, d: u16| -> u16 {
                for _ in 0..8 {
                    let g = (1 + rng.below(n - 1)) as u16;
                    if g != d {
                        return g;
                    }
                }
                0
            };
            // one-byte (ASCII) codes in sub-header 0
            let d0 = if rng.chance(2, 3) { (1 + rng.below(n - 1)) as u16 } else { 0 };
            l.deltas.insert(0, d0);
            let k1 = rng.below(30);
            for c in gen_codes(rng, 0x20, 0x7E, k1, None) {
                let g = pick_glyph(rng, d0);
                if g != 0 {
                    l.single.insert(c as u8, g);
                }
            }
            // lead bytes with ranges of trail bytes; codes outside the independent Big5 sample stay
            // holes so that the expectation is complete
            let mut by_lead: BTreeMap<u8, Vec<u8>> = BTreeMap::new();
            for (_, code) in BIG5_SAMPLE {
                by_lead.entry((*code >> 8) as u8).or_default().push((*code & 0xFF) as u8);
            }
            let leads: Vec<u8> = by_lead.keys().copied().collect();
            let nlead = 1 + rng.below(6);
            let mut nchars = l.single.len();
            for _ in 0..nlead {
                let hi = *rng.pick(&leads);
                if l.double.contains_key(&hi) {
                    continue;
                }
                let mut lows = by_lead[&hi].clone();
                lows.sort();
                let i = rng.below(lows.len());
                let j = (i + rng.below(12)).min(lows.len() - 1);
                let first = lows[i].saturating_sub(rng.below(4) as u8);
                let last = lows[j].saturating_add(rng.below(4) as u8);
                let d = if rng.chance(3, 4) { (1 + rng.below(n - 1)) as u16 } else { 0 };
                let mut arr = Vec::new();
                for lo in first..=last {
                    let g = if lows.contains(&lo) && rng.chance(3, 4) { pick_glyph(rng, d) } else { 0 };
                    if g != 0 {
                        nchars += 1;
                    }
                    arr.push(g);
                }
                l.double.insert(hi, (first, arr));
                l.deltas.insert(hi, d);
                l.single.remove(&hi);
            }
            // holes: zero entries of the glyph index arrays
            if d0 != 0 {
                let keys: Vec<u8> = l.single.keys().copied().collect();
                let (lo, hi) = match (l.trim0, keys.first(), keys.last()) {
                    (true, Some(a), Some(b)) => (*a, *b),
                    _ => (0x20, 0x7E),
                };
                for c in lo.max(0x20)..=hi.min(0x7E) {
                    if !l.single.contains_key(&c) {
                        big5_holes.push((c as u32, d0));
                    }
                }
            }
            for (hi, (first, arr)) in &l.double {
                let d = l.deltas.get(hi).copied().unwrap_or(0);
                for (k, g) in arr.iter().enumerate() {
                    if *g == 0 && d != 0 {
                        big5_holes.push((((*hi as u32) << 8) | (*first as u32 + k as u32), d));
                    }
                }
            }
            subtables.push(l.write(0));
            records.push(icmap::Record { platform: 3, encoding: 4, subtable: 0 });
            desc = format!("(3,4) Big5 format 2, {} lead bytes, {} chars, {} holes under a non-zero idDelta", l.double.len(), nchars, big5_holes.len());
        }
        CmapScenario::BigMacRomanChars => {
            let ascii_only = rng.chance(1, 3);
            let allowed: Vec<u32> = if ascii_only { (0x20..0x7F).collect() } else { mac_chars.clone() };
            let codes = gen_codes(rng, 0, 0, nchars.min(allowed.len()), Some(&allowed));
            let mut map = assign_glyphs(rng, &codes, n);
            // make sure some mapped glyphs have ids above 255
            for (k, (_, g)) in map.iter_mut().enumerate() {
                if k % 3 == 0 {
                    *g = (256 + rng.below(n - 256)) as u16;
                }
            }
            subtables.push(Layout4::choose(&map, rng).write(0));
            records.push(icmap::Record { platform: 3, encoding: 1, subtable: 0 });
            desc = format!("(3,1) format 4 with only {} characters ({}), {} glyphs", if ascii_only { "ASCII" } else { "Mac Roman" }, map.len(), n);
        }
    }
    let cmap = icmap::write_cmap(&records, &subtables);
    // glyf / loca
    let enc = if dense { EncChoice::compact() } else { EncChoice::random(rng) };
    let recs: Vec<Vec<u8>> = with_bbox
        .iter()
        .map(|(g, bb)| match g {
            Glyph::Empty => Vec::new(),
            Glyph::Simple(s) => ig::write_simple(s, *bb, rng, &enc),
            Glyph::Composite(c) => {
                let nc = if rng.chance(1, 4) { *rng.pick(&[-2i16, -3, -100, -32768, -255]) } else { -1 };
                ig::write_composite_nc(c, *bb, nc)
            }
        })
        .collect();
    let (glyf, loca, long) = if dense { ig::build_glyf_loca(&recs, false, false) } else { ig::build_glyf_loca(&recs, rng.chance(1, 3), rng.bool()) };
    let mut f = sfnt::Font::new(0x0001_0000);
    f.sets("cmap", cmap);
    f.sets("head", it::Head { index_to_loc_format: long as i16, ..Default::default() }.write());
    f.sets("hhea", it::Hhea { ascender: 800, descender: -200, advance_width_max: 3000, num_h_metrics: nhm as u16, caret_slope_rise: 1, ..Default::default() }.write());
    f.sets("maxp", it::write_maxp(n as u16, true));
    f.sets("hmtx", it::write_hmtx(&metrics, nhm));
    f.sets("loca", loca);
    f.sets("glyf", glyf);
    f.sets("post", it::write_post3());
    f.sets("name", it::write_name(&[(1, "Verif"), (2, "Regular"), (4, "Verif Regular"), (6, "Verif-Regular")]));
    if let Some(fc) = os2_first {
        f.sets("OS/2", it::write_os2(*rng.pick(&[1u16, 3, 4]), fc, 0xFFFF));
    }
    for t in ["cvt ", "fpgm", "prep"] {
        if rng.chance(1, 2) {
            let len = match rng.below(4) {
                0 => 1 + 2 * rng.below(20),
                1 => 2 * rng.below(40),
                2 => 0,
                _ => rng.below(90),
            };
            f.sets(t, rng.bytes(len));
        }
    }
    if rng.chance(1, 3) {
        let len = rng.below(70);
        f.sets("xyz1", rng.bytes(len));
    }
    let bytes = f.build();
    let mut src = Src::from_bytes("generated", &bytes, true)?;
    // self-check: the independent reader must read back what the writer wrote
    let back = src.all_glyphs()?;
    if back.len() != with_bbox.len() || src.metrics != metrics {
        return None;
    }
    for (a, b) in back.iter().zip(with_bbox.iter()) {
        if !same_glyph(&a.0, &b.0, None) {
            return None;
        }
    }
    src.name = format!("generated[{} glyphs, nhm {}, {}{}{}]", n, nhm, desc, if dense { ", dense" } else { "" }, if instr_flag_elsewhere { ", instr-flag-on-non-final-component" } else { "" });
    src.big5_holes = big5_holes;
    Some((src, GenInfo { scenario, desc }))
}

/// Glyph equality as C07 demands it: contours, points, on-curve flags, instructions; composites
/// component by component (ids through `map_new_to_old` applied to `a`), arguments, transform,
/// and the flags that change rendering or metrics. Encoding choices (words vs bytes, OVERLAP
/// bits, which component record carries WE_HAVE_INSTRUCTIONS) are not content.
pub fn same_glyph(a: &Glyph, b: &Glyph, map_new_to_old: Option<&dyn Fn(u16) -> Option<u16>>) -> bool {
    let norm = |g: &Glyph| -> Glyph {
        match g {
            Glyph::Simple(s) if s.contours.is_empty() => Glyph::Empty,
            Glyph::Simple(s) => {
                let mut s = s.clone();
                s.overlap = false;
                Glyph::Simple(s)
            }
            other => other.clone(),
        }
    };
    match (norm(a), norm(b)) {
        (Glyph::Empty, Glyph::Empty) => true,
        (Glyph::Simple(x), Glyph::Simple(y)) => x == y,
        (Glyph::Composite(x), Glyph::Composite(y)) => {
            x.instructions == y.instructions
                && x.components.len() == y.components.len()
                && x.components.iter().zip(y.components.iter()).all(|(p, q)| {
                    let pg = match map_new_to_old {
                        Some(m) => m(p.gid),
                        None => Some(p.gid),
                    };
                    pg == Some(q.gid) && p.args == q.args && p.scale == q.scale && (p.extra_flags & !0x500) == (q.extra_flags & !0x500)
                })
        }
        _ => false,
    }
}

// ---- cases ------------------------------------------------------------------------------------

#[derive(Clone, Debug)]
pub enum Target {
    Unrestricted,
    MacRoman,
    Omit,
    Supplied(Box<[u8; 256]>),
}

#[derive(Clone, Debug)]
pub enum Op {
    Subset,
    Prince { target: Target, cid_threshold: bool },
    WholeFont { tags: Vec<u32> },
    Instance { coords: Vec<i32> },
}

impl Op {
    pub fn name(&self) -> String {
        match self {
            Op::Subset => "subset".into(),
            Op::Prince { target, cid_threshold } => format!(
                "prince:{}{}",
                match target {
                    Target::Unrestricted => "unrestricted",
                    Target::MacRoman => "macroman",
                    Target::Omit => "omit",
                    Target::Supplied(_) => "supplied",
                },
                if *cid_threshold { "+cid" } else { "" }
            ),
            Op::WholeFont { .. } => "whole_font".into(),
            Op::Instance { .. } => "instance".into(),
        }
    }
}

#[derive(Clone, Debug, PartialEq)]
pub enum Container {
    Plain,
    Woff,
    Woff2 { glyf_transform: bool, hmtx_transform: bool },
}
impl Container {
    pub fn name(&self) -> &'static str {
        match self {
            Container::Plain => "sfnt",
            Container::Woff => "woff",
            Container::Woff2 { glyf_transform: true, .. } => "woff2-transformed",
            Container::Woff2 { .. } => "woff2",
        }
    }
}

pub struct Case {
    pub src: Rc<Src>,
    pub ids: Vec<u16>,
    pub id_mode: String,
    pub op: Op,
    pub container: Container,
    pub bytes: Vec<u8>,
}

impl Case {
    pub fn witness(&self, what: String) -> J {
        let mut v = vec![
            ("what", J::s(what)),
            ("font", J::s(self.src.name.clone())),
            ("op", J::s(format!("{:?}", self.op).chars().take(400).collect::<String>())),
            ("container", J::s(self.container.name())),
            ("id_mode", J::s(self.id_mode.clone())),
            ("num_ids", J::U(self.ids.len() as u64)),
            ("ids", J::A(self.ids.iter().take(80).map(|g| J::U(*g as u64)).collect())),
        ];
        if self.src.generated && self.src.plain.len() <= 6000 {
            v.push(("source_font", J::hex(&self.src.plain)));
        }
        J::obj(v)
    }
    pub fn hash(&self) -> u64 {
        let mut h = hash_str(&self.src.name);
        h = mix(h, hash_bytes(&self.ids.iter().flat_map(|g| g.to_be_bytes()).collect::<Vec<u8>>()));
        h = mix(h, hash_str(&format!("{:?}", self.op)));
        h = mix(h, hash_str(self.container.name()));
        if self.src.generated {
            h = mix(h, hash_bytes(&self.src.plain));
        }
        h
    }
}

pub struct Workload {
    pub seeds: Vec<SeedFont>,
    cache: HashMap<usize, Option<Rc<Src>>>,
    tt: Vec<usize>,
    cff: Vec<usize>,
    cff2: Vec<usize>,
    variable: Vec<usize>,
    aots: Vec<usize>,
}

fn sniff(data: &[u8]) -> Option<(Kind, bool)> {
    let dir = sfnt::parse_directory(data, 0)?;
    if ![0x0001_0000, tag("OTTO"), tag("true")].contains(&dir.version) {
        return None;
    }
    let has = |t: &str| dir.find(tag(t)).is_some();
    let kind = if has("CFF ") {
        Kind::Cff
    } else if has("CFF2") {
        Kind::Cff2
    } else if has("glyf") {
        Kind::TrueType
    } else {
        return None;
    };
    Some((kind, has("fvar")))
}

impl Workload {
    pub fn new(cx: &Ctx) -> Workload {
        let max = 2_400_000;
        let seeds = load_seed_fonts(max, true);
        let (mut tt, mut cff, mut cff2, mut variable, mut aots) = (Vec::new(), Vec::new(), Vec::new(), Vec::new(), Vec::new());
        for (i, s) in seeds.iter().enumerate() {
            if let Some((kind, var)) = sniff(&s.data) {
                if s.name.contains("aots") {
                    aots.push(i);
                } else if var {
                    variable.push(i);
                } else {
                    match kind {
                        Kind::TrueType => tt.push(i),
                        Kind::Cff => cff.push(i),
                        Kind::Cff2 => cff2.push(i),
                    }
                }
            }
        }
        Workload { seeds, cache: HashMap::new(), tt, cff, cff2, variable, aots }
    }

    fn load(&mut self, i: usize) -> Option<Rc<Src>> {
        if let Some(x) = self.cache.get(&i) {
            return x.clone();
        }
        let s = &self.seeds[i];
        let v = Src::from_bytes(&s.name, &s.data, false).map(Rc::new);
        self.cache.insert(i, v.clone());
        v
    }

    /// The CFF seed `i` with its CFF table re-laid out behind a header of 5..=12 bytes (hdrSize > 4
    /// is legal, TN #5176 section 6); cached per (seed, header size).
    fn load_long_header(&mut self, i: usize, extra: usize) -> Option<Rc<Src>> {
        let key = i + (extra << 24);
        if let Some(x) = self.cache.get(&key) {
            return x.clone();
        }
        let base = self.load(i)?;
        let v = (|| {
            let cff = base.font.gets("CFF ")?;
            let filler: Vec<u8> = (0..extra).map(|k| 0xA5u8.wrapping_add(k as u8 * 17)).collect();
            let new = crate::sfnt::cff_hdr_c07::extend_header(cff, &filler)?;
            let mut f = base.font.clone();
            f.sets("CFF ", new);
            let bytes = f.build();
            Src::from_bytes(&format!("{}, CFF hdrSize {}", base.name, 4 + extra), &bytes, false).map(Rc::new)
        })();
        self.cache.insert(key, v.clone());
        v
    }

    /// `cats`: weights for (generated, real TrueType, CFF, CFF2, variable, aots)
    pub fn pick_src(&mut self, cx: &mut Ctx, rng: &mut Rng, cats: [u32; 6], want: Option<CmapScenario>) -> Option<(Rc<Src>, Option<GenInfo>)> {
        let total: u32 = cats.iter().sum();
        let mut r = rng.below(total as usize) as u32;
        let mut cat = 0;
        for (i, w) in cats.iter().enumerate() {
            if r < *w {
                cat = i;
                break;
            }
            r -= *w;
        }
        if cat == 0 {
            return match gen_font(rng, cx.quick(), want) {
                Some((s, info)) => {
                    if s.name.contains("instr-flag-on-non-final-component") {
                        cx.class("source:composite-instructions-flag-on-non-final-component");
                    }
                    if s.name.contains(", dense") {
                        let short = it::Head::read(s.font.gets("head").unwrap_or(&[])).map_or(false, |h| h.index_to_loc_format == 0);
                        cx.class(if short { "source:dense-font-short-loca" } else { "source:dense-font-long-loca" });
                    }
                    Some((Rc::new(s), Some(info)))
                }
                None => {
                    cx.inconclusive("generator:font-self-check");
                    None
                }
            };
        }
        let list = match cat {
            1 => &self.tt,
            2 => &self.cff,
            3 => &self.cff2,
            4 => &self.variable,
            _ => &self.aots,
        };
        if list.is_empty() {
            return None;
        }
        let i = list[rng.below(list.len())];
        if cat == 2 && rng.chance(1, 3) {
            let extra = *rng.pick(&[1usize, 1, 2, 4, 8]);
            if let Some(s) = self.load_long_header(i, extra) {
                cx.class("source:cff-header-longer-than-4-bytes");
                return Some((s, None));
            }
            cx.class("source:cff-header-extension-not-possible");
        }
        match self.load(i) {
            Some(s) => Some((s, None)),
            None => {
                cx.class("source:not-readable-by-independent-reader");
                None
            }
        }
    }
}

/// Glyph id list: first id 0, distinct, in range.
pub fn gen_ids(src: &Src, rng: &mut Rng, quick: bool) -> (Vec<u16>, String) {
    let n = src.num_glyphs;
    let mut ids: Vec<u16> = vec![0];
    let mut seen: BTreeSet<u16> = BTreeSet::new();
    seen.insert(0);
    let mut push = |ids: &mut Vec<u16>, g: u16| {
        if (g as usize) < n && seen.insert(g) {
            ids.push(g);
        }
    };
    let all_cap = if quick { 1500 } else { 8000 };
    let mode = rng.below(12);
    let mut label = String::new();
    match mode {
        0 if n <= all_cap => {
            for g in 1..n {
                push(&mut ids, g as u16);
            }
            return (ids, "all".into());
        }
        1 => {
            for g in 1..n.min(300) {
                push(&mut ids, g as u16);
            }
            return (ids, "first-300".into());
        }
        _ => {}
    }
    let parts = 1 + rng.below(3);
    for _ in 0..parts {
        match rng.below(7) {
            0 | 1 => {
                label.push_str("random ");
                let cap = if rng.chance(1, 4) { 399 } else { 40 };
                let k = 1 + rng.small(cap);
                for _ in 0..k {
                    push(&mut ids, rng.below(n) as u16);
                }
            }
            2 if !src.composites.is_empty() => {
                label.push_str("composites ");
                let k = 1 + rng.small(8);
                for _ in 0..k {
                    let c = *rng.pick(&src.composites);
                    let comps = src.components(c as usize);
                    match rng.below(3) {
                        0 => {
                            for x in &comps {
                                push(&mut ids, *x);
                            }
                            push(&mut ids, c);
                        }
                        1 => {
                            push(&mut ids, c);
                            for x in &comps {
                                push(&mut ids, *x);
                            }
                        }
                        _ => push(&mut ids, c),
                    }
                }
            }
            3 if src.nhm < n => {
                label.push_str("hmtx-tail ");
                let k = 1 + rng.small(20);
                for _ in 0..k {
                    push(&mut ids, (src.nhm + rng.below(n - src.nhm)) as u16);
                }
                if rng.bool() {
                    push(&mut ids, (src.nhm.max(1) - 1) as u16);
                    push(&mut ids, src.nhm as u16);
                    push(&mut ids, (n - 1) as u16);
                }
            }
            4 | 5 => {
                if let Some(cm) = &src.cmap {
                    if !cm.pairs.is_empty() {
                        label.push_str("cmap-runs ");
                        let runs = 1 + rng.small(5);
                        for _ in 0..runs {
                            let mut i = rng.below(cm.pairs.len());
                            let k = 1 + rng.small(40);
                            let gap = rng.below(6);
                            for _ in 0..k {
                                if i >= cm.pairs.len() {
                                    break;
                                }
                                push(&mut ids, cm.pairs[i].1);
                                i += 1 + if rng.chance(1, 4) { gap } else { 0 };
                            }
                        }
                        if rng.chance(1, 4) {
                            // the last mapped characters (0xFFFF and friends)
                            for p in cm.pairs.iter().rev().take(3) {
                                push(&mut ids, p.1);
                            }
                        }
                    }
                }
            }
            _ => {
                if let Some(c) = &src.cff {
                    if c.is_cid && c.privates.len() > 1 {
                        label.push_str("fds ");
                        // a few glyphs from each of several FDs
                        let mut by_fd: BTreeMap<u8, Vec<u16>> = BTreeMap::new();
                        for _ in 0..400 {
                            let g = rng.below(n);
                            by_fd.entry(c.fd_of[g]).or_default().push(g as u16);
                        }
                        for (_, v) in by_fd.iter().take(1 + rng.below(8)) {
                            for g in v.iter().take(1 + rng.below(4)) {
                                push(&mut ids, *g);
                            }
                        }
                        continue;
                    }
                }
                label.push_str("consecutive ");
                let s = rng.below(n);
                let k = 1 + rng.small(60);
                for g in s..(s + k).min(n) {
                    push(&mut ids, g as u16);
                }
            }
        }
    }
    if ids.len() > 400 {
        ids.truncate(400);
    }
    if rng.chance(1, 3) {
        let (_, tail) = ids.split_at_mut(1);
        if rng.bool() {
            tail.sort();
        } else {
            rng.shuffle(tail);
        }
    }
    let mut parts: Vec<&str> = label.split_whitespace().collect();
    parts.sort();
    parts.dedup();
    (ids, parts.join("+"))
}

fn plain_tables(src: &Src, rng: &mut Rng) -> Vec<W2Table> {
    src.font.tables.iter().map(|(t, d)| W2Table { tag: *t, orig_length: d.len() as u32, payload: d.clone(), transform_version: 0, has_transform_length: false, force_arbitrary_tag: rng.chance(1, 10) }).collect()
}

/// Wrap the source font in a container (independent writers).
pub fn wrap(src: &Src, rng: &mut Rng, choice: usize) -> (Container, Vec<u8>) {
    match choice {
        0 => (Container::Plain, src.plain.clone()),
        1 => {
            let tables: Vec<WoffTable> = src.font.tables.iter().map(|(t, d)| WoffTable { tag: *t, data: d.clone(), compress: rng.chance(3, 4), level: 1 + rng.below(9) as u32 }).collect();
            let meta = if rng.chance(1, 5) { Some(&b"<metadata/>"[..]) } else { None };
            (Container::Woff, build_woff(src.font.version, &tables, meta, None, true).0)
        }
        _ => {
            let mut tables = plain_tables(src, rng);
            let mut cont = Container::Woff2 { glyf_transform: false, hmtx_transform: false };
            if src.kind == Kind::TrueType {
                let ast = if src.num_glyphs <= 3000 && rng.chance(3, 4) { src.all_glyphs() } else { None };
                tables.retain(|t| t.tag != tag("glyf") && t.tag != tag("loca"));
                let glyf_raw = src.font.gets("glyf").unwrap_or(&[]).to_vec();
                let loca_raw = src.font.gets("loca").unwrap_or(&[]).to_vec();
                let long = it::Head::read(src.font.gets("head").unwrap_or(&[])).map_or(false, |h| h.index_to_loc_format != 0);
                let mut hmtx_t = false;
                if let Some(ast) = &ast {
                    // hmtx transform when legal
                    let xmin = |g: &(Glyph, BBox)| match &g.0 {
                        Glyph::Empty => 0,
                        Glyph::Simple(s) if s.contours.is_empty() => 0,
                        _ => g.1.x_min,
                    };
                    let can_lsb = src.metrics[..src.nhm].iter().zip(ast.iter()).all(|(m, g)| m.1 == xmin(g));
                    // the leftSideBearing[] array is only elided when it is empty: allsorts' decoder rebuilds a
                    // non-empty elided array from the wrong glyphs (open known finding of C11, not judged here)
                    let can_tail = src.nhm == src.num_glyphs;
                    let exact_len = src.font.gets("hmtx").map_or(0, |h| h.len()) == 4 * src.nhm + 2 * (src.num_glyphs - src.nhm);
                    if exact_len && (can_lsb || can_tail) && rng.chance(3, 4) {
                        let mut elide = (can_lsb && rng.chance(3, 4), can_tail && rng.chance(3, 4));
                        if !elide.0 && !elide.1 {
                            if can_lsb {
                                elide.0 = true;
                            } else {
                                elide.1 = true;
                            }
                        }
                        hmtx_t = true;
                        let payload = w2::transform_hmtx(&src.metrics, src.nhm, elide.0, elide.1);
                        for t in tables.iter_mut() {
                            if t.tag == tag("hmtx") {
                                t.payload = payload.clone();
                                t.transform_version = 1;
                                t.has_transform_length = true;
                                t.force_arbitrary_tag = false;
                            }
                        }
                    }
                }
                rng.shuffle(&mut tables);
                let pos = rng.below(tables.len() + 1);
                match &ast {
                    Some(ast) => {
                        let ch = GlyfChoices { explicit_bbox: rng.below(9) as u32, overlap_bitmap: rng.bool() };
                        let mut classes = Vec::new();
                        let payload = w2::transform_glyf(ast, long as u16, &ch, rng, &mut classes);
                        tables.insert(pos, W2Table { tag: tag("glyf"), orig_length: glyf_raw.len() as u32, payload, transform_version: 0, has_transform_length: true, force_arbitrary_tag: false });
                        tables.insert(pos + 1, W2Table { tag: tag("loca"), orig_length: loca_raw.len() as u32, payload: Vec::new(), transform_version: 0, has_transform_length: true, force_arbitrary_tag: false });
                        cont = Container::Woff2 { glyf_transform: true, hmtx_transform: hmtx_t };
                    }
                    None => {
                        tables.insert(pos, W2Table { tag: tag("glyf"), orig_length: glyf_raw.len() as u32, payload: glyf_raw, transform_version: 3, has_transform_length: false, force_arbitrary_tag: false });
                        tables.insert(pos + 1, W2Table { tag: tag("loca"), orig_length: loca_raw.len() as u32, payload: loca_raw, transform_version: 3, has_transform_length: false, force_arbitrary_tag: false });
                    }
                }
            } else {
                rng.shuffle(&mut tables);
            }
            let chunk = *rng.pick(&[65536usize, 65536, 4096, 1000]);
            let meta = rng.chance(1, 6);
            (cont, w2::build_woff2(src.font.version, &tables, None, chunk, rng, meta))
        }
    }
}

pub fn gen_target(rng: &mut Rng, ids: &[u16]) -> Target {
    match rng.below(6) {
        0 | 1 => Target::Unrestricted,
        2 | 3 => Target::MacRoman,
        4 => Target::Omit,
        _ => {
            let mut a = [0u8; 256];
            let k = rng.below(120);
            for _ in 0..k {
                a[rng.below(256)] = rng.below(ids.len().min(256)) as u8;
            }
            Target::Supplied(Box::new(a))
        }
    }
}

/// Call the operation on the container bytes under the monitors. None = allsorts panicked (already
/// recorded); Some(Err(e)) = the operation or the container reader returned an error.
pub fn run_op(cx: &mut Ctx, case: &Case) -> Option<Result<Vec<u8>, String>> {
    let bytes = &case.bytes;
    let ids = &case.ids;
    let op = case.op.clone();
    cx.guard(&case.op.name(), bytes.len(), move || -> Result<Vec<u8>, String> {
        let fd = ReadScope::new(bytes).read::<FontData<'_>>().map_err(|e| format!("container: {:?}", e))?;
        let p = fd.table_provider(0).map_err(|e| format!("provider: {:?}", e))?;
        match op {
            Op::Subset => allsorts::subset::subset(&p, ids).map_err(|e| format!("{:?}", e)),
            Op::Prince { target, cid_threshold } => {
                let t = match target {
                    Target::Unrestricted => PrinceCmapTarget::Unrestricted,
                    Target::MacRoman => PrinceCmapTarget::MacRoman,
                    Target::Omit => PrinceCmapTarget::Omit,
                    Target::Supplied(a) => PrinceCmapTarget::MacRomanCmap(a),
                };
                allsorts::subset::prince::subset(&p, ids, t, cid_threshold).map_err(|e| format!("{:?}", e))
            }
            Op::WholeFont { tags } => allsorts::subset::whole_font(&p, &tags).map_err(|e| format!("{:?}", e)),
            Op::Instance { coords } => {
                let c: Vec<Fixed> = coords.iter().map(|v| Fixed::from_raw(*v)).collect();
                allsorts::variations::instance(&p, &c).map(|(b, _)| b).map_err(|e| format!("{:?}", e))
            }
        }
    })
}

/// Character (as the statement counts it) of source code `c` in a subtable of kind `kind`, for the
/// given target. Unicode: the scalar value; Symbol: the code itself (Unrestricted) or its legacy
/// Unicode equivalent (Mac Roman target); Mac Roman: the Unicode character of the byte.
pub fn source_char(c: u32, kind: EncKind, mac_target: bool, os2_first: Option<u16>) -> Option<u32> {
    match kind {
        EncKind::Unicode => char::from_u32(c).map(|_| c),
        EncKind::Symbol => {
            if mac_target {
                let c0 = if (0xF000..=0xF0FF).contains(&c) { c } else { c.checked_add(0xF000)? };
                let u = (c0 + 0x20).checked_sub(os2_first.unwrap_or(0x20) as u32)?;
                char::from_u32(u).map(|_| u)
            } else {
                Some(c)
            }
        }
        EncKind::MacRoman => {
            if c < 256 && !MAC_AMBIGUOUS_BYTES.contains(&(c as u8)) {
                Some(MAC_ROMAN_PY[c as usize])
            } else {
                None
            }
        }
        EncKind::Big5 => {
            // ASCII bytes stand for themselves; double-byte codes through the independent sample
            if c < 0x80 {
                Some(c)
            } else {
                BIG5_SAMPLE.iter().find(|(_, b)| *b as u32 == c).map(|(u, _)| *u)
            }
        }
    }
}

/// Bytes on which published Mac OS Roman tables differ: Apple's current table (Python's codec)
/// assigns mathematical symbols, the Apple logo and the euro sign; the PostScript / PDF
/// MacRomanEncoding that allsorts implements leaves the symbols unassigned and has the currency
/// sign at 0xDB. Characters and bytes in this set are not judged (legitimate difference).
pub const MAC_AMBIGUOUS_BYTES: [u8; 16] = [0xAD, 0xB0, 0xB2, 0xB3, 0xB6, 0xB7, 0xB8, 0xB9, 0xBA, 0xBD, 0xC3, 0xC5, 0xC6, 0xD7, 0xDB, 0xF0];

pub fn mac_ambiguous_char(ch: u32) -> bool {
    ch == 0xA4 || MAC_AMBIGUOUS_BYTES.iter().any(|b| MAC_ROMAN_PY[*b as usize] == ch)
}

/// Mac Roman byte of a character of the unambiguous core of the encoding.
pub fn mac_byte(ch: u32) -> Option<u8> {
    MAC_ROMAN_PY.iter().position(|u| *u == ch).map(|p| p as u8).filter(|b| !MAC_AMBIGUOUS_BYTES.contains(b))
}
