//! C02 — (stub, under construction)

use super::Prop;
use crate::rt::*;

pub struct C02 {}

impl C02 {
    pub fn new(_cx: &mut Ctx) -> C02 {
        C02 {}
    }
}

impl Prop for C02 {
    fn case(&mut self, cx: &mut Ctx, _rng: &mut Rng) {
        cx.inconclusive("not-implemented");
    }
}
