//! C02 — shaping is total and yields well-formed glyph runs.
//!
//! Case = one font (real / real with faults confined to GSUB, GPOS, GDEF, kern, morx / small
//! generated font with a hostile lookup program) x a handful of (text, script, language,
//! features, tuple, kerning, direction, vertical) combinations. Every `map_glyphs`, `shape` and
//! `glyph_positions` call runs under the panic / CPU-time / memory monitors; returned runs
//! (`Ok(infos)` and the best-effort run of `Err((e, infos))`) are checked against the
//! well-formedness invariants (a)-(e) of DESIGN.md §4 C02. Nothing else about values is judged.

use super::Prop;
use crate::rt::*;
use crate::sfnt;
use allsorts::binary::read::ReadScope;
use allsorts::font::MatchingPresentation;
use allsorts::font_data::FontData;
use allsorts::glyph_position::{GlyphLayout, TextDirection};
use allsorts::gpos::{Info, Placement};
use allsorts::gsub::{FeatureInfo, FeatureMask, Features, GlyphOrigin, RawGlyph, RawGlyphFlags};
use allsorts::tables::variable_fonts::fvar::FvarTable;
use allsorts::tables::{F2Dot14, FontTableProvider};
use allsorts::tinyvec::tiny_vec;
use allsorts::Font;
use std::cell::RefCell;
use std::collections::{HashMap, HashSet};
use std::rc::Rc;

#[path = "c02_text.rs"]
mod text;
#[path = "c02_walk.rs"]
mod walk;
#[path = "c02_lay.rs"]
mod lay;
#[path = "c02_morx.rs"]
mod morx;
#[path = "c02_kern.rs"]
mod kern;

use text::{t, tag_str, Fam, Sc, TextGen, EXTRA_TAGS, SCRIPTS};
use walk::{Kind, Walked};

/// Calls whose run could grow beyond this many glyphs are not made (see the plan's assumptions).
const GROWTH_LIMIT: f64 = 16_000.0;
const LAYOUT_TABLES: &[&str] = &["GSUB", "GPOS", "GDEF", "kern", "morx"];
const DOTTED_CIRCLE: char = '\u{25CC}';

struct Seed {
    name: String,
    data: Vec<u8>,
    /// tables (independent parse) when the file is a plain sfnt / first member of a collection
    tables: Option<sfnt::Font>,
    aots: bool,
    num_glyphs: u16,
    axes: usize,
    scripts: Vec<u32>,
    langs: Vec<u32>,
    features: Vec<u32>,
    /// sample of characters the font maps (independent cmap reader)
    chars: Vec<char>,
    has_layout: bool,
    /// growth potential of the clean GSUB (see walk::growth_potential)
    potential: f64,
    walked: RefCell<HashMap<&'static str, Rc<Walked>>>,
}

pub struct C02 {
    seeds: Vec<Seed>,
    /// indices by group
    big: Vec<usize>,
    aots: Vec<usize>,
    variable: Vec<usize>,
    tg: TextGen,
    miri: bool,
}

/// What a case shapes with.
struct FontCase {
    name: String,
    bytes: Vec<u8>,
    kind: &'static str,
    wellformed: bool,
    faults: Vec<String>,
    program: Option<&'static str>,
    num_glyphs: u16,
    axes: usize,
    scripts: Vec<u32>,
    langs: Vec<u32>,
    features: Vec<u32>,
    chars: Vec<char>,
    /// characters that map to the glyphs the generated lookups talk about
    hot_chars: Vec<char>,
    aots: bool,
    /// upper bound on the factor by which this font's GSUB can grow a run (1 = not computed / benign)
    growth: f64,
    /// the font's `kern` table is a generated one with a format 2 sub-table (the font then has no
    /// GSUB / morx, so the run that is kerned is the submitted run)
    kern2: Option<kern::Kern2>,
    /// ... and the font has a GPOS table without a 'kern' feature (otherwise no GPOS at all)
    kern2_gpos: bool,
}

fn first_member(data: &[u8]) -> Option<sfnt::Font> {
    let offs = sfnt::Font::member_offsets(data)?;
    let f = sfnt::Font::parse_at(data, *offs.first()?)?;
    match f.version {
        0x0001_0000 | 0x4F54_544F | 0x7472_7565 => Some(f),
        _ => None,
    }
}

/// cheap variant for Miri: probe a few hundred code points instead of enumerating the subtable
fn cmap_probe(f: &sfnt::Font) -> Vec<char> {
    let cmap = match f.gets("cmap") {
        Some(c) => c,
        None => return Vec::new(),
    };
    let recs = match sfnt::cmap::read_records(cmap) {
        Some(r) => r,
        None => return Vec::new(),
    };
    let (i, kind) = match sfnt::cmap::select(&recs) {
        Some(x) => x,
        None => return Vec::new(),
    };
    if kind != sfnt::cmap::EncKind::Unicode {
        return Vec::new();
    }
    (0x20u32..0x100).filter(|c| sfnt::cmap::lookup(cmap, recs[i].offset as usize, *c).map_or(false, |g| g != 0)).filter_map(char::from_u32).collect()
}

fn cmap_sample(f: &sfnt::Font, max: usize) -> Vec<char> {
    let cmap = match f.gets("cmap") {
        Some(c) => c,
        None => return Vec::new(),
    };
    let recs = match sfnt::cmap::read_records(cmap) {
        Some(r) => r,
        None => return Vec::new(),
    };
    let (i, kind) = match sfnt::cmap::select(&recs) {
        Some(x) => x,
        None => return Vec::new(),
    };
    if kind != sfnt::cmap::EncKind::Unicode {
        return Vec::new();
    }
    let all = sfnt::cmap::enumerate(cmap, recs[i].offset as usize).unwrap_or_default();
    let stride = (all.len() / max.max(1)).max(1);
    all.iter().step_by(stride).filter_map(|(c, _)| char::from_u32(*c)).collect()
}

impl C02 {
    pub fn new(cx: &mut Ctx) -> C02 {
        let miri = cfg!(miri) || cx.mode == "tiny";
        let max = if miri {
            6_000
        } else if cx.quick() {
            700_000
        } else {
            4_000_000
        };
        let mut seeds = Vec::new();
        let all = if miri {
            // a handful of tiny AOTS fonts covering the lookup types (read individually: reading the
            // whole corpus is too slow under Miri)
            let want = ["gsub1_1_simple_f1", "gsub2_1_simple_f1", "gsub3_1_simple_f1", "gsub4_1_simple_f1", "gsub_context1_simple_f1", "gsub_chaining3_simple_f1", "gpos1_1_simple_f1", "gpos2_1_simple_f1", "gpos3_font1", "gpos4_simple_1", "gpos5_font1", "gpos6_font1", "gpos_context1_simple_f1", "gpos_chaining1_simple_f1", "gsub_context2_expansion_f1", "gpos2_2_font1"];
            let mut v = Vec::new();
            for w in want {
                let path = format!("/repo/tests/aots/{}.otf", w);
                if let Ok(data) = std::fs::read(&path) {
                    if data.len() <= max {
                        v.push(SeedFont { name: format!("aots/{}.otf", w), data });
                    }
                }
            }
            v
        } else {
            load_seed_fonts(max, true)
        };
        for f in all {
            let aots = f.name.contains("aots");
            let tables = first_member(&f.data);
            let mut s = Seed {
                name: f.name,
                data: f.data,
                tables: None,
                aots,
                num_glyphs: 0,
                axes: 0,
                scripts: Vec::new(),
                langs: Vec::new(),
                features: Vec::new(),
                chars: Vec::new(),
                has_layout: false,
                potential: 1.0,
                walked: RefCell::new(HashMap::new()),
            };
            if let Some(tb) = tables {
                s.num_glyphs = tb.gets("maxp").and_then(sfnt::tables::maxp_num_glyphs).unwrap_or(0);
                s.axes = tb.gets("fvar").and_then(|d| sfnt::be16(d, 8)).unwrap_or(0) as usize;
                s.has_layout = LAYOUT_TABLES.iter().any(|t| tb.gets(t).is_some());
                for tname in ["GSUB", "GPOS"] {
                    if let Some(d) = tb.gets(tname) {
                        // tags only (cheap); the full walk happens lazily when a fault is placed
                        let w = walk::walk_tags(d);
                        for x in w.scripts {
                            if !s.scripts.contains(&x) {
                                s.scripts.push(x);
                            }
                        }
                        for x in w.langs {
                            if !s.langs.contains(&x) {
                                s.langs.push(x);
                            }
                        }
                        for x in w.features {
                            if !s.features.contains(&x) {
                                s.features.push(x);
                            }
                        }
                    }
                }
                s.chars = if miri { cmap_probe(&tb) } else { cmap_sample(&tb, 300) };
                s.potential = tb.gets("GSUB").map_or(1.0, walk::growth_potential);
                s.tables = Some(tb);
            }
            seeds.push(s);
        }
        if std::env::var("C02_POTENTIALS").is_ok() {
            for s in &seeds {
                if let Some(d) = s.tables.as_ref().and_then(|t| t.gets("GSUB")) {
                    eprintln!("POT {:.1} {}", walk::growth_potential(d), s.name);
                }
            }
        }
        let big: Vec<usize> = (0..seeds.len()).filter(|&i| !seeds[i].aots && (seeds[i].has_layout || seeds[i].tables.is_none())).collect();
        let aots: Vec<usize> = (0..seeds.len()).filter(|&i| seeds[i].aots && seeds[i].has_layout).collect();
        let variable: Vec<usize> = (0..seeds.len()).filter(|&i| seeds[i].axes > 0 && seeds[i].has_layout).collect();
        let tg = TextGen::new(cx.quick() || miri, !miri);
        if tg.words_loaded() == 0 && !miri {
            cx.inconclusive("no-word-lists");
        }
        C02 { seeds, big, aots, variable, tg, miri }
    }

    fn walked(&self, si: usize, tname: &'static str) -> Option<Rc<Walked>> {
        let s = &self.seeds[si];
        if let Some(w) = s.walked.borrow().get(tname) {
            return Some(w.clone());
        }
        let d = s.tables.as_ref()?.gets(tname)?;
        let w = Rc::new(walk::walk(tname, d));
        s.walked.borrow_mut().insert(tname, w.clone());
        Some(w)
    }

    fn pick_seed(&self, rng: &mut Rng, need_tables: bool) -> Option<usize> {
        for _ in 0..20 {
            let i = if self.miri {
                *rng.pick(&self.aots)
            } else {
                match rng.below(10) {
                    0..=5 if !self.big.is_empty() => *rng.pick(&self.big),
                    6 if !self.variable.is_empty() => *rng.pick(&self.variable),
                    _ if !self.aots.is_empty() => *rng.pick(&self.aots),
                    _ => rng.below(self.seeds.len()),
                }
            };
            if !need_tables || (self.seeds[i].tables.is_some() && self.seeds[i].has_layout) {
                return Some(i);
            }
        }
        None
    }

    fn case_from_seed(&self, si: usize) -> FontCase {
        let s = &self.seeds[si];
        FontCase {
            name: s.name.clone(),
            bytes: Vec::new(),
            kind: "real-clean",
            wellformed: s.tables.is_some() && s.num_glyphs > 0,
            faults: Vec::new(),
            program: None,
            num_glyphs: s.num_glyphs,
            axes: s.axes,
            scripts: s.scripts.clone(),
            langs: s.langs.clone(),
            features: s.features.clone(),
            chars: s.chars.clone(),
            hot_chars: Vec::new(),
            aots: s.aots,
            growth: 1.0,
            kern2: None,
            kern2_gpos: false,
        }
    }
}

// ---------------------------------------------------------------------------------------------
// fault injection confined to the layout tables
// ---------------------------------------------------------------------------------------------

fn boundary16(rng: &mut Rng, old: u16, len: usize, num_glyphs: u16, kind: Kind) -> u16 {
    let l = len as u32;
    match rng.below(14) {
        0 => 0,
        1 => 1,
        2 => 0x7FFF,
        3 => 0x8000,
        4 => 0xFFFF,
        5 => l.wrapping_sub(1) as u16,
        6 => l.wrapping_add(1) as u16,
        7 => l as u16,
        8 => old.wrapping_add(1),
        9 => old.wrapping_sub(1),
        10 => match kind {
            Kind::Glyph => *rng.pick(&[num_glyphs, num_glyphs.wrapping_sub(1), num_glyphs.wrapping_add(1)]),
            Kind::Count => *rng.pick(&[old.wrapping_mul(2), old.wrapping_add(2), 0xFFFE]),
            Kind::Offset => *rng.pick(&[2u16, 4, 6, old.wrapping_add(2), old.wrapping_sub(2), l.wrapping_sub(2) as u16, l.wrapping_sub(4) as u16]),
            Kind::Class | Kind::Index => *rng.pick(&[old.wrapping_add(2), 0xFFFE, 2, 3]),
            Kind::Format => *rng.pick(&[2u16, 3, 4, 5, 6, 7, 8, 9]),
            _ => rng.u16(),
        },
        11 => rng.below(len.max(1)) as u16,
        _ => rng.u16(),
    }
}

/// Applies one fault to `data` (a layout table); returns (kind, description).
fn fault_table(rng: &mut Rng, tname: &str, data: &mut Vec<u8>, w: &Walked, num_glyphs: u16) -> (String, String) {
    let len = data.len();
    if len == 0 {
        return ("none".into(), "empty table".into());
    }
    let choice = rng.below(20);
    if choice < 13 && !w.sites.is_empty() {
        // field fault at a located site, biased towards deep structures
        let mut s = *rng.pick(&w.sites);
        for _ in 0..2 {
            let s2 = *rng.pick(&w.sites);
            if s2.depth > s.depth && rng.chance(2, 3) {
                s = s2;
            }
        }
        let at = s.at as usize;
        if at + s.w as usize > len {
            return ("none".into(), "site beyond (already truncated) table".into());
        }
        if s.kind == Kind::Offset && rng.chance(1, 4) {
            // offset confusion: copy the value of another offset field (points at a structure of another type)
            let others: Vec<&walk::Site> = w.sites.iter().filter(|o| o.kind == Kind::Offset && o.w == s.w && o.at != s.at && (o.at as usize + o.w as usize) <= len).collect();
            if !others.is_empty() {
                let o = *rng.pick(&others);
                let v: Vec<u8> = data[o.at as usize..o.at as usize + o.w as usize].to_vec();
                data[at..at + s.w as usize].copy_from_slice(&v);
                return ("offset-confusion".into(), format!("{} {}@{} := value of {}@{}", tname, s.what, at, o.what, o.at));
            }
        }
        if s.w == 2 {
            let old = u16::from_be_bytes([data[at], data[at + 1]]);
            let v = boundary16(rng, old, len, num_glyphs, s.kind);
            data[at..at + 2].copy_from_slice(&v.to_be_bytes());
            (format!("field-{}", s.kind.name()), format!("{} {}@{} (depth {}) {:#06x} -> {:#06x}", tname, s.what, at, s.depth, old, v))
        } else {
            let old = u32::from_be_bytes([data[at], data[at + 1], data[at + 2], data[at + 3]]);
            let v = match rng.below(10) {
                0 => 0,
                1 => 1,
                2 => 0x7FFF_FFFF,
                3 => 0x8000_0000,
                4 => 0xFFFF_FFFF,
                5 => len as u32 - 1,
                6 => len as u32 + 1,
                7 => old.wrapping_add(1),
                8 => old.wrapping_sub(1),
                _ => rng.below(len + 2) as u32,
            };
            data[at..at + 4].copy_from_slice(&v.to_be_bytes());
            (format!("field32-{}", s.kind.name()), format!("{} {}@{} (depth {}) {:#x} -> {:#x}", tname, s.what, at, s.depth, old, v))
        }
    } else if choice < 15 {
        // byte fault, next to a located site when there is one
        let at = if !w.sites.is_empty() && rng.bool() { (rng.pick(&w.sites).at as usize + rng.below(4)).min(len - 1) } else { rng.below(len) };
        let v = match rng.below(5) {
            0 => 0,
            1 => 0xFF,
            2 => 0x7F,
            3 => 0x80,
            _ => rng.u8(),
        };
        let old = data[at];
        data[at] = v;
        ("byte".into(), format!("{} byte@{} {:#04x} -> {:#04x}", tname, at, old, v))
    } else if choice < 17 {
        let n = 1 + rng.below(8);
        let mut d = Vec::new();
        for _ in 0..n {
            let at = rng.below(len);
            data[at] = rng.u8();
            d.push(at);
        }
        ("random-bytes".into(), format!("{} random bytes at {:?}", tname, d))
    } else if choice < 19 {
        // table length -1 / -k / at a structure start
        let cut = match rng.below(4) {
            0 => len - 1,
            1 => len.saturating_sub(1 + rng.below(8)),
            2 if !w.starts.is_empty() => (*rng.pick(&w.starts) as usize + rng.below(3)).min(len),
            _ => rng.below(len),
        };
        data.truncate(cut);
        ("truncate".into(), format!("{} truncated {} -> {}", tname, len, cut))
    } else {
        // table length +1..+3
        let n = 1 + rng.below(3);
        for _ in 0..n {
            data.push(rng.u8());
        }
        ("extend".into(), format!("{} extended by {}", tname, n))
    }
}

// ---------------------------------------------------------------------------------------------
// generated fonts
// ---------------------------------------------------------------------------------------------

fn fam_features(fam: Fam) -> (&'static [&'static [u8; 4]], &'static [&'static [u8; 4]]) {
    // (GSUB features the shaper applies, GPOS features it applies)
    match fam {
        Fam::Arabic => (&[b"ccmp", b"locl", b"isol", b"fina", b"medi", b"init", b"rlig", b"calt", b"liga", b"mset", b"rclt"], &[b"curs", b"kern", b"mark", b"mkmk"]),
        Fam::Syriac => (&[b"ccmp", b"locl", b"isol", b"fina", b"fin2", b"fin3", b"medi", b"med2", b"init", b"rlig", b"calt", b"liga"], &[b"curs", b"kern", b"mark", b"mkmk"]),
        Fam::Indic => (
            &[
                b"locl", b"ccmp", b"nukt", b"akhn", b"rphf", b"rkrf", b"pref", b"blwf", b"abvf", b"half", b"pstf", b"vatu", b"cjct", b"cfar", b"init", b"pres", b"abvs", b"blws",
                b"psts", b"haln", b"calt", b"clig",
            ],
            &[b"abvm", b"blwm", b"dist", b"kern", b"mark", b"mkmk"],
        ),
        Fam::Khmer => (&[b"locl", b"ccmp", b"pref", b"blwf", b"abvf", b"pstf", b"cfar", b"pres", b"abvs", b"blws", b"psts", b"clig", b"calt", b"liga"], &[b"abvm", b"blwm", b"dist", b"mark", b"mkmk"]),
        Fam::Myanmar => (&[b"locl", b"ccmp", b"rphf", b"pref", b"blwf", b"pstf", b"pres", b"abvs", b"blws", b"psts", b"liga", b"clig", b"calt", b"rlig"], &[b"dist", b"abvm", b"blwm", b"mark", b"mkmk", b"kern"]),
        Fam::Thai | Fam::Lao => (&[b"ccmp", b"locl", b"liga", b"clig", b"calt", b"rlig"], &[b"kern", b"mark", b"mkmk"]),
        Fam::Latin | Fam::Hebrew => (
            &[b"ccmp", b"locl", b"rlig", b"liga", b"clig", b"calt", b"frac", b"numr", b"dnom", b"afrc", b"smcp", b"c2sc", b"onum", b"lnum", b"zero", b"dlig", b"vert", b"vrt2", b"rvrn"],
            &[b"dist", b"kern", b"mark", b"mkmk", b"curs"],
        ),
    }
}

fn block_of(s: &Sc) -> (u32, u32) {
    match s.fam {
        Fam::Arabic => (0x600, 0x6FF),
        Fam::Syriac => (0x700, 0x74F),
        Fam::Indic => (s.base, s.base + 0x7F),
        Fam::Khmer => (0x1780, 0x17FF),
        Fam::Myanmar => (0x1000, 0x109F),
        Fam::Thai => (0xE00, 0xE7F),
        Fam::Lao => (0xE80, 0xEFF),
        Fam::Latin => (0xA0, 0x17F),
        Fam::Hebrew => (0x590, 0x5FF),
    }
}

impl C02 {
    fn gen_font(&self, cx: &mut Ctx, rng: &mut Rng, probe: bool) -> Option<FontCase> {
        let sc = if probe { &SCRIPTS[16] } else { &SCRIPTS[rng.below(SCRIPTS.len())] };
        let n: u16 = *rng.pick(&[24u16, 60, 130, 300, 700]);
        // cmap: ASCII, the script's block, a few specials
        let mut map = sfnt::cmap::Map::new();
        let mut next = 1u32;
        let mut add = |map: &mut sfnt::cmap::Map, c: u32| {
            let g = 1 + (next - 1) % (n as u32 - 1);
            next += 1;
            map.insert(c, g as u16);
        };
        for c in 0x20..0x7F {
            add(&mut map, c);
        }
        let (lo, hi) = block_of(sc);
        for c in lo..=hi {
            add(&mut map, c);
        }
        for c in [0x200C, 0x200D, 0x034F, 0x0300, 0x0301, 0x2044] {
            add(&mut map, c);
        }
        if rng.chance(3, 4) {
            add(&mut map, 0x25CC);
        }
        // hot characters: a few the text generator produces for this script + a few Latin ones
        let mut hot_chars: Vec<char> = Vec::new();
        let nh = 4 + rng.below(8);
        let mut guard = 0;
        while hot_chars.len() < nh && guard < 200 {
            guard += 1;
            let c = match rng.below(8) {
                0 | 1 => self.tg.mark(rng, sc),
                2 => *rng.pick(&['a', 'f', 'i', '1', '/', '2', ' ']),
                3 => *rng.pick(&['\u{200D}', '\u{200C}', '\u{25CC}']),
                _ => self.tg.base(rng, sc),
            };
            if map.contains_key(&(c as u32)) && !hot_chars.contains(&c) {
                hot_chars.push(c);
            }
        }
        if hot_chars.is_empty() {
            cx.inconclusive("generator:no-hot-chars");
            return None;
        }
        let hot: Vec<u16> = lay::cov_order(&hot_chars.iter().map(|c| map[&(*c as u32)]).collect::<Vec<_>>());
        let marks: Vec<u16> = hot.iter().copied().filter(|_| rng.chance(1, 3)).collect();
        let kind = *rng.pick(lay::PROGRAMS);
        let mut sinks: Vec<u16> = Vec::new();
        for g in (1..n).rev() {
            if !hot.contains(&g) && sinks.len() < 3 {
                sinks.push(g);
            }
        }
        if sinks.is_empty() {
            sinks.push(0);
        }
        let kind = if probe { "grow-probe" } else { kind };
        let mut pool = lay::Pool { hot, marks, sinks, n, wild: rng.chance(1, 3) && kind != "grow-probe", wrote_oob: false };
        let prog = lay::gen_program(rng, &mut pool, kind, 64);
        // features: every feature of the script family gets a few lookups; entry lookups are
        // guaranteed a feature
        let (gsub_feats, gpos_feats) = fam_features(sc.fam);
        let assign = |rng: &mut Rng, tags: &[&[u8; 4]], nlookups: usize, entry: &[u16], exclusive: &[u16]| -> Vec<(u32, Vec<u16>)> {
            let mut feats: Vec<(u32, Vec<u16>)> = Vec::new();
            if nlookups == 0 {
                return feats;
            }
            for tg in tags {
                if rng.chance(2, 3) {
                    let k = rng.below(3);
                    let lks: Vec<u16> = (0..k).map(|_| rng.below(nlookups) as u16).filter(|l| !exclusive.contains(l)).collect();
                    feats.push((t(tg), lks));
                }
            }
            if feats.is_empty() {
                feats.push((t(tags[0]), Vec::new()));
            }
            for &e in entry {
                let i = rng.below(feats.len());
                feats[i].1.push(e);
                if rng.chance(1, 3) && !exclusive.contains(&e) {
                    let j = rng.below(feats.len());
                    feats[j].1.push(e);
                }
            }
            feats
        };
        let gsub_features = assign(rng, gsub_feats, prog.gsub.len(), &prog.gsub_entry, &prog.exclusive);
        let gpos_features = assign(rng, gpos_feats, prog.gpos.len(), &prog.gpos_entry, &[]);
        let script_tags: Vec<u32> = {
            let mut v = vec![sc.tag];
            if rng.chance(1, 3) {
                v.push(t(b"DFLT"));
            }
            if sc.fam == Fam::Indic && rng.chance(1, 3) {
                // the "version 2" tag of the same script
                for x in EXTRA_TAGS.iter().take(10) {
                    if text::script_for_tag(t(x)).map(|s| s.tag) == Some(sc.tag) {
                        v.push(t(x));
                    }
                }
            }
            v
        };
        let lang = if rng.chance(1, 3) { Some(t(*rng.pick(&[b"URD ", b"SND ", b"MAR ", b"NEP ", b"ROM ", b"TRK ", b"dflt"]))) } else { None };
        let mk_scripts = |nfeat: usize, rng: &mut Rng| -> Vec<lay::ScriptDef> {
            script_tags
                .iter()
                .map(|&tag| {
                    let all: Vec<u16> = (0..nfeat as u16).collect();
                    let mut langs = vec![(None, all.clone())];
                    if let Some(l) = lang {
                        langs.push((Some(l), all.iter().copied().filter(|_| rng.chance(2, 3)).collect()));
                    }
                    lay::ScriptDef { tag, langs }
                })
                .collect()
        };
        let axes = if !probe && rng.chance(1, 3) { 1 + rng.below(3) } else { 0 };
        let mut f = sfnt::tables::minimal_font(Vec::new(), n, Some(0x20));
        if axes > 0 {
            f.sets("fvar", lay::fvar(rng, axes));
        }
        let groups = sfnt::cmap::groups12(&map, rng);
        let sub = sfnt::cmap::write_format12(&groups, 0);
        f.sets("cmap", sfnt::cmap::write_cmap(&[sfnt::cmap::Record { platform: 3, encoding: 10, subtable: 0 }], &[sub]));
        let use_morx = kind == "mixed" && rng.chance(1, 3);
        if use_morx {
            // no GSUB: allsorts then applies morx
            f.sets("morx", morx::gen_morx(rng, &pool.hot, n, pool.wild));
        } else if !prog.gsub.is_empty() {
            let sd = mk_scripts(gsub_features.len(), rng);
            let fv = if axes > 0 && rng.chance(3, 4) { Some(lay::feature_variations(rng, axes, gsub_features.len(), prog.gsub.len(), &prog.exclusive, pool.wild)) } else { None };
            match lay::layout_table(&sd, &gsub_features, &prog.gsub, false, fv) {
                Some(tb) => f.sets("GSUB", tb),
                None => {
                    cx.inconclusive("generator:table-too-big");
                    return None;
                }
            }
        }
        if !prog.gpos.is_empty() && !rng.chance(1, 8) {
            let sd = mk_scripts(gpos_features.len(), rng);
            let fv = if axes > 0 && rng.chance(1, 2) { Some(lay::feature_variations(rng, axes, gpos_features.len(), prog.gpos.len(), &[], pool.wild)) } else { None };
            match lay::layout_table(&sd, &gpos_features, &prog.gpos, true, fv) {
                Some(tb) => f.sets("GPOS", tb),
                None => {
                    cx.inconclusive("generator:table-too-big");
                    return None;
                }
            }
        }
        if rng.chance(1, 3) {
            f.sets("kern", morx::gen_kern(rng, &pool.hot, n, pool.wild));
        }
        if rng.chance(4, 5) || axes > 0 {
            let ivs = if axes > 0 { Some(lay::item_variation_store(rng, axes, pool.wild)) } else { None };
            f.sets("GDEF", lay::gdef(rng, &pool, &[], ivs));
        }
        let mut features: Vec<u32> = gsub_features.iter().map(|x| x.0).collect();
        features.extend(gpos_features.iter().map(|x| x.0));
        if probe {
            // only the features that carry the growth passes
            features = gsub_features.iter().filter(|f| f.1.iter().any(|l| prog.exclusive.contains(l))).map(|x| x.0).collect();
        }
        let chars: Vec<char> = map.keys().filter_map(|c| char::from_u32(*c)).collect();
        Some(FontCase {
            name: format!("generated:{}:{}", sc.name, kind),
            bytes: f.build(),
            kind: "generated",
            wellformed: !pool.wrote_oob && !use_morx,
            faults: Vec::new(),
            program: Some(if use_morx { "morx" } else { kind }),
            num_glyphs: n,
            axes,
            scripts: script_tags,
            langs: lang.into_iter().collect(),
            features,
            chars,
            hot_chars,
            aots: false,
            // "grow" programs: every pass is applied once, so the construction bound is exact; the
            // probe (64 characters, run from exhaustive()) is exempt
            growth: if probe { 1.0 } else { prog.growth },
            kern2: None,
            kern2_gpos: false,
        })
    }

    /// A font whose kerning comes from a generated `kern` table with a format 2 (class based)
    /// sub-table (see c02_kern.rs): no GSUB, no morx, no GPOS or a GPOS without a 'kern' feature, so
    /// that the `kern` fallback runs. Either a small generated font or a real seed font with its
    /// layout tables taken out and its `kern` table replaced. `hot_chars` map to the glyphs the class
    /// tables talk about.
    fn gen_kern2_font(&self, cx: &mut Ctx, rng: &mut Rng) -> Option<FontCase> {
        let real = !self.miri && !self.big.is_empty() && rng.chance(2, 5);
        if real {
            // ---- a real font (not the AOTS test fonts: some of their cmaps map beyond the glyph count) ----
            let mut found = None;
            for _ in 0..30 {
                let si = *rng.pick(&self.big);
                let s = &self.seeds[si];
                if s.tables.is_some() && s.num_glyphs > 1 && s.chars.len() >= 4 {
                    found = Some(si);
                    break;
                }
            }
            let si = match found {
                Some(si) => si,
                None => {
                    cx.inconclusive("kern2:no-seed-font");
                    return None;
                }
            };
            let s = &self.seeds[si];
            let mut tables = s.tables.clone()?;
            // glyph ids of a few mapped characters (independent cmap reader)
            let hot_chars: Vec<char> = {
                let cmap = tables.gets("cmap")?;
                let recs = sfnt::cmap::read_records(cmap)?;
                let (ri, _) = sfnt::cmap::select(&recs)?;
                let k = 2 + rng.below(9);
                let mut v: Vec<char> = Vec::new();
                if rng.chance(2, 3) {
                    // neighbours in code point order tend to have neighbouring glyph ids
                    let at = rng.below(s.chars.len());
                    v.extend(s.chars.iter().skip(at).take(k));
                } else {
                    for _ in 0..k {
                        v.push(*rng.pick(&s.chars));
                    }
                }
                v.retain(|c| sfnt::cmap::lookup(cmap, recs[ri].offset as usize, *c as u32).map_or(false, |g| g != 0));
                v
            };
            let hot: Vec<u16> = {
                let cmap = tables.gets("cmap")?;
                let recs = sfnt::cmap::read_records(cmap)?;
                let (ri, _) = sfnt::cmap::select(&recs)?;
                lay::cov_order(&hot_chars.iter().filter_map(|c| sfnt::cmap::lookup(cmap, recs[ri].offset as usize, *c as u32)).collect::<Vec<_>>())
            };
            if hot.is_empty() {
                cx.inconclusive("kern2:no-hot-chars");
                return None;
            }
            let k = kern::gen(rng, &hot, s.num_glyphs);
            let keep_gpos = tables.gets("GPOS").is_some() && !s.features.contains(&t(b"kern")) && rng.bool();
            for tname in ["GSUB", "morx", "kerx"] {
                tables.remove(sfnt::tag(tname));
            }
            if !keep_gpos {
                tables.remove(sfnt::tag("GPOS"));
            }
            if rng.bool() {
                tables.remove(sfnt::tag("GDEF"));
            }
            tables.sets("kern", k.bytes.clone());
            let mut fc = self.case_from_seed(si);
            fc.name = format!("kern2:{}", s.name);
            fc.kind = "kern2";
            fc.program = Some("kern2");
            fc.bytes = tables.build();
            fc.hot_chars = hot_chars;
            fc.kern2 = Some(k);
            fc.kern2_gpos = keep_gpos;
            if !fc.features.contains(&t(b"kern")) {
                fc.features.push(t(b"kern"));
            }
            if fc.scripts.is_empty() {
                fc.scripts = vec![t(b"latn"), t(b"DFLT")];
            }
            cx.class("kern2:font:real");
            return Some(fc);
        }
        // ---- a generated font ----
        let sc = if rng.chance(2, 3) { &SCRIPTS[16] } else { &SCRIPTS[rng.below(SCRIPTS.len())] };
        let n: u16 = *rng.pick(&[24u16, 60, 130, 300, 700, 3000]);
        let nh = 2 + rng.below(9);
        let mut hot_chars: Vec<char> = Vec::new();
        let mut guard = 0;
        while hot_chars.len() < nh && guard < 200 {
            guard += 1;
            let c = match rng.below(10) {
                0 => self.tg.mark(rng, sc),
                1 | 2 => *rng.pick(&['A', 'V', 'T', 'o', 'f', 'i', '1', '/', ' ', '.']),
                _ => self.tg.base(rng, sc),
            };
            if !hot_chars.contains(&c) {
                hot_chars.push(c);
            }
        }
        // glyph ids of the hot characters: next to each other (small class tables) or spread
        let mut map = sfnt::cmap::Map::new();
        let consecutive = rng.chance(2, 3);
        let g0 = 1 + rng.below((n as usize).saturating_sub(nh + 1).max(1)) as u16;
        for (i, c) in hot_chars.iter().enumerate() {
            let g = if consecutive { (g0 + i as u16).min(n - 1) } else { 1 + rng.below(n as usize - 1) as u16 };
            map.insert(*c as u32, g);
        }
        let mut next = 1u32;
        let (lo, hi) = block_of(sc);
        for c in (0x20..0x7F).chain(lo..=hi).chain([0x200C, 0x200D, 0x034F, 0x0300, 0x0301, 0x25CC]) {
            let g = 1 + (next - 1) % (n as u32 - 1);
            next += 1;
            map.entry(c).or_insert(g as u16);
        }
        let hot: Vec<u16> = lay::cov_order(&hot_chars.iter().map(|c| map[&(*c as u32)]).collect::<Vec<_>>());
        let k = kern::gen(rng, &hot, n);
        let mut f = sfnt::tables::minimal_font(Vec::new(), n, Some(0x20));
        let groups = sfnt::cmap::groups12(&map, rng);
        let sub = sfnt::cmap::write_format12(&groups, 0);
        f.sets("cmap", sfnt::cmap::write_cmap(&[sfnt::cmap::Record { platform: 3, encoding: 10, subtable: 0 }], &[sub]));
        f.sets("kern", k.bytes.clone());
        let mut scripts = vec![sc.tag];
        if sc.tag != t(b"latn") && rng.bool() {
            scripts.push(t(b"latn"));
        }
        let mut features = vec![t(b"kern")];
        let mut pool = lay::Pool { hot: hot.clone(), marks: Vec::new(), sinks: vec![0], n, wild: false, wrote_oob: false };
        let with_gpos = rng.chance(1, 3);
        if with_gpos {
            // a GPOS without a 'kern' feature: the `kern` table is used when 'kern' is asked for
            scripts.push(t(b"DFLT"));
            let tags: &[&[u8; 4]] = &[b"dist", b"mark", b"mkmk", b"curs", b"abvm", b"blwm", b"tst1"];
            let nl = rng.below(3);
            let lookups: Vec<lay::Lk> = (0..nl)
                .map(|_| {
                    let pair = rng.bool();
                    lay::Lk { ty: if pair { 2 } else { 1 }, flag: 0, mfs: 0, subs: vec![if pair { lay::gpos_pair(rng, &mut pool) } else { lay::gpos_single(rng, &mut pool) }], ext: rng.chance(1, 6) }
                })
                .collect();
            let mut feats: Vec<(u32, Vec<u16>)> = Vec::new();
            for tg in tags {
                if rng.chance(1, 3) {
                    feats.push((t(tg), (0..nl as u16).filter(|_| rng.bool()).collect()));
                }
            }
            if feats.is_empty() {
                feats.push((t(b"dist"), (0..nl as u16).collect()));
            }
            let sd: Vec<lay::ScriptDef> = scripts.iter().map(|&tag| lay::ScriptDef { tag, langs: vec![(None, (0..feats.len() as u16).collect())] }).collect();
            match lay::layout_table(&sd, &feats, &lookups, true, None) {
                Some(tb) => f.sets("GPOS", tb),
                None => {
                    cx.inconclusive("generator:table-too-big");
                    return None;
                }
            }
            features.extend(feats.iter().map(|x| x.0));
        }
        if rng.chance(1, 4) {
            f.sets("GDEF", lay::gdef(rng, &pool, &[], None));
        }
        cx.class("kern2:font:generated");
        let chars: Vec<char> = map.keys().filter_map(|c| char::from_u32(*c)).collect();
        Some(FontCase {
            name: format!("kern2:generated:{}", sc.name),
            bytes: f.build(),
            kind: "kern2",
            wellformed: !pool.wrote_oob,
            faults: Vec::new(),
            program: Some("kern2"),
            num_glyphs: n,
            axes: 0,
            scripts,
            langs: Vec::new(),
            features,
            chars,
            hot_chars,
            aots: false,
            growth: 1.0,
            kern2: Some(k),
            kern2_gpos: with_gpos,
        })
    }
}

// ---------------------------------------------------------------------------------------------
// per-call parameters
// ---------------------------------------------------------------------------------------------

const KNOWN_FEATURES: &[&[u8; 4]] = &[
    b"aalt", b"salt", b"ss01", b"ss02", b"cv01", b"swsh", b"titl", b"nalt", b"hist", b"liga", b"dlig", b"calt", b"kern", b"mark", b"mkmk", b"curs", b"frac", b"numr", b"dnom", b"smcp", b"vert",
    b"vrt2", b"fina", b"init", b"medi", b"isol", b"rvrn", b"locl", b"ccmp", b"rlig", b"sups", b"subs", b"ordn", b"zero", b"case", b"cpsp", b"rphf", b"half", b"pres", b"abvm", b"blwm", b"dist",
];

fn gen_features(rng: &mut Rng, fc: &FontCase, cx: &mut Ctx) -> Features {
    if rng.chance(3, 5) {
        cx.class("features:mask");
        let all = FeatureMask::all().bits();
        let bits = match rng.below(10) {
            0 | 1 => FeatureMask::default().bits(),
            2 => all,
            3 => 0,
            4 => FeatureMask::default().bits() | FeatureMask::FRAC.bits(),
            5 => rng.u64() & rng.u64() & all,
            6 => (rng.u64() | rng.u64()) & all,
            7 => (1u64 << rng.below(46)) & all,
            _ => rng.u64() & all,
        };
        let mut m = FeatureMask::from_bits_truncate(bits);
        if rng.chance(1, 5) {
            // the fraction path applies lookups to sub-ranges of the run
            m |= FeatureMask::FRAC;
        }
        if m.contains(FeatureMask::FRAC) {
            cx.class("features:mask-frac");
        }
        Features::Mask(m)
    } else {
        cx.class("features:custom");
        let n = rng.small(10);
        let mut v = Vec::new();
        for _ in 0..n {
            let feature_tag = match rng.below(10) {
                0..=5 if !fc.features.is_empty() => *rng.pick(&fc.features),
                6 | 7 | 8 => t(*rng.pick(KNOWN_FEATURES)),
                _ => rng.u32(),
            };
            let alternate = match rng.below(10) {
                0..=4 => None,
                5..=7 => Some(rng.below(5)),
                8 => Some(rng.below(70000)),
                _ => Some(usize::MAX),
            };
            if alternate.is_some() {
                cx.class("features:custom-alternate");
            }
            v.push(FeatureInfo { feature_tag, alternate });
        }
        Features::Custom(v)
    }
}

fn tuple_values(rng: &mut Rng, axes: usize, cx: &mut Ctx) -> Vec<F2Dot14> {
    let mut out_of_range = false;
    let v = (0..axes)
        .map(|_| {
            let raw: i16 = match rng.below(12) {
                0 | 1 => 0,
                2 => 16384,
                3 => -16384,
                4 => 1,
                5 => -1,
                6 if rng.chance(1, 4) => {
                    out_of_range = true;
                    *rng.pick(&[i16::MAX, i16::MIN, 16385, -16385])
                }
                _ => rng.range(-16384, 16384) as i16,
            };
            F2Dot14::from_raw(raw)
        })
        .collect();
    if out_of_range {
        cx.class("tuple:out-of-range-value");
    }
    v
}

fn chars_hex(cs: &[char]) -> String {
    cs.iter().map(|c| format!("{:04X}", *c as u32)).collect::<Vec<_>>().join(" ")
}

struct Call {
    text: Vec<char>,
    script: u32,
    lang: Option<u32>,
    features: Features,
    tuple: Option<Vec<F2Dot14>>,
    kerning: bool,
    rtl: bool,
    vertical: bool,
    presentation_required: bool,
    direct: bool,
}

impl Call {
    fn json(&self, fc: &FontCase) -> J {
        J::obj(vec![
            ("font", J::s(fc.name.clone())),
            ("font_kind", J::s(fc.kind)),
            ("faults", J::A(fc.faults.iter().map(|f| J::s(f.clone())).collect())),
            ("program", fc.program.map_or(J::Null, J::s)),
            ("text", J::s(chars_hex(&self.text))),
            ("script", J::s(tag_str(self.script))),
            ("lang", self.lang.map_or(J::Null, |l| J::s(tag_str(l)))),
            ("features", J::s(format!("{:?}", self.features).chars().take(400).collect::<String>())),
            ("tuple", self.tuple.as_ref().map_or(J::Null, |t| J::s(format!("{:?}", t)))),
            ("kerning", J::Bool(self.kerning)),
            ("rtl", J::Bool(self.rtl)),
            ("vertical", J::Bool(self.vertical)),
            ("direct_glyph_run", J::Bool(self.direct)),
        ])
    }
}

impl C02 {
    fn gen_call(&self, cx: &mut Ctx, rng: &mut Rng, fc: &FontCase) -> Call {
        // script tag
        let script = match rng.below(20) {
            0..=12 if !fc.scripts.is_empty() => *rng.pick(&fc.scripts),
            13 | 14 | 15 => SCRIPTS[rng.below(SCRIPTS.len())].tag,
            16 | 17 => t(*rng.pick(EXTRA_TAGS)),
            18 => rng.u32(),
            _ => {
                if fc.scripts.is_empty() {
                    t(b"latn")
                } else {
                    *rng.pick(&fc.scripts)
                }
            }
        };
        // the script whose text is generated: usually the one the tag selects, sometimes not
        let tag_sc = text::script_for_tag(script);
        let text_sc: &Sc = match tag_sc {
            Some(s) if !rng.chance(1, 7) => s,
            _ => {
                cx.class("script-text-mismatch");
                &SCRIPTS[rng.below(SCRIPTS.len())]
            }
        };
        let mut text = if rng.chance(1, 25) {
            cx.class("text:arbitrary-code-points");
            self.tg.gen_arbitrary(rng)
        } else {
            self.tg.gen(rng, text_sc)
        };
        // mix in characters the font maps / the generated lookups talk about
        let pool: &[char] = if !fc.hot_chars.is_empty() { &fc.hot_chars } else { &fc.chars };
        let mix = if !fc.hot_chars.is_empty() {
            rng.chance(4, 5)
        } else if fc.aots {
            rng.chance(5, 6)
        } else {
            rng.chance(1, 4)
        };
        if mix && !pool.is_empty() && !text.is_empty() {
            let dense = rng.bool();
            for i in 0..text.len() {
                if rng.chance(if dense { 3 } else { 1 }, 4) {
                    text[i] = *rng.pick(pool);
                }
            }
            cx.class("text:font-characters-mixed-in");
        } else if mix && !pool.is_empty() && rng.bool() {
            text.push(*rng.pick(pool));
        }
        let features = gen_features(rng, fc, cx);
        if let Features::Mask(m) = &features {
            if m.contains(FeatureMask::FRAC) && rng.chance(2, 3) {
                for _ in 0..1 + rng.small(2) {
                    let at = rng.below(text.len() + 1);
                    let pat: Vec<char> = rng.pick(&["1/2", "3/45", "12/3", "1/2/3", "/1", "1/", "1/2 3/4", "11/22"]).chars().collect();
                    for (k, c) in pat.iter().enumerate() {
                        text.insert(at + k, *c);
                    }
                }
                text.truncate(64);
                cx.class("text:fraction-pattern");
            }
        }
        let lang = match rng.below(10) {
            0..=4 => None,
            5 | 6 | 7 if !fc.langs.is_empty() => Some(*rng.pick(&fc.langs)),
            8 => Some(t(*rng.pick(&[b"URD ", b"ARA ", b"HIN ", b"MAR ", b"ENG ", b"TRK ", b"dflt", b"DFLT", b"ZHS ", b"\0\0\0\0"]))),
            _ => Some(rng.u32()),
        };
        let tuple = if fc.axes > 0 && rng.chance(3, 4) { Some(tuple_values(rng, fc.axes, cx)) } else { None };
        if fc.program == Some("grow-probe") && !fc.hot_chars.is_empty() && !fc.scripts.is_empty() {
            // the growth probe: as many growing glyphs as a 64-character text can hold, all features on
            return Call {
                text: (0..64).map(|_| *rng.pick(&fc.hot_chars)).collect(),
                script: fc.scripts[0],
                lang: None,
                features: Features::Custom(fc.features.iter().map(|&feature_tag| FeatureInfo { feature_tag, alternate: None }).collect()),
                tuple: None,
                kerning: false,
                rtl: false,
                vertical: false,
                presentation_required: false,
                direct: false,
            };
        }
        let mut text = text;
        let mut kerning = rng.bool();
        if fc.kern2.is_some() && !fc.hot_chars.is_empty() {
            // adjacent pairs of the glyphs the class tables talk about, kerning asked for
            if rng.chance(3, 4) {
                let long = rng.chance(1, 8);
                let n = 2 + rng.below(if long { 63 } else { 15 });
                text = (0..n).map(|_| if rng.chance(7, 8) || fc.chars.is_empty() { *rng.pick(&fc.hot_chars) } else { *rng.pick(&fc.chars) }).collect();
                cx.class("kern2:text-of-class-table-glyphs");
            }
            if !rng.chance(1, 8) {
                kerning = true;
            }
        }
        Call {
            text,
            script,
            lang,
            features,
            tuple,
            kerning,
            rtl: rng.bool(),
            vertical: rng.chance(1, 3),
            presentation_required: rng.chance(1, 5),
            direct: fc.aots && fc.num_glyphs > 0 && rng.chance(1, 4),
        }
    }
}

fn placement_kind(p: &Placement) -> Option<(&'static str, usize)> {
    match p {
        Placement::None | Placement::Distance(..) => None,
        Placement::MarkAnchor(i, _, _) => Some(("MarkAnchor", *i)),
        Placement::MarkOverprint(i) => Some(("MarkOverprint", *i)),
        Placement::CursiveAnchor(i, _, _, _) => Some(("CursiveAnchor", *i)),
    }
}

/// Invariants (a)-(c) on a returned run. `err_run` = the best-effort run of `Err((e, infos))`.
fn check_run(cx: &mut Ctx, fc: &FontCase, call: &Call, infos: &[Info], submitted: &HashSet<char>, err_run: bool) {
    let prefix = if err_run { "err-run:" } else { "" };
    let mut reported = [false; 3];
    for (i, info) in infos.iter().enumerate() {
        if let Some((kind, idx)) = placement_kind(&info.placement) {
            cx.class(match kind {
                "MarkAnchor" => "placement:mark-anchor",
                "MarkOverprint" => "placement:mark-overprint",
                _ => "placement:cursive-anchor",
            });
            if idx >= infos.len() && !reported[0] {
                reported[0] = true;
                let mut d = vec![("call", call.json(fc))];
                d.push(("position", J::U(i as u64)));
                d.push(("attachment_index", J::U(idx as u64)));
                d.push(("run_len", J::U(infos.len() as u64)));
                cx.violation(if err_run { "inv-e-err-run" } else { "inv-a-attachment" }, &format!("{}attachment-index-outside-run:{}", prefix, kind), J::obj(d));
            }
        }
        if !reported[1] {
            for c in info.glyph.unicodes.iter() {
                if *c != DOTTED_CIRCLE && !submitted.contains(c) {
                    reported[1] = true;
                    let d = vec![
                        ("call", call.json(fc)),
                        ("position", J::U(i as u64)),
                        ("foreign_char", J::s(format!("{:04X}", *c as u32))),
                        ("glyph", J::s(format!("{:?}", info.glyph).chars().take(300).collect::<String>())),
                    ];
                    cx.violation(if err_run { "inv-e-err-run" } else { "inv-b-unicodes" }, &format!("{}char-not-in-submitted-run", prefix), J::obj(d));
                    break;
                }
            }
        }
        if fc.wellformed && info.glyph.glyph_index >= fc.num_glyphs && !reported[2] {
            reported[2] = true;
            let d = vec![("call", call.json(fc)), ("position", J::U(i as u64)), ("glyph_index", J::U(info.glyph.glyph_index as u64)), ("num_glyphs", J::U(fc.num_glyphs as u64))];
            cx.violation(if err_run { "inv-e-err-run" } else { "inv-c-glyph-range" }, &format!("{}glyph-id-beyond-glyph-count", prefix), J::obj(d));
        }
    }
}

impl C02 {
    fn run_font(&self, cx: &mut Ctx, rng: &mut Rng, fc: &FontCase, ncalls: usize) {
        let len = fc.bytes.len();
        let fd = match ReadScope::new(&fc.bytes).read::<FontData<'_>>() {
            Ok(f) => f,
            Err(_) => {
                cx.class("font-not-loadable");
                return;
            }
        };
        let provider = match fd.table_provider(0) {
            Ok(p) => p,
            Err(_) => {
                cx.class("font-not-loadable");
                return;
            }
        };
        let font = match cx.guard("Font::new", len, || Font::new(provider)) {
            Some(Ok(f)) => f,
            _ => {
                cx.class("font-not-loadable");
                return;
            }
        };
        let mut font = font;
        cx.class(&format!("font:{}", fc.kind));
        if let (Ok(path), true) = (std::env::var("C02_DUMP_FONT"), fc.program.is_some()) {
            let _ = std::fs::write(path, &fc.bytes);
        }
        if let Some(p) = fc.program {
            cx.class(&format!("prog:{}", p));
        }
        if let Some(k) = &fc.kern2 {
            cx.class(if fc.kern2_gpos { "kern2:font-with-gpos-without-kern-feature" } else { "kern2:font-without-gpos" });
            for w in &k.what {
                cx.class(w);
            }
            if k.certain().is_some() {
                cx.class("kern2:font-with-reachable-format2-subtable");
            }
            if k.format0 > 0 {
                cx.class("kern2:font-with-format0-next-to-format2");
            }
        }
        // fvar for tuples (never faulted here)
        let fvar_data = if fc.axes > 0 { font.font_table_provider.read_table_data(allsorts::tag::FVAR).ok().map(|c| c.into_owned()) } else { None };
        for _ in 0..ncalls {
            let call = self.gen_call(cx, rng, fc);
            self.run_call(cx, &mut font, fc, &call, fvar_data.as_deref(), rng);
        }
    }

    fn run_call<T: FontTableProvider>(&self, cx: &mut Ctx, font: &mut Font<T>, fc: &FontCase, call: &Call, fvar_data: Option<&[u8]>, rng: &mut Rng) {
        let len = fc.bytes.len() + call.text.len();
        let text_s: String = call.text.iter().collect();
        let mp = if call.presentation_required { MatchingPresentation::Required } else { MatchingPresentation::NotRequired };
        let script = call.script;
        if call.text.len().max(8) as f64 * fc.growth > GROWTH_LIMIT {
            // exponential growth of the run is a recorded limitation of allsorts (no limit on the
            // run length), not something this check judges: keep it out of the workload
            cx.class("skipped:growth-potential");
            return;
        }
        cx.class("calls");
        if cx.verbose {
            eprintln!("CALL {}", call.json(fc).to_string());
        }
        // ---- map_glyphs ----
        let glyphs: Vec<RawGlyph<()>> = if call.direct {
            cx.class("direct-glyph-run");
            call.text
                .iter()
                .map(|&ch| RawGlyph {
                    unicodes: tiny_vec![[char; 1] => ch],
                    glyph_index: rng.below(fc.num_glyphs as usize) as u16,
                    liga_component_pos: 0,
                    glyph_origin: GlyphOrigin::Char(ch),
                    flags: RawGlyphFlags::empty(),
                    extra_data: (),
                    variation: None,
                })
                .collect()
        } else {
            match cx.guard("map_glyphs", len, || font.map_glyphs(&text_s, script, mp)) {
                Some(g) => g,
                None => return,
            }
        };
        let mut submitted: HashSet<char> = HashSet::new();
        for g in &glyphs {
            submitted.extend(g.unicodes.iter().copied());
        }
        if !call.direct {
            // map_glyphs itself: every glyph carries characters of the (preprocessed) text; checked
            // loosely here (C17 judges preprocessing): at most the text's characters + dotted circle
            if glyphs.iter().any(|g| g.unicodes.is_empty()) {
                cx.class("map_glyphs:glyph-without-unicodes");
            }
        }
        let before: Vec<u16> = glyphs.iter().map(|g| g.glyph_index).collect();
        // ---- what the adjacent pairs of the run select in a generated format 2 kern sub-table ----
        // (counted before shaping: the font has no GSUB / morx, so this is the run that is kerned;
        // without a GPOS table the kern table is applied unconditionally)
        let mut kern2_end_pair = false;
        let kern2_prefix = if fc.kern2_gpos { "kern2-gpos-without-kern" } else { "kern2" };
        if let Some(k) = &fc.kern2 {
            if k.certain().is_some() {
                cx.class(&format!("{}:call-with-reachable-format2-subtable", kern2_prefix));
            }
            for c in kern::pair_classes(k, &before) {
                // with a GPOS table the kern table is consulted only when 'kern' is asked for
                let c = if fc.kern2_gpos { c.replace("pair-looked-up-", "pair-") } else { c.to_string() };
                cx.class(&format!("{}:{}", kern2_prefix, c));
                if c.ends_with("at-array-end") || c.ends_with("at-array-last-byte") {
                    kern2_end_pair = true;
                }
            }
        }
        // ---- tuple ----
        let owned;
        let tuple = match (&call.tuple, fvar_data) {
            (Some(vals), Some(fd)) => match ReadScope::new(fd).read::<FvarTable<'_>>() {
                Ok(fvar) => match fvar.owned_tuple(vals) {
                    Some(t) => {
                        owned = t;
                        cx.class("tuple:used");
                        Some(owned.as_tuple())
                    }
                    None => {
                        cx.class("tuple:axis-count-mismatch");
                        None
                    }
                },
                Err(_) => None,
            },
            _ => None,
        };
        // ---- shape ----
        let shape_guard = if fc.program == Some("grow-probe") { "shape:growth-probe" } else { "shape" };
        let t_shape = thread_cpu_ns();
        let r = cx.guard(shape_guard, len, || font.shape(glyphs, script, call.lang, &call.features, tuple, call.kerning));
        let shape_ms = thread_cpu_ns().saturating_sub(t_shape) / 1_000_000;
        if shape_ms >= 500 {
            cx.class(if shape_ms >= 2000 { "shape-cpu>=2s" } else if shape_ms >= 1000 { "shape-cpu>=1s" } else { "shape-cpu>=0.5s" });
        }
        let (infos, was_err) = match r {
            None => return,
            Some(Ok(i)) => {
                cx.class("shape:ok");
                (i, false)
            }
            Some(Err((e, i))) => {
                cx.class("shape:err-with-best-effort-run");
                cx.class(&format!("shape-error:{}", normalise_digits(&format!("{:?}", e)).chars().take(40).collect::<String>()));
                (i, true)
            }
        };
        check_run(cx, fc, call, &infos, &submitted, was_err);
        // ---- glyph_positions ----
        let dir = if call.rtl { TextDirection::RightToLeft } else { TextDirection::LeftToRight };
        let vertical = call.vertical;
        if fc.program == Some("grow-probe") {
            // the probe is about the growth of the run only
            cx.class_n("growth-probe:glyphs-out", infos.len() as u64);
            cx.class_n("growth-probe:glyphs-in", before.len() as u64);
            return;
        }
        let pos = cx.guard("glyph_positions", len, || GlyphLayout::new(font, &infos, dir, vertical).glyph_positions());
        match pos {
            None => {}
            Some(Ok(v)) => {
                cx.class("glyph_positions:ok");
                if v.len() != infos.len() {
                    cx.violation(
                        "inv-d-positions-len",
                        "positions-length-differs-from-run",
                        J::obj(vec![("call", call.json(fc)), ("positions", J::U(v.len() as u64)), ("run_len", J::U(infos.len() as u64))]),
                    );
                }
            }
            Some(Err(_)) => cx.class("glyph_positions:err"),
        }
        // ---- classes / non-triviality ----
        let sname = text::script_for_tag(script).map_or("other", |s| s.name);
        cx.class(&format!("script:{}", sname));
        if call.rtl {
            cx.class("direction:rtl");
        }
        if call.vertical {
            cx.class("vertical");
        }
        if call.text.is_empty() {
            cx.class("text:empty");
        }
        if call.text.len() == 1 {
            cx.class("text:one-char");
        }
        if call.text.len() > 64 {
            cx.class("text:longer-than-64");
        }
        let after: Vec<u16> = infos.iter().map(|i| i.glyph.glyph_index).collect();
        let mut changed = false;
        if after.len() != before.len() {
            cx.class(if after.len() > before.len() { "changed:run-grew" } else { "changed:run-shrank" });
            changed = true;
        } else if after != before {
            let mut a = after.clone();
            let mut b = before.clone();
            a.sort();
            b.sort();
            cx.class(if a == b { "changed:reordered" } else { "changed:substituted" });
            changed = true;
        }
        if !submitted.contains(&DOTTED_CIRCLE) && infos.iter().any(|i| i.glyph.unicodes.contains(&DOTTED_CIRCLE)) {
            cx.class("changed:dotted-circle-inserted");
            changed = true;
        }
        if infos.iter().any(|i| i.placement != Placement::None) {
            changed = true;
            if infos.iter().any(|i| matches!(i.placement, Placement::Distance(..))) {
                cx.class("placement:distance");
            }
        }
        if infos.iter().any(|i| i.kerning != 0) {
            cx.class("kerning-nonzero");
            if fc.kern2.is_some() {
                // a kerning value is an adjustment of the placement
                changed = true;
            }
        }
        if let Some(k) = &fc.kern2 {
            // evidence that the format 2 values are what gets applied: a pair for which the
            // generator's description holds a non-zero value came back with a non-zero kerning
            if !was_err && infos.len() == before.len() && infos.iter().zip(&before).all(|(i, b)| i.glyph.glyph_index == *b) {
                let valued = kern::valued_pairs(k, &before);
                if !valued.is_empty() {
                    cx.class(&format!("{}:run-with-valued-pair", kern2_prefix));
                    if valued.iter().any(|&i| infos[i].kerning != 0) {
                        cx.class(&format!("{}:format2-value-observed-in-run", kern2_prefix));
                        if kern2_end_pair {
                            // the kern table was applied to this very run, so the pair at the end
                            // of the array was looked up as well
                            cx.class(&format!("{}:array-end-pair-in-run-with-observed-format2-value", kern2_prefix));
                        }
                    }
                }
            }
        }
        if infos.len() > 1000 {
            cx.class("run>1000-glyphs");
        }
        if changed {
            cx.class(&format!("nontrivial:{}", fc.kind));
            if was_err {
                cx.class("nontrivial:err-run");
            }
            let h = mix(mix(hash_str(&fc.name), hash_str(&fc.faults.join("|"))), mix(hash_str(&text_s), mix(script as u64, hash_str(&format!("{:?}{:?}", call.features, call.lang)))));
            cx.nontrivial(h);
            let sample_this = rng.chance(1, 50); // drawn unconditionally: the case must replay from its seed
            if sample_this && cx.want_sample() {
                cx.sample(J::obj(vec![("call", call.json(fc)), ("run_in", J::U(before.len() as u64)), ("run_out", J::U(after.len() as u64)), ("shape_err", J::Bool(was_err))]));
            }
        }
    }
}

impl Prop for C02 {
    fn exhaustive(&mut self, cx: &mut Ctx, shard: u64, of: u64) {
        // every clean seed font once with its own scripts (so that each shaper is reached in every run)
        if self.miri {
            return;
        }
        let mut rng = Rng::new(0xC02);
        if shard == 0 && cx.mode != "noprobe" {
            // the growth probe (one per run): two passes of a multiple substitution that maps every
            // glyph of a 64-character text to ~31 glyphs
            cx.case_seed = 0xFFFD_0000;
            cx.evals += 1;
            let mut r = Rng::new(0xC02_0001);
            if let Some(fc) = self.gen_font(cx, &mut r, true) {
                self.run_font(cx, &mut r, &fc, 1);
            }
        }
        for si in 0..self.seeds.len() {
            if si as u64 % of != shard || !self.seeds[si].has_layout || (self.seeds[si].aots && si % 8 != 0) {
                continue;
            }
            cx.case_seed = 0xFFFE_0000 + si as u64;
            cx.evals += 1;
            let mut fc = self.case_from_seed(si);
            fc.bytes = self.seeds[si].data.clone();
            let mut r = rng.fork();
            self.run_font(cx, &mut r, &fc, 3);
        }
    }

    fn case(&mut self, cx: &mut Ctx, rng: &mut Rng) {
        if self.seeds.is_empty() {
            cx.inconclusive("no-seed-fonts");
            return;
        }
        let ncalls = if self.miri { 2 } else { 2 + rng.below(6) };
        let which = rng.below(100);
        let fc = if which < 25 {
            // (i) real font, unfaulted
            let si = match self.pick_seed(rng, false) {
                Some(i) => i,
                None => return cx.inconclusive("no-seed-font"),
            };
            let mut fc = self.case_from_seed(si);
            fc.bytes = self.seeds[si].data.clone();
            fc
        } else if which < 70 {
            // (ii) real font, faults confined to the layout tables
            let si = match self.pick_seed(rng, true) {
                Some(i) => i,
                None => return cx.inconclusive("no-seed-font-with-layout-tables"),
            };
            let mut fc = self.case_from_seed(si);
            let mut tables = match self.seeds[si].tables.clone() {
                Some(t) => t,
                None => return cx.inconclusive("seed-without-tables"),
            };
            // (a plain loop: the iterator-adapter form of this line draws a false stack-use-after-scope
            // report from the ASan build of this nightly)
            let mut present: Vec<&'static str> = Vec::new();
            for t in LAYOUT_TABLES.iter() {
                if tables.gets(t).is_some() {
                    present.push(*t);
                }
            }
            let nf = 1 + rng.small(3);
            for _ in 0..nf {
                let tname = *rng.pick(&present);
                let tname = if rng.chance(1, 2) && present.contains(&"GSUB") { "GSUB" } else { tname };
                let w = match self.walked(si, tname) {
                    Some(w) => w,
                    None => continue,
                };
                let mut d = tables.gets(tname).map(|d| d.to_vec()).unwrap_or_default();
                let (kind, desc) = fault_table(rng, tname, &mut d, &w, fc.num_glyphs);
                tables.sets(tname, d);
                cx.class(&format!("fault:{}", kind));
                cx.class(&format!("fault-table:{}", tname));
                if desc.contains("(depth ") {
                    let depth: usize = desc.split("(depth ").nth(1).and_then(|s| s.split(')').next()).and_then(|s| s.parse().ok()).unwrap_or(0);
                    if depth >= 4 {
                        cx.class("fault-depth>=4");
                    }
                    if depth >= 6 {
                        cx.class("fault-depth>=6");
                    }
                }
                fc.faults.push(desc);
            }
            fc.kind = "real-faulted";
            fc.wellformed = false;
            let p = tables.gets("GSUB").map_or(1.0, walk::growth_potential);
            // a fault that leaves the (over-approximated) potential of the clean font about
            // unchanged has not made the font grow runs
            fc.growth = if p <= 2.0 * self.seeds[si].potential { p.min(8.0) } else { p };
            fc.bytes = tables.build();
            fc
        } else if which >= 94 {
            // (iv) kerning from a generated `kern` table with a format 2 (class based) sub-table
            match self.gen_kern2_font(cx, rng) {
                Some(f) => f,
                None => return,
            }
        } else {
            // (iii) generated font with a hostile lookup program, a third of them faulted as well
            let mut fc = match self.gen_font(cx, rng, false) {
                Some(f) => f,
                None => return,
            };
            if !fc.program.map_or(false, |p| p.starts_with("grow")) {
                // "grow" programs are bounded by construction (every pass applied once)
                if let Some(tables) = sfnt::Font::parse(&fc.bytes) {
                    fc.growth = tables.gets("GSUB").map_or(1.0, walk::growth_potential);
                }
            }
            if rng.chance(1, 3) {
                if let Some(mut tables) = sfnt::Font::parse(&fc.bytes) {
                    let mut present: Vec<&'static str> = Vec::new();
                    for t in LAYOUT_TABLES.iter() {
                        if tables.gets(t).is_some() {
                            present.push(*t);
                        }
                    }
                    if !present.is_empty() {
                        for _ in 0..1 + rng.small(2) {
                            let tname = *rng.pick(&present);
                            let mut d = tables.gets(tname).map(|d| d.to_vec()).unwrap_or_default();
                            let w = walk::walk(tname, &d);
                            let (kind, desc) = fault_table(rng, tname, &mut d, &w, fc.num_glyphs);
                            tables.sets(tname, d);
                            cx.class(&format!("fault:{}", kind));
                            cx.class(&format!("fault-table:{}", tname));
                            fc.faults.push(desc);
                        }
                        fc.kind = "generated-faulted";
                        fc.wellformed = false;
                        fc.growth = tables.gets("GSUB").map_or(1.0, walk::growth_potential);
                        fc.bytes = tables.build();
                    }
                }
            }
            fc
        };
        self.run_font(cx, rng, &fc, ncalls);
    }
}
