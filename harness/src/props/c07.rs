//! C07 — subsetting preserves the outlines and metrics of retained glyphs.
//!
//! Conservation oracle: the source font and allsorts' subset are both read by the independent
//! glyf/loca/hmtx reader; output glyph k must be source glyph ids[k], composites must agree after
//! mapping component ids new -> old, extra glyphs must be exactly the pulled-in components, and
//! every output glyph keeps its advance and left side bearing. CFF / CFF2 sources: allsorts' own
//! charstring interpreter with a recording sink on both sides (C18 judges the interpreter), the
//! advance width each charstring declares (independent Type 2 scanner) and hmtx.

#[path = "c07_common.rs"]
pub mod common;

use super::Prop;
use crate::rt::*;
use crate::sfnt::cff_c07;
use crate::sfnt::glyf::{self as ig, Glyph};
use crate::sfnt::tables as it;
use crate::sfnt::{self};
use allsorts::binary::read::ReadScope;
use allsorts::cff::cff2::CFF2;
use allsorts::cff::outline::CFF2Outlines;
use allsorts::cff::CFF;
use allsorts::outline::OutlineBuilder;
use common::*;
use std::collections::HashMap;
use std::rc::Rc;

pub struct C07 {
    w: Workload,
}

impl C07 {
    pub fn new(cx: &mut Ctx) -> C07 {
        C07 { w: Workload::new(cx) }
    }
}

/// Build a subsetting case (shared by C07 and C08; C09 adds whole_font / instance).
pub fn subset_case(w: &mut Workload, cx: &mut Ctx, rng: &mut Rng, cats: [u32; 6], want: Option<CmapScenario>) -> Option<(Case, Option<GenInfo>)> {
    let (src, info) = w.pick_src(cx, rng, cats, want)?;
    let (ids, id_mode) = gen_ids(&src, rng, cx.quick());
    let op = if rng.chance(2, 5) { Op::Subset } else { Op::Prince { target: gen_target(rng, &ids), cid_threshold: rng.bool() } };
    let choice = match rng.below(6) {
        0 => 1,
        1 | 2 => 2,
        _ => 0,
    };
    let (container, bytes) = wrap(&src, rng, choice);
    Some((Case { src, ids, id_mode, op, container, bytes }, info))
}

pub struct OutTt {
    pub font: sfnt::Font,
    pub n: usize,
    pub loca: Vec<u32>,
    pub metrics: Vec<(u16, i16)>,
}

impl OutTt {
    pub fn glyph(&self, g: usize) -> Option<(Glyph, ig::BBox)> {
        let glyf = self.font.gets("glyf")?;
        ig::read_glyph(glyf.get(*self.loca.get(g)? as usize..*self.loca.get(g + 1)? as usize)?)
    }
}

/// Read the TrueType output with the independent reader. Err(sig, detail) when it cannot be read.
pub fn read_out_tt(out: &[u8]) -> Result<OutTt, (&'static str, String)> {
    let font = sfnt::Font::parse(out).ok_or(("output-unparsable", "table directory".to_string()))?;
    let need = |t: &str| font.gets(t).ok_or(("output-table-missing", format!("table {} missing", t)));
    let n = it::maxp_num_glyphs(need("maxp")?).ok_or(("output-unparsable", "maxp".to_string()))? as usize;
    let head = it::Head::read(need("head")?).ok_or(("output-unparsable", "head".to_string()))?;
    let loca = ig::read_loca(need("loca")?, n, head.index_to_loc_format != 0).ok_or(("output-loca-too-short", format!("loca for {} glyphs", n)))?;
    let glyf = need("glyf")?;
    for w in loca.windows(2) {
        if w[1] < w[0] || w[1] as usize > glyf.len() {
            return Err(("output-loca-inconsistent", format!("offsets {}..{} glyf {}", w[0], w[1], glyf.len())));
        }
    }
    let nhm = it::Hhea::read(need("hhea")?).ok_or(("output-unparsable", "hhea".to_string()))?.num_h_metrics as usize;
    let metrics = it::read_hmtx(need("hmtx")?, n, nhm).ok_or(("output-hmtx-too-short", format!("hmtx for {} glyphs / {} long metrics", n, nhm)))?;
    Ok(OutTt { font, n, loca, metrics })
}

/// The TrueType conservation oracle. Returns the new -> old table when everything held.
pub fn check_truetype(cx: &mut Ctx, case: &Case, out: &[u8]) -> Option<Vec<u16>> {
    let src = &case.src;
    let o = match read_out_tt(out) {
        Ok(o) => o,
        Err((sig, d)) => {
            cx.violation("output-readable", sig, case.witness(d));
            return None;
        }
    };
    let nreq = case.ids.len();
    if o.n < nreq {
        cx.violation("glyph-order", "fewer-glyphs-than-requested", case.witness(format!("output has {} glyphs, {} requested", o.n, nreq)));
        return None;
    }
    let mut n2o: Vec<Option<u16>> = vec![None; o.n];
    let mut o2n: HashMap<u16, u16> = HashMap::new();
    for (k, g) in case.ids.iter().enumerate() {
        n2o[k] = Some(*g);
        o2n.insert(*g, k as u16);
    }
    let mut done = vec![false; o.n];
    let mut closure_used = false;
    loop {
        let mut progress = false;
        for k in 0..o.n {
            if done[k] {
                continue;
            }
            let old = match n2o[k] {
                Some(x) => x,
                None => continue,
            };
            done[k] = true;
            progress = true;
            let sg = match src.glyph(old as usize) {
                Some(g) => g,
                None => {
                    cx.class("source:glyph-unreadable");
                    return None;
                }
            };
            let og = match o.glyph(k) {
                Some(g) => g,
                None => {
                    cx.violation("outline", "output-glyph-unparsable", case.witness(format!("output glyph {} (source glyph {}) does not parse", k, old)));
                    return None;
                }
            };
            // component id bookkeeping first (defines new -> old for the extras)
            if let (Glyph::Composite(oc), Glyph::Composite(sc)) = (&og.0, &sg.0) {
                if oc.components.len() == sc.components.len() {
                    for (p, q) in oc.components.iter().zip(sc.components.iter()) {
                        let cn = p.gid as usize;
                        if cn >= o.n {
                            cx.violation("composite", "component-id-out-of-range", case.witness(format!("output glyph {} references component {} of {} glyphs", k, cn, o.n)));
                            return None;
                        }
                        match n2o[cn] {
                            Some(x) if x == q.gid => {}
                            Some(x) => {
                                cx.violation(
                                    "composite",
                                    "component-renumbering",
                                    case.witness(format!("output glyph {} (source {}): component refers to output glyph {} which is source glyph {}, the source composite refers to {}", k, old, cn, x, q.gid)),
                                );
                                return None;
                            }
                            None => {
                                if let Some(other) = o2n.get(&q.gid) {
                                    // the same source glyph would be present twice in the output: every
                                    // retained or pulled-in glyph must appear exactly once
                                    cx.violation(
                                        "glyph-order",
                                        "component-glyph-present-more-than-once",
                                        case.witness(format!("output glyph {} (source {}): source component {} is already output glyph {} but the output composite refers to another glyph, {}", k, old, q.gid, other, cn)),
                                    );
                                    return None;
                                }
                                n2o[cn] = Some(q.gid);
                                o2n.insert(q.gid, cn as u16);
                                closure_used = true;
                            }
                        }
                    }
                }
            }
            let map = |g: u16| n2o.get(g as usize).copied().flatten();
            if !same_glyph(&og.0, &sg.0, Some(&map)) {
                let sig = match (&sg.0, &og.0) {
                    (Glyph::Composite(a), Glyph::Composite(b)) => {
                        if a.instructions != b.instructions {
                            "composite-instructions-differ"
                        } else {
                            "composite-differs"
                        }
                    }
                    (Glyph::Simple(a), Glyph::Simple(b)) => {
                        if a.contours == b.contours {
                            "simple-instructions-differ"
                        } else {
                            "simple-outline-differs"
                        }
                    }
                    _ => "glyph-kind-differs",
                };
                cx.violation("outline", sig, case.witness(format!("output glyph {} differs from source glyph {}: output {:?} source {:?}", k, old, og.0, sg.0).chars().take(1800).collect()));
                return None;
            }
            let empty = matches!(sg.0, Glyph::Empty) || matches!(&sg.0, Glyph::Simple(s) if s.contours.is_empty());
            if !empty && og.1 != sg.1 {
                cx.violation("outline", "bbox-differs", case.witness(format!("output glyph {} bbox {:?}, source glyph {} bbox {:?}", k, og.1, old, sg.1)));
                return None;
            }
        }
        if !progress {
            break;
        }
    }
    if let Some(k) = n2o.iter().position(|x| x.is_none()) {
        cx.violation("glyph-order", "extra-glyph-not-a-component", case.witness(format!("output glyph {} of {} is neither requested ({} ids) nor a component of a retained glyph", k, o.n, nreq)));
        return None;
    }
    let n2o: Vec<u16> = n2o.into_iter().map(|x| x.unwrap_or(0)).collect();
    // independent cross-check of the extras against the closure computed on the source
    let extras = src.closure_extras(&case.ids);
    let got: std::collections::BTreeSet<u16> = n2o[nreq..].iter().copied().collect();
    if got != extras || n2o.len() != nreq + extras.len() {
        cx.violation("glyph-order", "extras-differ-from-component-closure", case.witness(format!("extra glyphs (old ids) {:?}, component closure minus requested {:?}", got, extras).chars().take(1500).collect()));
        return None;
    }
    // metrics
    let mut tail = false;
    for (k, old) in n2o.iter().enumerate() {
        let want = src.metrics[*old as usize];
        let got = o.metrics[k];
        if (*old as usize) >= src.nhm {
            tail = true;
        }
        if got != want {
            let sig = if (*old as usize) >= src.nhm {
                if got.0 != want.0 {
                    "hmtx-tail-advance-differs"
                } else {
                    "hmtx-tail-lsb-differs"
                }
            } else if got.0 != want.0 {
                "hmtx-advance-differs"
            } else {
                "hmtx-lsb-differs"
            };
            cx.violation("metrics", sig, case.witness(format!("output glyph {} (source glyph {}, numberOfHMetrics {}): (advance, lsb) {:?} expected {:?}", k, old, src.nhm, got, want)));
            return None;
        }
    }
    if closure_used {
        cx.class("tt:composite-closure-exercised");
    }
    if case.ids.iter().any(|g| src.composites.contains(g)) {
        cx.class("tt:composite-retained");
    }
    if tail {
        cx.class("tt:hmtx-tail-exercised");
    }
    Some(n2o)
}

enum CffSide<'a> {
    V1(CFF<'a>),
    V2(CFF2<'a>),
}

impl<'a> CffSide<'a> {
    fn visit(&mut self, g: u16) -> Result<Vec<Cmd>, String> {
        let mut sink = RecSink::default();
        match self {
            CffSide::V1(c) => c.visit(g, &mut sink).map_err(|e| format!("{:?}", e))?,
            CffSide::V2(c) => {
                let mut o = CFF2Outlines { table: c, tuple: None };
                o.visit(g, &mut sink).map_err(|e| format!("{:?}", e))?
            }
        }
        Ok(sink.cmds)
    }
}

/// CFF / CFF2 sources. `out_cff` is the output CFF table (bare for the Prince API).
pub fn check_cff(cx: &mut Ctx, case: &Case, out_cff: &[u8], out_font: Option<&sfnt::Font>) {
    let src = &case.src;
    let nreq = case.ids.len();
    let table = if src.kind == Kind::Cff { src.font.gets("CFF ") } else { src.font.gets("CFF2") };
    let table = match table {
        Some(t) => t,
        None => return,
    };
    let ocff = match cff_c07::parse(out_cff) {
        Some(c) => c,
        None => {
            cx.violation("output-readable", "output-cff-unparsable", case.witness("the independent CFF reader cannot read the output CFF table".into()));
            return;
        }
    };
    if ocff.charstrings.len() != nreq {
        cx.violation("glyph-order", "cff-glyph-count", case.witness(format!("output has {} charstrings, {} requested", ocff.charstrings.len(), nreq)));
        return;
    }
    // outlines through allsorts' interpreter on both sides
    let ids = case.ids.clone();
    let is_v1 = src.kind == Kind::Cff;
    let res = cx.guard("cff-outlines", table.len() + out_cff.len(), || -> Result<Vec<(Result<Vec<Cmd>, String>, Result<Vec<Cmd>, String>)>, String> {
        let mut s = if is_v1 { CffSide::V1(ReadScope::new(table).read::<CFF<'_>>().map_err(|e| format!("source: {:?}", e))?) } else { CffSide::V2(ReadScope::new(table).read::<CFF2<'_>>().map_err(|e| format!("source: {:?}", e))?) };
        let mut o = CffSide::V1(ReadScope::new(out_cff).read::<CFF<'_>>().map_err(|e| format!("output: {:?}", e))?);
        Ok(ids.iter().enumerate().map(|(k, g)| (s.visit(*g), o.visit(k as u16))).collect())
    });
    let pairs = match res {
        None => return,
        Some(Err(e)) => {
            if e.starts_with("output") {
                cx.violation("output-readable", "output-cff-rejected-by-allsorts", case.witness(e));
            } else {
                cx.class("source:cff-rejected");
            }
            return;
        }
        Some(Ok(p)) => p,
    };
    let mut compared = 0;
    for (k, (s, o)) in pairs.iter().enumerate() {
        match (s, o) {
            (Ok(a), Ok(b)) => {
                compared += 1;
                if a != b {
                    cx.violation("outline", if is_v1 { "cff-outline-differs" } else { "cff2-outline-differs" }, case.witness(format!("output glyph {} vs source glyph {}: output [{}] source [{}]", k, case.ids[k], cmds_str(b), cmds_str(a))));
                    return;
                }
            }
            (Ok(_), Err(e)) => {
                cx.violation("outline", "cff-output-glyph-fails", case.witness(format!("output glyph {} (source glyph {}) fails with {} while the source glyph is fine", k, case.ids[k], e)));
                return;
            }
            (Err(_), _) => cx.class("source:cff-glyph-not-interpretable"),
        }
    }
    // declared widths (independent scanner)
    let mut widths = 0;
    for k in 0..nreq {
        let want = match (&src.cff, src.kind) {
            (Some(sc), Kind::Cff) => cff_c07::width(table, sc, case.ids[k] as usize),
            (_, Kind::Cff2) => Some(src.metrics[case.ids[k] as usize].0 as f64),
            _ => None,
        };
        let got = cff_c07::width(out_cff, &ocff, k);
        if let (Some(w), Some(g)) = (want, got) {
            widths += 1;
            if (w - g).abs() > 1e-6 {
                cx.violation("metrics", if is_v1 { "cff-charstring-width-differs" } else { "cff2-charstring-width-differs" }, case.witness(format!("output glyph {} declares width {}, source glyph {} has {}", k, g, case.ids[k], w)));
                return;
            }
        }
    }
    // hmtx of the wrapped output
    if let Some(f) = out_font {
        let m = (|| {
            let n = it::maxp_num_glyphs(f.gets("maxp")?)? as usize;
            let nhm = it::Hhea::read(f.gets("hhea")?)?.num_h_metrics as usize;
            Some((n, it::read_hmtx(f.gets("hmtx")?, n, nhm)?))
        })();
        match m {
            Some((n, m)) if n == nreq => {
                for k in 0..nreq {
                    let want = src.metrics[case.ids[k] as usize];
                    if m[k] != want {
                        let tail = case.ids[k] as usize >= src.nhm;
                        let sig = match (tail, m[k].0 != want.0) {
                            (true, true) => "hmtx-tail-advance-differs",
                            (true, false) => "hmtx-tail-lsb-differs",
                            (false, true) => "hmtx-advance-differs",
                            (false, false) => "hmtx-lsb-differs",
                        };
                        cx.violation("metrics", sig, case.witness(format!("output glyph {} (source glyph {}, numberOfHMetrics {}): (advance, lsb) {:?} expected {:?}", k, case.ids[k], src.nhm, m[k], want)));
                        return;
                    }
                }
                if case.ids.iter().any(|g| *g as usize >= src.nhm) {
                    cx.class("cff:hmtx-tail-exercised");
                }
            }
            Some((n, _)) => {
                cx.violation("glyph-order", "cff-maxp-glyph-count", case.witness(format!("maxp.numGlyphs {} but {} glyphs requested", n, nreq)));
                return;
            }
            None => {
                cx.violation("output-readable", "output-hmtx-too-short", case.witness("hmtx / maxp / hhea of the output cannot be read".into()));
                return;
            }
        }
    }
    if compared > 0 {
        let variant = match (src.kind, src.cff.as_ref().map_or(false, |c| c.is_cid), ocff.is_cid) {
            (Kind::Cff2, _, true) => "cff2->cff-cid",
            (Kind::Cff2, _, false) => "cff2->cff-type1",
            (_, true, _) => "cff:cid-keyed",
            (_, false, true) => "cff:type1->cid-conversion",
            _ => "cff:name-keyed",
        };
        cx.class(variant);
        if ocff.privates.iter().any(|p| !p.subrs.is_empty()) {
            cx.class("cff:local-subrs-retained");
        }
        if ocff.gsubrs.iter().any(|(a, b)| b > a) {
            cx.class("cff:global-subrs-retained");
        }
        if ocff.privates.len() > 1 {
            cx.class("cff:several-fds");
        }
        if widths > 0 {
            cx.class("cff:widths-compared");
        }
    }
}

impl Prop for C07 {
    fn case(&mut self, cx: &mut Ctx, rng: &mut Rng) {
        // generated : real TrueType : CFF : CFF2 : variable : aots
        let (case, _) = match subset_case(&mut self.w, cx, rng, [8, 5, 5, 3, 1, 1], None) {
            Some(c) => c,
            None => return,
        };
        let out = match run_op(cx, &case) {
            None => return,
            Some(Err(e)) => {
                cx.class(&format!("op-error:{}", e.chars().take(40).collect::<String>()));
                return;
            }
            Some(Ok(o)) => o,
        };
        cx.class(&format!("op:{}", case.op.name()));
        cx.class(&format!("container:{}", case.container.name()));
        cx.class(&format!("ids:{}", if case.id_mode.is_empty() { "0-only" } else { &case.id_mode }));
        match case.src.kind {
            Kind::TrueType => {
                if check_truetype(cx, &case, &out).is_some() {
                    cx.class(if case.src.generated { "tt:generated-ok" } else { "tt:real-ok" });
                    cx.nontrivial(case.hash());
                }
            }
            Kind::Cff | Kind::Cff2 => {
                let before = cx.violations;
                match case.op {
                    Op::Prince { .. } => check_cff(cx, &case, &out, None),
                    _ => match sfnt::Font::parse(&out) {
                        Some(f) => match f.gets("CFF ") {
                            Some(t) => check_cff(cx, &case, t, Some(&f)),
                            None => cx.violation("output-readable", "output-table-missing", case.witness("no CFF table in the output".into())),
                        },
                        None => cx.violation("output-readable", "output-unparsable", case.witness("table directory".into())),
                    },
                }
                if cx.violations == before {
                    cx.nontrivial(case.hash());
                }
            }
        }
        if cx.want_sample() {
            cx.sample(J::obj(vec![("font", J::s(case.src.name.clone())), ("ids", J::U(case.ids.len() as u64)), ("id_mode", J::s(case.id_mode.clone())), ("op", J::s(case.op.name())), ("container", J::s(case.container.name())), ("output_bytes", J::U(out.len() as u64))]));
        }
        let _ = Rc::strong_count(&case.src);
    }
}
