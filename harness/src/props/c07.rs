//! C07 — (stub, under construction)

use super::Prop;
use crate::rt::*;

pub struct C07 {}

impl C07 {
    pub fn new(_cx: &mut Ctx) -> C07 {
        C07 {}
    }
}

impl Prop for C07 {
    fn case(&mut self, cx: &mut Ctx, _rng: &mut Rng) {
        cx.inconclusive("not-implemented");
    }
}
