//! C12 — instancing a variable font evaluates the OpenType variation model.
//!
//! Workload: generated variable TrueType fonts (AST in `c12_gen`, written by the harness's own
//! fvar/avar/gvar/HVAR/MVAR writers with random encoding choices) and the real variable fonts of
//! the fixture corpus (lifted into the same AST by the independent reader in `c12_model`).
//! Oracle: `variations::instance` output, read back with the independent sfnt/glyf/hmtx readers,
//! against the reference model (region scalars, IUP, phantom points, composite offsets, HVAR,
//! MVAR) within one font unit; exact identity at the default tuple; static-ness of the output.

#[path = "c12_gen.rs"]
pub mod c12_gen;
#[path = "c12_model.rs"]
pub mod c12_model;
#[path = "c12_cff2.rs"]
pub mod c12_cff2;

use self::c12_cff2 as cff2;
use self::c12_gen::*;
use self::c12_model as model;
use super::Prop;
use crate::rt::*;
use crate::sfnt::glyf::{Args, Glyph};
use crate::sfnt::{self, be16};
use allsorts::binary::read::ReadScope;
use allsorts::font_data::FontData;
use allsorts::tables::Fixed;
use allsorts::variations;

struct RealFont {
    name: String,
    bytes: Vec<u8>,
    vf: Option<VFont>,
    cff2: bool,
    /// CFF2 fixture whose CharStrings use no subroutines: lifted into the AST as well
    cff: Option<cff2::Cff2>,
}

pub struct C12 {
    real: Vec<RealFont>,
}

const VAR_TAGS: &[&str] = &["fvar", "avar", "gvar", "cvar", "HVAR", "VVAR", "MVAR"];

impl C12 {
    pub fn new(_cx: &mut Ctx) -> C12 {
        let mut real = Vec::new();
        for sf in load_seed_fonts(4 << 20, false) {
            let f = match sfnt::Font::parse(&sf.data) {
                Some(f) => f,
                None => continue,
            };
            if f.gets("fvar").is_none() {
                continue;
            }
            let cff2 = f.gets("CFF2").is_some();
            let mut vf = if f.gets("gvar").is_some() && f.gets("glyf").is_some() { model::read_vfont(&sf.data) } else { None };
            if vf.is_none() && !cff2 {
                continue;
            }
            let mut cff = None;
            if cff2 {
                if let Some((v, c)) = lift_cff2(&f) {
                    vf = Some(v);
                    cff = Some(c);
                }
            }
            real.push(RealFont { name: sf.name.clone(), bytes: sf.data.clone(), vf, cff2, cff });
        }
        real.sort_by(|a, b| a.name.cmp(&b.name));
        C12 { real }
    }
}

/// Lift a real CFF2 variable font into the AST (only when its CharStrings are free of subroutine calls).
fn lift_cff2(f: &sfnt::Font) -> Option<(VFont, cff2::Cff2)> {
    let r = cff2::read_cff2(f.gets("CFF2")?)?;
    if r.fd_count != 1 || !r.has_vstore {
        return None;
    }
    let mut c = cff2::Cff2 { regions: r.regions.clone(), data_regions: r.data_regions.clone(), private_vsindex: r.private_vsindex, glyphs: Vec::new() };
    for cs in &r.charstrings {
        let g = cff2::read_charstring_subrs(cs, r.private_vsindex.unwrap_or(0), &|v| r.data_regions.get(v as usize).map(|x| x.len()), &r.subrs)?;
        c.glyphs.push(g);
    }
    let n = c.glyphs.len();
    let mut vf = VFont::default();
    vf.axes = model::read_fvar(f.gets("fvar")?)?;
    vf.avar = match f.gets("avar") {
        Some(d) => Some(model::read_avar(d)?),
        None => None,
    };
    vf.glyphs = vec![Glyph::Empty; n];
    vf.gvar = vec![None; n];
    vf.metrics = model::read_metrics(f, n)?;
    vf.hvar = match f.gets("HVAR") {
        Some(d) => Some(model::read_hvar(d)?),
        None => None,
    };
    vf.mvar = match f.gets("MVAR") {
        Some(d) => Some(model::read_mvar(d)?),
        None => None,
    };
    vf.base = model::read_base_metrics(f);
    Some((vf, c))
}

/// What the judge needs besides the AST.
struct Subject<'a> {
    vf: &'a VFont,
    bytes: &'a [u8],
    label: &'a str,
    /// [glyph][tuple] encoding classes of the generated gvar (empty for real fonts)
    enc: Option<&'a Vec<Vec<Vec<&'static str>>>>,
    generated: bool,
    /// CFF2 flavour: the abstract CharStrings (the glyphs of `vf` are all Empty then)
    cff: Option<&'a cff2::Cff2>,
}

fn r14(v: i16) -> f64 {
    v as f64 / 16384.0
}

fn witness(sub: &Subject<'_>, user: &[i32], tuple: &[i16], what: String, extra: Vec<(&str, J)>) -> J {
    let mut v = vec![
        ("what", J::s(what)),
        ("font", J::s(sub.label)),
        ("user_16_16", J::A(user.iter().map(|&u| J::I(u as i64)).collect())),
        ("user", J::A(user.iter().map(|&u| J::F(u as f64 / 65536.0)).collect())),
        ("normalised_f2dot14", J::A(tuple.iter().map(|&t| J::I(t as i64)).collect())),
        ("normalised", J::A(tuple.iter().map(|&t| J::F(r14(t))).collect())),
        ("axes", J::s(format!("{:?}", sub.vf.axes))),
    ];
    v.extend(extra);
    if sub.generated {
        v.push(("font_bytes", J::hex(&sub.bytes[..sub.bytes.len().min(6000)])));
    }
    J::obj(v)
}

/// Interesting normalised values (raw F2Dot14) of axis `a`: region corners and their neighbours.
fn knots(vf: &VFont, a: usize) -> Vec<i16> {
    let mut k: Vec<i32> = vec![0, 16384, -16384];
    let mut add = |r: &Reg| {
        if let Some(&(s, p, e)) = r.get(a) {
            for v in [s, p, e] {
                k.push(v as i32);
            }
        }
    };
    for gv in vf.gvar.iter().flatten() {
        for t in &gv.tuples {
            add(&t.region());
        }
    }
    if let Some(h) = &vf.hvar {
        for r in &h.ivs.regions {
            add(r);
        }
    }
    if let Some(ivs) = vf.mvar.as_ref().and_then(|m| m.ivs.as_ref()) {
        for r in &ivs.regions {
            add(r);
        }
    }
    k.sort();
    k.dedup();
    k.into_iter().map(|v| v.clamp(-16384, 16384) as i16).collect()
}

fn gen_user_tuple(rng: &mut Rng, vf: &VFont, strategy: usize, cx: &mut Ctx) -> Vec<i32> {
    let na = vf.axes.len();
    let focus = rng.below(na.max(1));
    (0..na)
        .map(|a| {
            let ax = &vf.axes[a];
            let map = vf.avar.as_ref().and_then(|m| m.get(a));
            let target = |rng: &mut Rng, t: i32| -> i32 { model::user_for_target(ax, map, (t + *rng.pick(&[0, 0, 0, 1, -1])).clamp(-16384, 16384) as i16) };
            match strategy {
                0 => ax.def,
                1 => {
                    // one axis at an interesting place, the others at their default
                    if a == focus {
                        let k = knots(vf, a);
                        let t = *rng.pick(&k) as i32;
                        target(rng, t)
                    } else {
                        ax.def
                    }
                }
                2 => {
                    // every axis at a region corner (+-1)
                    let k = knots(vf, a);
                    let t = *rng.pick(&k) as i32;
                    target(rng, t)
                }
                3 => *rng.pick(&[ax.min, ax.max, ax.def]),
                4 => {
                    // outside the axis range on at least the focus axis
                    if a == focus || rng.bool() {
                        cx.class("coords:out-of-range-user-value");
                        if rng.bool() {
                            ax.min.saturating_sub(1 + rng.below(1 << 20) as i32)
                        } else {
                            ax.max.saturating_add(1 + rng.below(1 << 20) as i32)
                        }
                    } else {
                        rng.range(ax.min as i64, ax.max as i64) as i32
                    }
                }
                _ => {
                    if rng.chance(1, 4) {
                        {
                            let t = rng.range(-16384, 16384) as i32;
                            target(rng, t)
                        }
                    } else {
                        rng.range(ax.min as i64, ax.max as i64) as i32
                    }
                }
            }
        })
        .collect()
}

fn tol_scalar() -> f64 {
    1.0 + 1e-3
}
/// quantities that are a difference of two independently rounded values
fn tol_derived() -> f64 {
    1.0 + 1e-2
}

/// Judge one instance. Returns true when something non-trivial (a non-zero expected delta) was compared.
fn judge(cx: &mut Ctx, sub: &Subject<'_>, user: &[i32], out: &[u8], tuple: &[i16]) -> bool {
    let vf = sub.vf;
    let na = vf.axes.len();
    // ---- normalised coordinates: the returned tuple must be within the C13 tolerance of the exact value
    if tuple.len() != na {
        cx.violation("instance-tuple", "tuple-length", witness(sub, user, tuple, format!("returned tuple has {} values for {} axes", tuple.len(), na), vec![]));
        return false;
    }
    for a in 0..na {
        let (exact, slope) = model::normalise(&vf.axes[a], vf.avar.as_ref().and_then(|m| m.get(a)), user[a]);
        let tol = slope.max(1.0) + 1e-6;
        if (tuple[a] as f64 - exact).abs() > tol {
            cx.violation("instance-tuple", "normalised-coordinate-off", witness(sub, user, tuple, format!("axis {}: returned {} but exact normalisation is {:.4} (tolerance {:.3})", a, tuple[a], exact, tol), vec![]));
            return false;
        }
        cx.class(if (tuple[a] as f64 - exact).abs() <= 0.5 + 1e-9 { "norm:nearest" } else { "norm:within-tolerance" });
        if user[a] < vf.axes[a].min || user[a] > vf.axes[a].max {
            cx.class("coords:clamped");
        }
    }
    let coords = tuple;
    // ---- static-ness
    let of = match sfnt::Font::parse(out) {
        Some(f) => f,
        None => {
            cx.violation("static", "output-not-sfnt", witness(sub, user, tuple, "instance output is not a readable sfnt".into(), vec![("output", J::hex(&out[..out.len().min(400)]))]));
            return false;
        }
    };
    for t in VAR_TAGS {
        if of.gets(t).is_some() {
            cx.violation("static", &format!("variation-table-left:{}", t), witness(sub, user, tuple, format!("instance output still has a '{}' table", t), vec![]));
        }
    }
    match ReadScope::new(out).read::<FontData<'_>>().ok().and_then(|fd| fd.table_provider(0).ok()) {
        Some(p) => match allsorts::Font::new(p) {
            Ok(font) => {
                if font.is_variable() {
                    cx.violation("static", "still-variable", witness(sub, user, tuple, "Font::new(instance).is_variable() is true".into(), vec![]));
                }
                cx.class("static:loadable-non-variable");
            }
            Err(e) => {
                cx.violation("static", "output-not-loadable", witness(sub, user, tuple, format!("Font::new on the instance failed: {:?}", e), vec![]));
            }
        },
        None => {
            cx.violation("static", "output-not-loadable", witness(sub, user, tuple, "FontData/table_provider failed on the instance".into(), vec![]));
        }
    }
    // ---- read the output back (independent readers)
    let n = vf.glyphs.len();
    let og = match if sub.cff.is_some() { Some(vec![Glyph::Empty; n]) } else { model::read_glyphs(&of) } {
        Some(g) if g.len() == n => g,
        other => {
            cx.violation("output", "glyf-unreadable", witness(sub, user, tuple, format!("output glyf/loca unreadable or glyph count changed ({:?} glyphs, expected {})", other.map(|g| g.len()), n), vec![]));
            return false;
        }
    };
    let om = match model::read_metrics(&of, n) {
        Some(m) => m,
        None => {
            cx.violation("output", "hmtx-unreadable", witness(sub, user, tuple, "output hmtx/hhea unreadable".into(), vec![]));
            return false;
        }
    };
    let mut nontrivial = false;
    let mut any_applied = false;
    for gid in 0..n {
        let glyph = &vf.glyphs[gid];
        let np = glyph_num_points(glyph);
        let gv = vf.gvar[gid].as_ref();
        let gd = match gv {
            Some(gv) => match model::glyph_deltas(glyph, gv, coords) {
                Some(d) => Some(d),
                None => {
                    cx.class("not-judged:glyph-variation-data-outside-core");
                    continue;
                }
            },
            None => None,
        };
        let zero = vec![(0.0f64, 0.0f64); np + 4];
        let total: &Vec<(f64, f64)> = gd.as_ref().map_or(&zero, |d| &d.total);
        let applied = gd.as_ref().map_or(false, |d| d.scalars.iter().any(|&s| s != 0.0));
        let all_zero_scalars = !applied;
        any_applied |= applied;
        let invalid_here = gv.map_or(false, |g| g.tuples.iter().any(|t| region_is_invalid(&t.region())));
        let inferred = gd.as_ref().map_or(false, |d| d.iup_classes.iter().any(|c| c.starts_with("iup:") && !c.starts_with("iup:contour-")));
        let cause = if invalid_here {
            "invalid-region"
        } else if inferred {
            "iup"
        } else {
            "explicit"
        };
        let gw = |what: String, extra: Vec<(&str, J)>| -> J {
            let mut e = vec![
                ("glyph_id", J::U(gid as u64)),
                ("glyph", J::s(format!("{:?}", glyph).chars().take(1500).collect::<String>())),
                ("variation_data", J::s(format!("{:?}", gv).chars().take(2500).collect::<String>())),
                ("scalars", J::A(gd.as_ref().map_or(vec![], |d| d.scalars.iter().map(|&s| J::F(s)).collect()))),
            ];
            e.extend(extra);
            witness(sub, user, tuple, what, e)
        };
        // ---- outline
        match (glyph, &og[gid]) {
            (Glyph::Empty, Glyph::Empty) => {}
            (Glyph::Simple(s), Glyph::Simple(o)) => {
                let same_shape = s.contours.len() == o.contours.len() && s.contours.iter().zip(o.contours.iter()).all(|(a, b)| a.len() == b.len() && a.iter().zip(b.iter()).all(|(p, q)| p.on == q.on));
                if !same_shape {
                    cx.violation("outline-structure", "simple-structure-changed", gw("contour structure or on-curve flags changed".into(), vec![("observed", J::s(format!("{:?}", o).chars().take(1500).collect::<String>()))]));
                    continue;
                }
                let mut worst = 0.0f64;
                for (i, (p, q)) in s.points().zip(o.points()).enumerate() {
                    let ex = p.x as f64 + total[i].0;
                    let ey = p.y as f64 + total[i].1;
                    let err = (q.x as f64 - ex).abs().max((q.y as f64 - ey).abs());
                    worst = worst.max(err);
                    if all_zero_scalars {
                        if q.x != p.x || q.y != p.y {
                            cx.violation("default-identity", "simple-point-moved-without-applicable-region", gw(format!("point {}: source ({}, {}) became ({}, {}) although no region applies", i, p.x, p.y, q.x, q.y), vec![]));
                            break;
                        }
                    } else if err > tol_scalar() {
                        cx.violation(
                            "point",
                            &format!("simple-point:{}", cause),
                            gw(
                                format!("point {}: default ({}, {}) expected ({:.4}, {:.4}) observed ({}, {})", i, p.x, p.y, ex, ey, q.x, q.y),
                                vec![("expected_deltas", J::A(total.iter().take(40).map(|d| J::s(format!("({:.3}, {:.3})", d.0, d.1))).collect()))],
                            ),
                        );
                        break;
                    }
                }
                if applied {
                    cx.class("glyph:simple-varied");
                    if worst > 0.5 + 1e-2 {
                        cx.class("info:point-error-above-half-unit");
                    }
                    if total[..np].iter().any(|d| d.0 != 0.0 || d.1 != 0.0) {
                        nontrivial = true;
                    }
                }
            }
            (Glyph::Composite(c), Glyph::Composite(o)) => {
                let same = c.components.len() == o.components.len()
                    && c.components.iter().zip(o.components.iter()).all(|(a, b)| a.gid == b.gid && a.scale == b.scale && a.extra_flags == b.extra_flags && matches!((a.args, b.args), (Args::XY(..), Args::XY(..)) | (Args::Points(..), Args::Points(..))));
                if !same {
                    cx.violation("outline-structure", "composite-structure-changed", gw("component list, glyph ids, transforms or flags changed".into(), vec![("observed", J::s(format!("{:?}", o)))]));
                    continue;
                }
                for (k, (a, b)) in c.components.iter().zip(o.components.iter()).enumerate() {
                    match (a.args, b.args) {
                        (Args::XY(x, y), Args::XY(ox, oy)) => {
                            let ex = x as f64 + total[k].0;
                            let ey = y as f64 + total[k].1;
                            if all_zero_scalars {
                                if (ox, oy) != (x, y) {
                                    cx.violation("default-identity", "composite-offset-moved-without-applicable-region", gw(format!("component {}: offset ({}, {}) became ({}, {})", k, x, y, ox, oy), vec![]));
                                }
                            } else if (ox as f64 - ex).abs() > tol_scalar() || (oy as f64 - ey).abs() > tol_scalar() {
                                cx.violation("composite-offset", if invalid_here { "composite-offset:invalid-region" } else { "composite-offset" }, gw(format!("component {}: default offset ({}, {}) expected ({:.4}, {:.4}) observed ({}, {})", k, x, y, ex, ey, ox, oy), vec![]));
                            } else if total[k].0 != 0.0 || total[k].1 != 0.0 {
                                cx.class("composite:offset-varied");
                                nontrivial = true;
                            }
                        }
                        (Args::Points(p, q), Args::Points(op, oq)) => {
                            if (p, q) != (op, oq) {
                                cx.violation("composite-offset", "point-matching-args-changed", gw(format!("component {}: point-matching arguments ({}, {}) became ({}, {})", k, p, q, op, oq), vec![]));
                            } else if total[k].0 != 0.0 || total[k].1 != 0.0 {
                                cx.class("composite:point-matching-args-untouched");
                            }
                        }
                        _ => {}
                    }
                }
            }
            (_, o) => {
                cx.violation("outline-structure", "glyph-kind-changed", gw(format!("glyph kind changed: observed {:?}", o).chars().take(600).collect(), vec![]));
                continue;
            }
        }
        // ---- advance width
        let (adv0, lsb0) = vf.metrics[gid];
        let (oadv, olsb) = om[gid];
        let d1 = total[np].0;
        let d2 = total[np + 1].0;
        let phantom_adv = adv0 as f64 + d2 - d1;
        let (exp_adv, adv_src, adv_tol) = match &vf.hvar {
            Some(h) => match model::hvar_advance_delta(h, gid, coords) {
                Some(d) => (adv0 as f64 + d, "hvar", tol_scalar()),
                None => {
                    cx.class("not-judged:hvar-index-outside-store");
                    continue;
                }
            },
            None => (phantom_adv, "phantom", tol_derived()),
        };
        if sub.generated && sub.cff.is_none() && vf.hvar.is_some() && (exp_adv - phantom_adv).abs() > 1e-6 {
            cx.inconclusive("generator:hvar-gvar-inconsistent");
            return false;
        }
        let exp_adv_c = exp_adv.clamp(0.0, 65535.0);
        if exp_adv_c != exp_adv {
            cx.class("advance:clamped-at-zero");
        }
        // identity is demanded only where nothing that determines the advance moves: with phantom
        // points, pp1 and pp2 are rounded separately even when they move by the same amount
        let adv_moves = (exp_adv - adv0 as f64).abs() > 0.0 || (adv_src == "phantom" && (d1 != 0.0 || d2 != 0.0));
        if !adv_moves {
            if oadv != adv0 {
                cx.violation("default-identity", &format!("advance-changed-without-delta:{}", adv_src), gw(format!("advance {} became {} although the model's advance delta is zero", adv0, oadv), vec![]));
            }
        } else if (oadv as f64 - exp_adv_c).abs() > adv_tol {
            cx.violation("advance", &format!("advance:{}", adv_src), gw(format!("advance: default {} expected {:.4} observed {} (pp1 dx {:.4}, pp2 dx {:.4})", adv0, exp_adv, oadv, d1, d2), vec![]));
        } else {
            cx.class(if adv_src == "hvar" { "advance:hvar" } else { "advance:phantom-points" });
            nontrivial = true;
        }
        // ---- left side bearing
        let hv_lsb = match &vf.hvar {
            Some(h) => match model::hvar_lsb_delta(h, gid, coords) {
                Some(d) => d,
                None => {
                    cx.class("not-judged:hvar-index-outside-store");
                    continue;
                }
            },
            None => None,
        };
        let mut transformed = false;
        let mut unsupported = false;
        let pts = model::varied_points(vf, gid, coords, 0, &mut transformed, &mut unsupported);
        let depth = model::composite_depth(&vf.glyphs, gid, 0);
        let xmin_e = pts.iter().map(|p| p.0).fold(f64::INFINITY, f64::min);
        let xmin_e = if xmin_e.is_finite() { xmin_e } else { 0.0 };
        // default master: xMin as stored = exact default xMin
        let mut t0 = false;
        let mut u0 = false;
        let zero_coords = vec![0i16; na];
        let _ = (&mut t0, &mut u0, &zero_coords);
        let pp1_e = {
            // pp1 = xMin(default) - lsb, then varied by its delta
            let xmin0 = match glyph {
                Glyph::Empty => 0.0,
                Glyph::Simple(s) => s.bbox().x_min as f64,
                Glyph::Composite(_) => default_bbox(&vf.glyphs, gid, 0).map_or(0.0, |b| b.0.floor()),
            };
            xmin0 - lsb0 as f64 + d1
        };
        let phantom_lsb = xmin_e - pp1_e;
        match hv_lsb {
            Some(d) => {
                let e = lsb0 as f64 + d;
                if sub.generated && sub.cff.is_none() && !unsupported && (e - phantom_lsb).abs() > 1e-6 {
                    cx.inconclusive("generator:hvar-lsb-inconsistent");
                    return false;
                }
                if (olsb as f64 - e).abs() > tol_scalar() {
                    cx.violation("lsb", "lsb:hvar-map", gw(format!("lsb: default {} expected {:.4} (HVAR lsb mapping) observed {}", lsb0, e, olsb), vec![]));
                } else if d != 0.0 {
                    cx.class("lsb:hvar-map");
                    nontrivial = true;
                } else if olsb != lsb0 {
                    cx.violation("default-identity", "lsb-changed-without-delta:hvar-map", gw(format!("lsb {} became {} although the HVAR lsb delta is zero", lsb0, olsb), vec![]));
                }
            }
            None => {
                if unsupported {
                    cx.class("not-judged:lsb-of-point-matching-composite");
                } else if transformed && matches!(glyph, Glyph::Composite(_)) {
                    // the bounding box of a transformed component is rounding- and engine-dependent:
                    // only the identity where nothing varies is judged
                    if !gid_moves(vf, gid, coords) {
                        if (olsb as i32 - lsb0 as i32).abs() == 1 {
                            // one unit: the rounding convention of the stored bounding box of a
                            // scaled component (floor / round, f32 / exact) decides this; not judged
                            cx.class("not-judged:lsb-of-transformed-composite-off-by-one");
                        } else if olsb != lsb0 {
                            let sig = if has_skewed_component(&vf.glyphs, gid, 0) { "lsb-changed-without-delta:rotated-or-skewed-component" } else { "lsb-changed-without-delta:scaled-component" };
                            cx.violation("default-identity", sig, gw(format!("lsb {} became {} although nothing in the glyph varies here", lsb0, olsb), vec![("glyphs", J::s(format!("{:?}", vf.glyphs).chars().take(3000).collect::<String>()))]));
                        } else {
                            cx.class("lsb:transformed-composite-identity");
                        }
                    } else {
                        cx.class("not-judged:lsb-of-transformed-composite");
                    }
                } else {
                    let tol = tol_derived() + 0.5 * depth as f64;
                    let moved = gid_moves(vf, gid, coords);
                    if !moved {
                        if olsb != lsb0 {
                            cx.violation("default-identity", if depth > 0 { "lsb-changed-without-delta:composite" } else { "lsb-changed-without-delta" }, gw(format!("lsb {} became {} although nothing in the glyph varies here", lsb0, olsb), vec![]));
                        }
                    } else if (olsb as f64 - phantom_lsb).abs() > tol {
                        cx.violation("lsb", if depth > 0 { "lsb:phantom-composite" } else { "lsb:phantom" }, gw(format!("lsb: default {} expected xMin' - pp1' = {:.4} - {:.4} = {:.4} observed {}", lsb0, xmin_e, pp1_e, phantom_lsb, olsb), vec![]));
                    } else {
                        cx.class(if depth > 0 { "lsb:phantom-composite" } else { "lsb:phantom-points" });
                        if (phantom_lsb - lsb0 as f64).abs() > 0.0 {
                            nontrivial = true;
                        }
                    }
                }
            }
        }
        // ---- event classes of what was exercised in this glyph
        if let Some(d) = &gd {
            if applied {
                for c in &d.iup_classes {
                    cx.class(c);
                }
                if d.near_edge {
                    cx.class("coords:within-1-of-region-edge-or-peak");
                }
                for c in &d.cases {
                    cx.class(match c {
                        model::AxisCase::Invalid => "axis:invalid-region-ignored",
                        model::AxisCase::PeakZero => "axis:peak-zero-ignored",
                        model::AxisCase::OutOfRange => "axis:out-of-range",
                        model::AxisCase::AtPeak => "axis:at-peak",
                        model::AxisCase::Rising => "axis:rising",
                        model::AxisCase::Falling => "axis:falling",
                    });
                }
                if let (Some(enc), Some(gv)) = (sub.enc, gv) {
                    for (ti, _t) in gv.tuples.iter().enumerate() {
                        if d.scalars[ti] != 0.0 {
                            if let Some(cl) = enc.get(gid).and_then(|g| g.get(ti)) {
                                for c in cl {
                                    cx.class(c);
                                }
                            }
                        }
                    }
                }
                if let Some(gv) = gv {
                    for (ti, t) in gv.tuples.iter().enumerate() {
                        if d.scalars[ti] == 0.0 {
                            continue;
                        }
                        if !sub.generated {
                            cx.class(if t.shared_peak.is_some() { "peak:shared" } else { "peak:embedded" });
                            cx.class(if t.inter.is_some() { "region:intermediate" } else { "region:implied" });
                            cx.class(if t.points.is_some() { "points:private" } else { "points:shared" });
                        }
                        if let Some(PointSel::List(v)) = t.points.as_ref().or(gv.shared_points.as_ref()) {
                            if v.iter().any(|&p| p as usize >= np) {
                                cx.class("points:explicit-phantom");
                            }
                            if v.len() == np + 4 {
                                cx.class("points:explicit-full-list");
                            }
                        }
                    }
                    if d.scalars.iter().filter(|&&s| s != 0.0).count() >= 2 {
                        cx.class("regions:several-applicable");
                    }
                    if d.scalars.iter().any(|&s| s != 0.0 && s != 1.0) {
                        cx.class("scalar:fractional");
                    }
                }
            }
        }
        match glyph {
            Glyph::Empty => {
                if applied {
                    cx.class("glyph:empty-varied");
                }
            }
            Glyph::Composite(_) => {
                if applied {
                    cx.class("glyph:composite-varied");
                }
            }
            _ => {}
        }
    }
    if !any_applied {
        cx.class("instance:no-region-applies");
    }
    // ---- hhea bookkeeping that follows from the metrics (cheap structural check)
    if let Some(hh) = of.gets("hhea").and_then(sfnt::tables::Hhea::read) {
        let max_adv = om.iter().map(|m| m.0).max().unwrap_or(0);
        if hh.advance_width_max != max_adv {
            cx.class("info:advanceWidthMax-differs-from-hmtx-maximum");
        }
    }
    // ---- CFF2 CharStrings
    if let Some(c) = sub.cff {
        nontrivial |= judge_cff2(cx, sub, c, &of, coords, user, tuple);
    }
    // ---- MVAR-controlled metrics
    for &(tag, table, off, signed, minv) in MVAR_TARGETS {
        let base = match vf.base.get(tag) {
            Some(b) => *b,
            None => continue,
        };
        let od = match of.gets(table) {
            Some(d) => d,
            None => {
                if table == "vhea" {
                    cx.class("not-judged:vhea-absent-in-output");
                } else {
                    cx.violation("mvar", &format!("table-missing:{}", table), witness(sub, user, tuple, format!("output has no '{}' table", table), vec![]));
                }
                continue;
            }
        };
        if table == "OS/2" && be16(od, 0).map_or(true, |v| v < minv) {
            cx.violation("mvar", "os2-version-changed", witness(sub, user, tuple, "OS/2 version of the output is lower than the source's".into(), vec![]));
            continue;
        }
        let obs = match be16(od, off) {
            Some(v) => {
                if signed {
                    v as i16 as i32
                } else {
                    v as i32
                }
            }
            None => {
                cx.violation("mvar", &format!("table-short:{}", table), witness(sub, user, tuple, format!("output '{}' table too short for offset {}", table, off), vec![]));
                continue;
            }
        };
        let delta = vf.mvar.as_ref().and_then(|m| model::mvar_delta(m, tag, coords));
        match delta {
            Some(d) if d != 0.0 => {
                let e = (base as f64 + d).clamp(if signed { -32768.0 } else { 0.0 }, if signed { 32767.0 } else { 65535.0 });
                if (obs as f64 - e).abs() > tol_scalar() {
                    cx.violation("mvar", &format!("mvar:{}", tag), witness(sub, user, tuple, format!("{}@{} ('{}'): default {} expected {:.4} observed {}", table, off, tag, base, e, obs), vec![("mvar", J::s(format!("{:?}", vf.mvar).chars().take(2000).collect::<String>()))]));
                } else {
                    cx.class("mvar:tag-applied");
                    cx.class(&format!("mvar:{}", table));
                    nontrivial = true;
                }
            }
            _ => {
                if obs != base {
                    cx.violation("mvar", &format!("mvar-untouched-field-changed:{}", tag), witness(sub, user, tuple, format!("{}@{} ('{}'): {} became {} although no MVAR delta applies", table, off, tag, base, obs), vec![("mvar", J::s(format!("{:?}", vf.mvar).chars().take(2000).collect::<String>()))]));
                }
            }
        }
    }
    if vf.avar.is_some() {
        cx.class("avar-present");
    }
    if na > 4 {
        cx.class("axes:more-than-4");
    }
    if let Some(h) = &vf.hvar {
        cx.class(if h.adv_map.is_some() { "hvar:with-advance-map" } else { "hvar:implicit-glyph-index" });
        if let Some(m) = &h.adv_map {
            if m.entries.len() < n {
                cx.class("hvar:short-map-last-entry-reused");
            }
            cx.class(&format!("hvar:map-entry-size-{}", m.entry_size));
            if m.inner_bits == 16 {
                cx.class("hvar:map-inner-index-16-bits");
            }
            if m.format == 1 {
                cx.class("hvar:map-format-1");
            }
        }
        if h.lsb_map.is_some() {
            cx.class("hvar:with-lsb-map");
        }
        for d in &h.ivs.data {
            if d.long {
                cx.class("ivs:long-words");
            }
            if d.word_count > 0 && (d.word_count as usize) < d.region_idx.len() {
                cx.class("ivs:mixed-word-and-short-columns");
            }
        }
    }
    if user.iter().zip(vf.axes.iter()).all(|(u, a)| *u == a.def) {
        cx.class("coords:default-tuple");
    }
    nontrivial
}

fn judge_cff2(cx: &mut Ctx, sub: &Subject<'_>, c: &cff2::Cff2, of: &sfnt::Font, coords: &[i16], user: &[i32], tuple: &[i16]) -> bool {
    let table = match of.gets("CFF2") {
        Some(t) => t,
        None => {
            cx.violation("output", "cff2-table-missing", witness(sub, user, tuple, "instance of a CFF2 font has no CFF2 table".into(), vec![]));
            return false;
        }
    };
    let out = match cff2::read_cff2(table) {
        Some(o) => o,
        None => {
            cx.violation("output", "cff2-unreadable", witness(sub, user, tuple, "CFF2 table of the instance is unreadable".into(), vec![("cff2", J::hex(&table[..table.len().min(600)]))]));
            return false;
        }
    };
    if out.has_vstore {
        cx.violation("static", "cff2-vstore-left", witness(sub, user, tuple, "CFF2 table of the instance still has a VariationStore".into(), vec![]));
    }
    if out.charstrings.len() != c.glyphs.len() {
        cx.violation("output", "cff2-glyph-count", witness(sub, user, tuple, format!("{} CharStrings, expected {}", out.charstrings.len(), c.glyphs.len()), vec![]));
        return false;
    }
    let mut nontrivial = false;
    for (gid, g) in c.glyphs.iter().enumerate() {
        let gw = |what: String, extra: Vec<(&str, J)>| -> J {
            let mut e = vec![("glyph_id", J::U(gid as u64)), ("charstring_ast", J::s(format!("{:?}", g).chars().take(3000).collect::<String>())), ("regions", J::s(format!("{:?} data {:?} private vsindex {:?}", c.regions, c.data_regions, c.private_vsindex))), ("output_charstring", J::hex(&out.charstrings[gid]))];
            e.extend(extra);
            witness(sub, user, tuple, what, e)
        };
        // the output must be free of blend / vsindex / subroutine calls: k_of refuses every blend
        let og = match cff2::read_charstring(&out.charstrings[gid], 0, &|_| None) {
            Some(o) if o.vsindex.is_none() => o,
            _ => {
                cx.violation("static", "cff2-charstring-not-static", gw("output CharString is unreadable or still contains vsindex/blend/subroutine operators".into(), vec![]));
                continue;
            }
        };
        let exp = match cff2::expected_ops(c, g, coords) {
            Some(e) => e,
            None => {
                cx.class("not-judged:cff2-vsindex-outside-store");
                continue;
            }
        };
        if exp.len() != og.ops.len() || exp.iter().zip(og.ops.iter()).any(|(e, o)| e.0 != o.op || e.1.len() != o.args.len() || e.2 != o.mask) {
            cx.violation("outline-structure", "cff2-operators-changed", gw("operators, operand counts or hint masks of the CharString changed".into(), vec![("observed", J::s(format!("{:?}", og).chars().take(2000).collect::<String>()))]));
            continue;
        }
        let mut worst = 0.0f64;
        'ops: for (k, (e, o)) in exp.iter().zip(og.ops.iter()).enumerate() {
            for (j, (ev, ov)) in e.1.iter().zip(o.args.iter()).enumerate() {
                let obs = ov.def as f64 / 65536.0;
                let err = (obs - ev).abs();
                worst = worst.max(err);
                if !e.3 {
                    // no region contributes to this operator: the default values must come out
                    if err > 0.0 {
                        let sig = if err <= 1.0 / 32768.0 { "cff2-operand-changed-without-delta:last-16.16-bit" } else { "cff2-operand-changed-without-delta" };
                        cx.violation("default-identity", sig, gw(format!("operator {} (#{}) operand {}: default {} (16.16 raw {}) observed {} (raw {})", e.0, k, j, ev, (ev * 65536.0) as i64, obs, ov.def), vec![]));
                        break 'ops;
                    }
                } else if err > tol_scalar() {
                    cx.violation("cff2-blend", "cff2-blended-operand", gw(format!("operator {} (#{}) operand {}: expected {:.5} observed {:.5}", e.0, k, j, ev, obs), vec![]));
                    break 'ops;
                }
            }
            if e.3 {
                cx.class("cff2:blend-applied");
                nontrivial = true;
            }
        }
        if worst > 0.01 && worst <= tol_scalar() {
            cx.class("info:cff2-operand-error-above-0.01");
        }
        if g.vsindex.is_some() {
            cx.class("cff2:glyph-vsindex");
        }
    }
    nontrivial
}

/// Is there a component with a 2x2 transform that has off-diagonal terms below this glyph?
fn has_skewed_component(glyphs: &[Glyph], gid: usize, depth: usize) -> bool {
    if depth > 6 {
        return true;
    }
    match glyphs.get(gid) {
        Some(Glyph::Composite(c)) => c.components.iter().any(|k| matches!(k.scale, crate::sfnt::glyf::Scale::Matrix(_, b, c2, _) if b != 0 || c2 != 0) || has_skewed_component(glyphs, k.gid as usize, depth + 1)),
        _ => false,
    }
}

/// Does anything that determines the glyph's lsb (its points, its components, pp1) vary here?
fn gid_moves(vf: &VFont, gid: usize, coords: &[i16]) -> bool {
    fn rec(vf: &VFont, gid: usize, coords: &[i16], depth: usize) -> bool {
        if depth > 6 {
            return true;
        }
        let glyph = match vf.glyphs.get(gid) {
            Some(g) => g,
            None => return true,
        };
        let np = glyph_num_points(glyph);
        if let Some(gv) = vf.gvar.get(gid).and_then(|g| g.as_ref()) {
            match model::glyph_deltas(glyph, gv, coords) {
                Some(d) => {
                    if d.total[..np].iter().any(|t| t.0 != 0.0 || t.1 != 0.0) || (depth == 0 && d.total[np].0 != 0.0) {
                        return true;
                    }
                }
                None => return true,
            }
        }
        if let Glyph::Composite(c) = glyph {
            return c.components.iter().any(|k| rec(vf, k.gid as usize, coords, depth + 1));
        }
        false
    }
    rec(vf, gid, coords, 0)
}

fn glyphs_equal(a: &[Glyph], b: &[Glyph]) -> bool {
    a.len() == b.len()
        && a.iter().zip(b.iter()).all(|(x, y)| match (x, y) {
            (Glyph::Composite(c), Glyph::Composite(d)) => {
                c.components.len() == d.components.len() && c.components.iter().zip(d.components.iter()).all(|(p, q)| p.gid == q.gid && p.args == q.args && p.scale == q.scale && p.extra_flags == q.extra_flags)
            }
            (x, y) => x == y,
        })
}

impl C12 {
    fn run_instances(&mut self, cx: &mut Ctx, rng: &mut Rng, sub: &Subject<'_>, count: usize) -> bool {
        let fd = match ReadScope::new(sub.bytes).read::<FontData<'_>>() {
            Ok(fd) => fd,
            Err(e) => {
                cx.inconclusive(&format!("source-font-rejected:{:?}", e));
                return false;
            }
        };
        let provider = match fd.table_provider(0) {
            Ok(p) => p,
            Err(_) => {
                cx.inconclusive("source-font-rejected:table-provider");
                return false;
            }
        };
        let mut nontrivial = false;
        for k in 0..count {
            let strategy = if k == 0 { 0 } else { 1 + rng.below(5) };
            let user = gen_user_tuple(rng, sub.vf, strategy, cx);
            let fixed: Vec<Fixed> = user.iter().map(|&u| Fixed::from_raw(u)).collect();
            let res = cx.guard("variations::instance", sub.bytes.len(), || variations::instance(&provider, &fixed));
            cx.evals += 1;
            match res {
                None => return nontrivial, // panic recorded
                Some(Err(e)) => {
                    if cx.verbose {
                        eprintln!("instance error {:?} on {} user {:?}", e, sub.label, user);
                    }
                    let es: String = format!("{:?}", e).chars().take(40).collect();
                    if sub.generated {
                        // a generated font is well-formed by construction and was read back by the
                        // independent reader: refusing it means the variation data was not evaluated
                        cx.violation(
                            "instance-refused",
                            &format!("well-formed-font-refused:{}", normalise_digits(&es)),
                            witness(sub, &user, &[], format!("variations::instance returned Err({}) for a well-formed generated font", es), vec![("ast", J::s(format!("{:?}", sub.vf).chars().take(4000).collect::<String>()))]),
                        );
                    } else {
                        cx.inconclusive(&format!("instance-error:{}", es));
                    }
                }
                Some(Ok((out, tuple))) => {
                    let t: Vec<i16> = tuple.iter().map(|v| v.raw_value()).collect();
                    nontrivial |= judge(cx, sub, &user, &out, &t);
                }
            }
        }
        nontrivial
    }

    fn case_generated(&mut self, cx: &mut Ctx, rng: &mut Rng) {
        let vf = gen_vfont(rng, cx.quick());
        let built = build_font(&vf, rng);
        // generator self-check: the independent reader must read back what the AST says
        match model::read_vfont(&built.bytes) {
            Some(back) => {
                let what = if back.axes != vf.axes {
                    Some("fvar")
                } else if back.avar != vf.avar {
                    Some("avar")
                } else if !glyphs_equal(&back.glyphs, &vf.glyphs) {
                    Some("glyf")
                } else if back.metrics != vf.metrics {
                    Some("hmtx")
                } else if back.gvar != vf.gvar || back.shared_tuples != vf.shared_tuples {
                    Some("gvar")
                } else if back.hvar != vf.hvar {
                    Some("HVAR")
                } else if back.mvar != vf.mvar {
                    Some("MVAR")
                } else if back.base != vf.base {
                    Some("static-metrics")
                } else {
                    None
                };
                if let Some(w) = what {
                    if cx.verbose {
                        eprintln!("roundtrip mismatch in {}:\n ast  {:?}\n back {:?}", w, vf, back);
                    }
                    cx.inconclusive(&format!("generator:roundtrip-{}", w));
                    return;
                }
            }
            None => {
                cx.inconclusive("generator:own-font-unreadable");
                return;
            }
        }
        if cx.verbose && std::env::var("C12_DUMP").is_ok() {
            eprintln!("AST {:#?}", vf);
        }
        let sub = Subject { vf: &vf, bytes: &built.bytes, label: "generated", enc: Some(&built.gvar_classes), generated: true, cff: None };
        let count = if cx.quick() { 6 } else { 10 };
        let nt = self.run_instances(cx, rng, &sub, count);
        if vf.has_invalid_region {
            cx.class("font:has-invalid-region");
        }
        if vf.mvar.is_some() {
            cx.class("font:mvar");
        }
        if nt {
            cx.nontrivial(hash_bytes(&built.bytes));
        }
        if cx.want_sample() {
            cx.sample(J::obj(vec![
                ("axes", J::s(format!("{:?}", vf.axes))),
                ("glyphs", J::U(vf.glyphs.len() as u64)),
                ("gvar", J::s(format!("{:?}", vf.gvar).chars().take(500).collect::<String>())),
                ("hvar", J::Bool(vf.hvar.is_some())),
                ("mvar", J::s(format!("{:?}", vf.mvar.as_ref().map(|m| &m.records)))),
                ("font_len", J::U(built.bytes.len() as u64)),
            ]));
        }
    }

    fn case_generated_cff2(&mut self, cx: &mut Ctx, rng: &mut Rng) {
        let mut vf = VFont::default();
        vf.axes = gen_axes(rng);
        let na = vf.axes.len();
        if rng.chance(1, 3) {
            vf.avar = Some((0..na).map(|_| gen_segmap(rng)).collect());
        }
        let n = 1 + rng.below(6);
        vf.glyphs = vec![Glyph::Empty; n];
        vf.gvar = vec![None; n];
        vf.metrics = (0..n).map(|_| (rng.below(2000) as u16, rng.range(-100, 300) as i16)).collect();
        vf.num_h_metrics = if rng.chance(1, 3) { 1 + rng.below(n) } else { n };
        for g in vf.num_h_metrics..n {
            vf.metrics[g].0 = vf.metrics[vf.num_h_metrics - 1].0;
        }
        vf.os2_version = *rng.pick(&[0u16, 2, 4, 5]);
        vf.with_vhea = rng.chance(1, 5);
        for &(tag, table, _off, signed, minv) in MVAR_TARGETS {
            let exists = match table {
                "OS/2" => vf.os2_version >= minv,
                "vhea" => vf.with_vhea,
                _ => true,
            };
            if exists {
                vf.base.insert(tag.to_string(), if signed { rng.range(-1500, 1500) as i32 } else { rng.range(0, 3000) as i32 });
            }
        }
        if rng.chance(1, 2) {
            vf.hvar = Some(cff2::gen_free_hvar(rng, na, n));
        }
        if rng.chance(1, 3) {
            let m = gen_mvar(rng, &vf);
            vf.mvar = Some(m);
        }
        let c = cff2::gen_cff2(rng, na, n);
        let mut cls = Vec::new();
        let table = cff2::write_cff2(&c, na, rng, &mut cls);
        let built = build_font_with(&vf, rng, Some(table));
        // generator self-check
        let ok = (|| -> Option<bool> {
            let f = sfnt::Font::parse(&built.bytes)?;
            let r = cff2::read_cff2(f.gets("CFF2")?)?;
            if r.regions != c.regions || r.data_regions != c.data_regions || r.private_vsindex != c.private_vsindex || r.charstrings.len() != n || !r.has_vstore || r.fd_count != 1 {
                return Some(false);
            }
            for (g, cs) in c.glyphs.iter().zip(r.charstrings.iter()) {
                let back = cff2::read_charstring(cs, c.private_vsindex.unwrap_or(0), &|v| c.data_regions.get(v as usize).map(|x| x.len()))?;
                if !cff2::same_glyph(g, &back) {
                    return Some(false);
                }
            }
            let hv = match f.gets("HVAR") {
                Some(d) => Some(model::read_hvar(d)?),
                None => None,
            };
            let mv = match f.gets("MVAR") {
                Some(d) => Some(model::read_mvar(d)?),
                None => None,
            };
            Some(hv == vf.hvar && mv == vf.mvar && model::read_fvar(f.gets("fvar")?)? == vf.axes && model::read_metrics(&f, n)? == vf.metrics && model::read_base_metrics(&f) == vf.base)
        })();
        if ok != Some(true) {
            if cx.verbose {
                eprintln!("cff2 roundtrip failed: {:?}\n{:?}", ok, c);
            }
            cx.inconclusive("generator:roundtrip-cff2");
            return;
        }
        if cx.verbose && std::env::var("C12_DUMP").is_ok() {
            eprintln!("AST {:#?}\n{:#?}", vf, c);
        }
        let sub = Subject { vf: &vf, bytes: &built.bytes, label: "generated-cff2", enc: None, generated: true, cff: Some(&c) };
        let nt = self.run_instances(cx, rng, &sub, if cx.quick() { 6 } else { 10 });
        for k in cls {
            cx.class(k);
        }
        cx.class("font:generated-cff2");
        if nt {
            cx.nontrivial(hash_bytes(&built.bytes));
        }
    }

    fn case_real(&mut self, cx: &mut Ctx, rng: &mut Rng) {
        if self.real.is_empty() {
            cx.inconclusive("no-real-variable-fonts");
            return;
        }
        let idx = rng.below(self.real.len());
        let (name, bytes, vf, cff2, cff) = {
            let r = &self.real[idx];
            (r.name.clone(), r.bytes.clone(), r.vf.clone(), r.cff2, r.cff.clone())
        };
        if cff2 {
            self.case_cff2(cx, rng, &name, &bytes);
        }
        if let Some(vf) = vf {
            let sub = Subject { vf: &vf, bytes: &bytes, label: &name, enc: None, generated: false, cff: cff.as_ref() };
            let nt = self.run_instances(cx, rng, &sub, 4);
            cx.class(if cff.is_some() { "real-font:cff2-model" } else { "real-font:truetype" });
            if nt {
                cx.nontrivial(mix(hash_str(&name), rng.u64()));
            }
        }
    }

    /// CFF2 fixture: static-ness and default identity of the metrics (the blend arithmetic itself
    /// is not modelled here).
    fn case_cff2(&mut self, cx: &mut Ctx, _rng: &mut Rng, name: &str, bytes: &[u8]) {
        let src = match sfnt::Font::parse(bytes) {
            Some(f) => f,
            None => return,
        };
        let axes = match src.gets("fvar").and_then(model::read_fvar) {
            Some(a) => a,
            None => return,
        };
        let fd = match ReadScope::new(bytes).read::<FontData<'_>>() {
            Ok(fd) => fd,
            Err(_) => return,
        };
        let provider = match fd.table_provider(0) {
            Ok(p) => p,
            Err(_) => return,
        };
        let user: Vec<Fixed> = axes.iter().map(|a| Fixed::from_raw(a.def)).collect();
        let res = cx.guard("variations::instance(cff2)", bytes.len(), || variations::instance(&provider, &user));
        cx.evals += 1;
        let (out, _tuple) = match res {
            Some(Ok(r)) => r,
            Some(Err(e)) => {
                cx.inconclusive(&format!("instance-error-cff2:{:?}", e));
                return;
            }
            None => return,
        };
        let of = match sfnt::Font::parse(&out) {
            Some(f) => f,
            None => {
                cx.violation("static", "output-not-sfnt", J::s(format!("{}: CFF2 instance is not a readable sfnt", name)));
                return;
            }
        };
        for t in VAR_TAGS {
            if of.gets(t).is_some() {
                cx.violation("static", &format!("variation-table-left:{}", t), J::s(format!("{}: CFF2 instance still has '{}'", name, t)));
            }
        }
        let n = src.gets("maxp").and_then(sfnt::tables::maxp_num_glyphs).unwrap_or(0) as usize;
        let hm = |f: &sfnt::Font| -> Option<Vec<(u16, i16)>> {
            let hh = sfnt::tables::Hhea::read(f.gets("hhea")?)?;
            sfnt::tables::read_hmtx(f.gets("hmtx")?, n, hh.num_h_metrics as usize)
        };
        match (hm(&src), hm(&of)) {
            (Some(a), Some(b)) => {
                if a != b {
                    cx.violation("default-identity", "cff2-hmtx-changed-at-default", J::s(format!("{}: hmtx of the default instance differs from the source", name)));
                }
            }
            _ => cx.violation("output", "hmtx-unreadable", J::s(format!("{}: hmtx unreadable", name))),
        }
        let base = model::read_base_metrics(&src);
        let ob = model::read_base_metrics(&of);
        for (k, v) in &base {
            if k.starts_with('v') {
                continue;
            }
            if ob.get(k) != Some(v) {
                cx.violation("default-identity", "cff2-metric-changed-at-default", J::s(format!("{}: '{}' {} became {:?}", name, k, v, ob.get(k))));
            }
        }
        cx.class("real-font:cff2-default-instance");
    }
}

impl Prop for C12 {
    fn case(&mut self, cx: &mut Ctx, rng: &mut Rng) {
        let real = match cx.mode.as_str() {
            "real" => true,
            "gen" | "cff2" => false,
            _ => rng.chance(1, 12),
        };
        let want_cff2 = match cx.mode.as_str() {
            "cff2" => true,
            "gen" | "real" => false,
            _ => rng.chance(1, 5),
        };
        if real {
            self.case_real(cx, rng);
        } else if want_cff2 {
            self.case_generated_cff2(cx, rng);
        } else {
            self.case_generated(cx, rng);
        }
    }
}
