//! C12 — (stub, under construction)

use super::Prop;
use crate::rt::*;

pub struct C12 {}

impl C12 {
    pub fn new(_cx: &mut Ctx) -> C12 {
        C12 {}
    }
}

impl Prop for C12 {
    fn case(&mut self, cx: &mut Ctx, _rng: &mut Rng) {
        cx.inconclusive("not-implemented");
    }
}
