//! C14 — the binary reader stays inside its buffer and decodes exactly.
//!
//! Random programs of reader operations over a window embedded in a poisoned allocation, compared
//! step by step with a shadow model written on `&[u8]` with checked arithmetic. The read-window
//! hook (feature `verif-hooks`) turns any primitive read outside the window the reader was created
//! on into a `VERIF-OOB` panic; Miri runs the same workload for reads the hook cannot see.

use super::Prop;
use crate::rt::*;
use allsorts::binary::read::{
    CheckIndex, ReadArray, ReadArrayCow, ReadBinaryDep, ReadBuf, ReadCtxt, ReadFixedSizeDep,
    ReadScope, ReadScopeOwned, ReadUnchecked,
};
use allsorts::binary::{I16Be, I32Be, I64Be, U16Be, U24Be, U32Be, U64Be, I8, U8};
use allsorts::error::ParseError;
use allsorts::tables::cmap::EncodingRecord;
use std::fmt::Debug;

pub struct C14 {
    real: Option<Vec<SeedFont>>,
}

impl C14 {
    pub fn new(_cx: &mut Ctx) -> C14 {
        C14 { real: None }
    }
}

const POISON: u8 = 0xA5;

/// Shadow of a `ReadScope`: window[lo..hi]
#[derive(Copy, Clone, Debug)]
struct MScope {
    lo: usize,
    hi: usize,
}
impl MScope {
    fn len(&self) -> usize {
        self.hi - self.lo
    }
}

/// Element type with a declared size of `args` bytes whose reader reports how many bytes its window
/// really offers (an element must see exactly its declared size, not its neighbours) and then tries
/// to read one byte more than declared.
struct WindowProbe;
#[derive(Copy, Clone, Debug, PartialEq)]
struct ProbeSeen {
    window_len: usize,
    first: Option<u8>,
    extra_byte_readable: bool,
}
impl ReadBinaryDep for WindowProbe {
    type Args<'a> = usize;
    type HostType<'a> = ProbeSeen;
    fn read_dep<'a>(ctxt: &mut ReadCtxt<'a>, size: usize) -> Result<ProbeSeen, ParseError> {
        let window_len = ctxt.scope().data().len();
        let body = ctxt.read_slice(size)?;
        let extra_byte_readable = ctxt.read_u8().is_ok();
        Ok(ProbeSeen { window_len, first: body.first().copied(), extra_byte_readable })
    }
}
impl ReadFixedSizeDep for WindowProbe {
    fn size(size: usize) -> usize {
        size
    }
}

struct CtxtPair<'a> {
    c: ReadCtxt<'a>,
    s: MScope,
    off: usize,
}

/// Decoders of the shadow model.
trait Dec: ReadUnchecked {
    const NAME: &'static str;
    fn dec(b: &[u8]) -> Self::HostType;
}
macro_rules! dec {
    ($t:ty, $name:expr, |$b:ident| $e:expr) => {
        impl Dec for $t {
            const NAME: &'static str = $name;
            fn dec($b: &[u8]) -> <$t as ReadUnchecked>::HostType {
                $e
            }
        }
    };
}
dec!(U8, "u8", |b| b[0]);
dec!(I8, "i8", |b| b[0] as i8);
dec!(U16Be, "u16", |b| u16::from_be_bytes([b[0], b[1]]));
dec!(I16Be, "i16", |b| i16::from_be_bytes([b[0], b[1]]));
dec!(U24Be, "u24", |b| ((b[0] as u32) << 16)
    | ((b[1] as u32) << 8)
    | b[2] as u32);
dec!(U32Be, "u32", |b| u32::from_be_bytes([b[0], b[1], b[2], b[3]]));
dec!(I32Be, "i32", |b| i32::from_be_bytes([b[0], b[1], b[2], b[3]]));
dec!(U64Be, "u64", |b| u64::from_be_bytes([
    b[0], b[1], b[2], b[3], b[4], b[5], b[6], b[7]
]));
dec!(I64Be, "i64", |b| i64::from_be_bytes([
    b[0], b[1], b[2], b[3], b[4], b[5], b[6], b[7]
]));
dec!((U8, U16Be), "(u8,u16)", |b| (b[0], u16::from_be_bytes([b[1], b[2]])));
dec!((U16Be, I16Be, U32Be), "(u16,i16,u32)", |b| (
    u16::from_be_bytes([b[0], b[1]]),
    i16::from_be_bytes([b[2], b[3]]),
    u32::from_be_bytes([b[4], b[5], b[6], b[7]])
));
dec!((U8, I8, U24Be, U64Be), "(u8,i8,u24,u64)", |b| (
    b[0],
    b[1] as i8,
    ((b[2] as u32) << 16) | ((b[3] as u32) << 8) | b[4] as u32,
    u64::from_be_bytes([b[5], b[6], b[7], b[8], b[9], b[10], b[11], b[12]])
));

struct Run<'w, 'c> {
    cx: &'c mut Ctx,
    window: &'w [u8],
    failed: bool,
    trace: Vec<String>,
}

impl<'w, 'c> Run<'w, 'c> {
    fn fail(&mut self, rule: &str, what: String) {
        if self.failed {
            return;
        }
        self.failed = true;
        let trace = self.trace.clone();
        let window = self.window;
        self.cx.violation(
            rule,
            rule,
            J::obj(vec![
                ("what", J::s(what)),
                ("window", J::hex(&window[..window.len().min(400)])),
                ("window_len", J::U(window.len() as u64)),
                (
                    "ops",
                    J::A(trace.iter().rev().take(30).rev().map(|s| J::s(s.clone())).collect()),
                ),
            ]),
        );
    }

    fn op(&mut self, s: String) {
        self.trace.push(s);
    }

    fn check_scope(&mut self, scope: &ReadScope<'w>, m: MScope, what: &str) {
        let d = scope.data();
        if d.len() != m.len() {
            self.fail(
                "scope-window",
                format!("{}: scope length {} expected {}", what, d.len(), m.len()),
            );
            return;
        }
        if m.len() > 0 {
            let exp = &self.window[m.lo..m.hi];
            if d.as_ptr() != exp.as_ptr() {
                self.fail(
                    "scope-window",
                    format!("{}: scope does not start at window[{}]", what, m.lo),
                );
            }
        }
    }

    fn check_cursor(&mut self, p: &CtxtPair<'w>, what: &str) {
        let rest = p.c.scope();
        let m = MScope {
            lo: p.s.lo + p.off,
            hi: p.s.hi,
        };
        self.check_scope(&rest, m, what);
        let avail = p.c.bytes_available();
        if avail != (p.off < p.s.len()) {
            self.fail(
                "cursor",
                format!("{}: bytes_available() = {} at {}/{}", what, avail, p.off, p.s.len()),
            );
        }
    }

    fn typed_read<T: Dec>(&mut self, p: &mut CtxtPair<'w>)
    where
        T::HostType: PartialEq + Debug,
    {
        self.op(format!("read::<{}>", T::NAME));
        let got = p.c.read::<T>();
        let fits = p.off.checked_add(T::SIZE).map_or(false, |e| e <= p.s.len());
        match (got, fits) {
            (Ok(v), true) => {
                let exp = T::dec(&self.window[p.s.lo + p.off..p.s.lo + p.off + T::SIZE]);
                if v != exp {
                    self.fail(
                        "decode",
                        format!("read::<{}> at {} = {:?} expected {:?}", T::NAME, p.off, v, exp),
                    );
                }
                p.off += T::SIZE;
                self.cx.class(&format!("read:{}:ok", T::NAME));
            }
            (Err(e), false) => {
                if e != ParseError::BadEof {
                    self.fail("error-kind", format!("read::<{}> past end gave {:?}", T::NAME, e));
                }
                self.cx.class(&format!("read:{}:eof", T::NAME));
            }
            (Ok(v), false) => self.fail(
                "read-past-end",
                format!(
                    "read::<{}> at {}/{} returned {:?} instead of an error",
                    T::NAME,
                    p.off,
                    p.s.len(),
                    v
                ),
            ),
            (Err(e), true) => self.fail(
                "spurious-error",
                format!("read::<{}> at {}/{} failed with {:?}", T::NAME, p.off, p.s.len(), e),
            ),
        }
        self.check_cursor(p, "after typed read");
    }

    fn pick_count(&mut self, rng: &mut Rng, avail: usize, size: usize) -> (usize, &'static str) {
        let fit = if size == 0 { 0 } else { avail / size };
        match rng.below(12) {
            0 => (0, "0"),
            1 => (1, "1"),
            2 => (fit, "fit"),
            3 => (fit + 1, "fit+1"),
            4 => (fit.saturating_sub(1), "fit-1"),
            5 => (usize::MAX, "max"),
            6 => (usize::MAX / size.max(1), "max/size"),
            7 => ((usize::MAX / size.max(1)).wrapping_add(1), "max/size+1"),
            8 => (usize::MAX / 2 + 1, "max/2+1"),
            9 => (rng.u64() as usize, "huge"),
            _ => (rng.below(fit + 2), "small"),
        }
    }

    fn array_checks<T: Dec + Clone>(
        &mut self,
        rng: &mut Rng,
        arr: &ReadArray<'w, T>,
        m: MScope,
        n: usize,
        stride: usize,
    ) where
        T::HostType: PartialEq + Debug + Copy + Ord,
    {
        let window = self.window;
        let item = |i: usize| T::dec(&window[m.lo + i * stride..m.lo + i * stride + T::SIZE]);
        if arr.len() != n || arr.is_empty() != (n == 0) {
            self.fail("array-len", format!("len() = {} expected {}", arr.len(), n));
            return;
        }
        for _ in 0..4 {
            let idx = match rng.below(7) {
                0 => 0,
                1 => n.wrapping_sub(1),
                2 => n,
                3 => usize::MAX,
                4 => n + 1,
                _ => rng.below(n + 1),
            };
            self.op(format!("get_item/read_item/check_index({})", idx));
            let g = arr.get_item(idx);
            let r = arr.read_item(idx);
            let c = arr.check_index(idx);
            if idx < n {
                let e = item(idx);
                if g != Some(e) {
                    self.fail("array-item", format!("get_item({}) = {:?} expected {:?}", idx, g, e));
                }
                if r.as_ref().ok() != Some(&e) {
                    self.fail("array-item", format!("read_item({}) = {:?} expected {:?}", idx, r, e));
                }
                if c.is_err() {
                    self.fail("array-item", format!("check_index({}) failed, len {}", idx, n));
                }
                self.cx.class("array:index-in");
            } else {
                if g.is_some() || r.is_ok() || c.is_ok() {
                    self.fail(
                        "array-index-past-end",
                        format!("index {} of {} accepted: {:?} {:?} {:?}", idx, n, g, r, c),
                    );
                }
                self.cx.class("array:index-out");
            }
        }
        let last = arr.last();
        let exp_last = if n > 0 { Some(item(n - 1)) } else { None };
        if last != exp_last {
            self.fail("array-item", format!("last() = {:?} expected {:?}", last, exp_last));
        }
        if n <= 4096 {
            self.op("iter/iter_res/to_vec/read_to_vec".to_string());
            let exp: Vec<T::HostType> = (0..n).map(item).collect();
            let got: Vec<T::HostType> = arr.iter().collect();
            // ReadArrayIter is bounded by the scope; for stride > SIZE the same elements
            if got != exp {
                self.fail(
                    "array-iter",
                    format!("iter() yielded {} items {:?}.. expected {} items", got.len(), &got[..got.len().min(4)], n),
                );
            }
            let got2: Result<Vec<T::HostType>, ParseError> = arr.iter_res().collect();
            if got2.as_ref().ok() != Some(&exp) {
                self.fail("array-iter", format!("iter_res() differs (n={})", n));
            }
            if arr.to_vec() != exp {
                self.fail("array-iter", "to_vec() differs".to_string());
            }
            // iterator adaptors: whatever `nth` / `skip` / `step_by` / `count` / `last` do internally,
            // they must expose exactly the elements of the array, also for step counts near usize::MAX
            self.op("iter:nth/skip/step_by/count/last".to_string());
            let big = [usize::MAX, usize::MAX - 1, usize::MAX / 2, usize::MAX / 2 + 1, usize::MAX / 2 + 2, usize::MAX / 4 + 1, usize::MAX / 8 + 1, usize::MAX / 3 + 1];
            let mut ks: Vec<usize> = vec![0, 1, n.saturating_sub(1), n, n + 1];
            let h = n.wrapping_mul(2654435761).wrapping_add(self.trace.len().wrapping_mul(40503));
            ks.push(h % (n + 2));
            ks.push(big[h % big.len()]);
            ks.push(big[(h / 8) % big.len()]);
            for k in ks {
                let mut it = arr.iter();
                let a = it.nth(k);
                if a != exp.get(k).cloned() {
                    self.fail("array-iter-adaptor", format!("iter().nth({}) = {:?} expected {:?} (n={})", k, a, exp.get(k), n));
                }
                let b = it.next();
                let eb = k.checked_add(1).and_then(|j| exp.get(j).cloned());
                if b != eb {
                    self.fail("array-iter-adaptor", format!("next() after nth({}) = {:?} expected {:?} (n={})", k, b, eb, n));
                }
                let c = arr.iter().skip(k).next();
                if c != exp.get(k).cloned() {
                    self.fail("array-iter-adaptor", format!("iter().skip({}).next() = {:?} expected {:?} (n={})", k, c, exp.get(k), n));
                }
                if k > n {
                    self.cx.class("array:iter-nth-beyond-end");
                }
                if k > usize::MAX / 16 {
                    self.cx.class("array:iter-nth-huge");
                }
            }
            let step = 1 + (n.wrapping_add(self.trace.len())) % 4;
            let sb: Vec<T::HostType> = arr.iter().step_by(step).collect();
            let esb: Vec<T::HostType> = exp.iter().cloned().step_by(step).collect();
            if sb != esb {
                self.fail("array-iter-adaptor", format!("iter().step_by({}) differs (n={})", step, n));
            }
            if arr.iter().count() != n || arr.iter().last() != exp.last().cloned() {
                self.fail("array-iter-adaptor", format!("iter().count()/last() differ (n={})", n));
            }
            if arr.read_to_vec().ok().as_ref() != Some(&exp) {
                self.fail("array-iter", "read_to_vec() differs".to_string());
            }
            let mut cnt = 0usize;
            for x in arr {
                if cnt < n && x != exp[cnt] {
                    self.fail("array-iter", "IntoIterator differs".to_string());
                }
                cnt += 1;
            }
            if cnt != n {
                self.fail("array-iter", format!("IntoIterator yielded {} of {}", cnt, n));
            }
            self.cx.class("array:iter");
            // binary search
            if n > 0 {
                let target = if rng.bool() { exp[rng.below(n)] } else { item(rng.below(n)) };
                let sorted = exp.windows(2).all(|w| w[0] <= w[1]);
                self.op(format!("binary_search_by (sorted={})", sorted));
                let mut probes = 0usize;
                let res = arr.binary_search_by(|x| {
                    probes += 1;
                    x.cmp(&target)
                });
                match res {
                    Ok(i) => {
                        if i >= n || exp[i] != target {
                            self.fail("binary-search", format!("Ok({}) but element differs / out of range {}", i, n));
                        }
                    }
                    Err(i) => {
                        if i > n {
                            self.fail("binary-search", format!("Err({}) beyond len {}", i, n));
                        } else if sorted {
                            let ok = exp[..i].iter().all(|x| *x < target)
                                && exp[i..].iter().all(|x| *x > target);
                            if !ok {
                                self.fail("binary-search", format!("Err({}) is not the insertion point", i));
                            }
                        }
                    }
                }
                if probes > 70 {
                    self.fail("binary-search", format!("{} probes for {} elements", probes, n));
                }
                self.cx.class(if sorted { "array:bsearch-sorted" } else { "array:bsearch-unsorted" });
            }
            // Cow wrappers
            if rng.chance(1, 3) {
                self.op("ReadArrayCow".to_string());
                let b: ReadArrayCow<'w, T> = ReadArrayCow::Borrowed(arr.clone());
                let o: ReadArrayCow<'w, T> = ReadArrayCow::Owned(exp.clone());
                for cow in [&b, &o] {
                    let v: Vec<T::HostType> = cow.iter().collect();
                    if v != exp || cow.len() != n || cow.is_empty() != (n == 0) {
                        self.fail("array-cow", "ReadArrayCow iteration differs".to_string());
                    }
                    for idx in [0usize, n.wrapping_sub(1), n, usize::MAX] {
                        let e = if idx < n { Some(exp[idx]) } else { None };
                        if cow.get_item(idx) != e
                            || cow.read_item(idx).ok() != e
                            || cow.check_index(idx).is_ok() != e.is_some()
                        {
                            self.fail("array-cow", format!("ReadArrayCow index {} of {}", idx, n));
                        }
                    }
                }
                self.cx.class("array:cow");
            }
        }
    }

    /// read_array_dep with an element type that looks at its own window: every element handed out by
    /// read_item / iter_res / read_to_vec must see exactly its declared size.
    fn element_window_probe(&mut self, rng: &mut Rng, p: &mut CtxtPair<'w>) {
        let avail = p.s.len() - p.off;
        let size = 1 + rng.below(6);
        let n = if rng.chance(1, 5) { avail / size + 1 } else { rng.below(avail / size + 1) };
        self.op(format!("read_array_dep::<WindowProbe>({}, size {})", n, size));
        let res = p.c.read_array_dep::<WindowProbe>(n, size);
        let fits = n.checked_mul(size).map_or(false, |b| b <= avail);
        match (res, fits) {
            (Ok(arr), true) => {
                let lo = p.s.lo + p.off;
                p.off += n * size;
                let mut seen: Vec<(usize, Result<ProbeSeen, ParseError>)> = Vec::new();
                for _ in 0..3.min(n) {
                    let i = rng.below(n);
                    seen.push((i, arr.read_item(i)));
                }
                for (i, r) in arr.iter_res().enumerate() {
                    seen.push((i, r));
                }
                if let Ok(v) = arr.read_to_vec() {
                    for (i, x) in v.into_iter().enumerate() {
                        seen.push((i, Ok(x)));
                    }
                }
                for (i, r) in seen {
                    match r {
                        Ok(x) => {
                            let want_first = self.window.get(lo + i * size).copied();
                            if x.window_len != size || x.extra_byte_readable || x.first != want_first {
                                self.fail("element-window", format!("element {} of a dependent array with element size {} saw a window of {} bytes (extra byte readable: {}, first byte {:?} expected {:?})", i, size, x.window_len, x.extra_byte_readable, x.first, want_first));
                                return;
                            }
                        }
                        Err(e) => {
                            self.fail("element-window", format!("element {} of {} (size {}) failed to read: {:?}", i, n, size, e));
                            return;
                        }
                    }
                }
                if n > 0 {
                    self.cx.class("array:element-window-probed");
                }
                if matches!(arr.read_item(n), Ok(_)) {
                    self.fail("element-window", format!("read_item({}) on an array of {} elements succeeded", n, n));
                }
            }
            (Err(_), false) => self.cx.class("read_array_dep:probe:err"),
            (Ok(arr), false) => self.fail("array-past-end", format!("read_array_dep::<WindowProbe>({}, {}) with {} bytes left returned an array of len {}", n, size, avail, arr.len())),
            (Err(e), true) => self.fail("array-refused", format!("read_array_dep::<WindowProbe>({}, {}) with {} bytes left failed: {:?}", n, size, avail, e)),
        }
    }

    fn array_read<T: Dec + Clone>(&mut self, rng: &mut Rng, p: &mut CtxtPair<'w>)
    where
        T::HostType: PartialEq + Debug + Copy + Ord,
    {
        let avail = p.s.len() - p.off;
        let kind = rng.below(4);
        let (n, ncls) = self.pick_count(rng, avail, T::SIZE);
        let (res, stride, name): (Result<ReadArray<'w, T>, ParseError>, usize, &str) = match kind {
            0 => (p.c.read_array::<T>(n), T::SIZE, "read_array"),
            1 => {
                let stride = match rng.below(6) {
                    0 => T::SIZE.saturating_sub(1),
                    1 => 0,
                    2 => T::SIZE,
                    3 => T::SIZE + 1,
                    4 => usize::MAX,
                    _ => T::SIZE + rng.below(9),
                };
                (p.c.read_array_stride::<T>(n, stride), stride, "read_array_stride")
            }
            2 => (p.c.read_array_dep::<T>(n, ()), T::SIZE, "read_array_dep"),
            _ => (p.c.read_array_upto_hack::<T>(n), T::SIZE, "read_array_upto_hack"),
        };
        self.op(format!("{}::<{}>({}[{}], stride {})", name, T::NAME, n, ncls, stride));
        // model
        let exp: Result<(usize, usize), ()> = if kind == 1 && T::SIZE > stride {
            Err(())
        } else if kind == 3 {
            let n2 = n.min(avail / T::SIZE);
            Ok((n2, n2 * T::SIZE))
        } else {
            match n.checked_mul(stride) {
                Some(bytes) if bytes <= avail => Ok((n, bytes)),
                _ => Err(()),
            }
        };
        match (res, exp) {
            (Ok(arr), Ok((n2, bytes))) => {
                let m = MScope {
                    lo: p.s.lo + p.off,
                    hi: p.s.lo + p.off + bytes,
                };
                p.off += bytes;
                self.cx.class(&format!("{}:ok:{}", name, ncls));
                self.array_checks::<T>(rng, &arr, m, n2, stride);
            }
            (Err(_), Err(())) => {
                self.cx.class(&format!("{}:err:{}", name, ncls));
            }
            (Ok(arr), Err(())) => self.fail(
                "array-past-end",
                format!(
                    "{}::<{}>({}, stride {}) with {} bytes left returned an array of len {}",
                    name,
                    T::NAME,
                    n,
                    stride,
                    avail,
                    arr.len()
                ),
            ),
            (Err(e), Ok(_)) => self.fail(
                "spurious-error",
                format!("{}::<{}>({}, stride {}) with {} bytes left failed: {:?}", name, T::NAME, n, stride, avail, e),
            ),
        }
        self.check_cursor(p, "after array read");
    }

    fn scope_ops(&mut self, rng: &mut Rng, scope: ReadScope<'w>, m: MScope, depth: usize) -> Option<(ReadScope<'w>, MScope)> {
        // offset / offset_length / owned copies; returns a derived scope to continue on
        let len = m.len();
        let pick = |rng: &mut Rng| -> usize {
            match rng.below(9) {
                0 => 0,
                1 => len,
                2 => len + 1,
                3 => len.saturating_sub(1),
                4 => usize::MAX,
                5 => usize::MAX - len,
                6 => rng.u64() as usize,
                _ => rng.below(len + 2),
            }
        };
        match rng.below(4) {
            0 => {
                let o = pick(rng);
                self.op(format!("scope.offset({})", o));
                let s2 = scope.offset(o);
                let m2 = if o <= len {
                    MScope { lo: m.lo + o, hi: m.hi }
                } else {
                    MScope { lo: m.hi, hi: m.hi }
                };
                self.check_scope(&s2, m2, "offset");
                self.cx.class(if o <= len { "scope.offset:in" } else { "scope.offset:out" });
                Some((s2, m2))
            }
            1 => {
                let o = pick(rng);
                let l = pick(rng);
                self.op(format!("scope.offset_length({}, {})", o, l));
                let r = scope.offset_length(o, l);
                let exp = if o < len {
                    if l <= len - o { Some(MScope { lo: m.lo + o, hi: m.lo + o + l }) } else { None }
                } else if l == 0 {
                    Some(MScope { lo: m.hi, hi: m.hi })
                } else {
                    None
                };
                match (r, exp) {
                    (Ok(s2), Some(m2)) => {
                        self.check_scope(&s2, m2, "offset_length");
                        self.cx.class("scope.offset_length:ok");
                        Some((s2, m2))
                    }
                    (Err(_), None) => {
                        self.cx.class("scope.offset_length:err");
                        None
                    }
                    (Ok(s2), None) => {
                        self.fail("scope-past-end", format!("offset_length({}, {}) on {} bytes gave {} bytes", o, l, len, s2.data().len()));
                        None
                    }
                    (Err(e), Some(_)) => {
                        self.fail("spurious-error", format!("offset_length({}, {}) on {} bytes failed {:?}", o, l, len, e));
                        None
                    }
                }
            }
            2 if depth < 3 => {
                self.op("ReadScopeOwned/ReadBuf".to_string());
                let owned = ReadScopeOwned::new(scope);
                if owned.scope().data() != &self.window[m.lo..m.hi] {
                    self.fail("scope-window", "ReadScopeOwned data differs".to_string());
                }
                let buf = ReadBuf::from(&self.window[m.lo..m.hi]);
                if buf.scope().data() != &self.window[m.lo..m.hi] {
                    self.fail("scope-window", "ReadBuf data differs".to_string());
                }
                let buf2 = ReadBuf::from(self.window[m.lo..m.hi].to_vec());
                if buf2.scope().data() != &self.window[m.lo..m.hi] {
                    self.fail("scope-window", "ReadBuf(Vec) data differs".to_string());
                }
                self.cx.class("scope:owned");
                None
            }
            _ => {
                self.op("scope.read::<EncodingRecord>".to_string());
                let r = scope.read::<EncodingRecord>();
                if len >= 8 {
                    let b = &self.window[m.lo..m.lo + 8];
                    match r {
                        Ok(rec) => {
                            let ok = rec.platform_id.0 == u16::from_be_bytes([b[0], b[1]])
                                && rec.encoding_id.0 == u16::from_be_bytes([b[2], b[3]])
                                && rec.offset == u32::from_be_bytes([b[4], b[5], b[6], b[7]]);
                            if !ok {
                                self.fail("decode", "EncodingRecord fields differ".to_string());
                            }
                            self.cx.class("readfrom:ok");
                        }
                        Err(e) => self.fail("spurious-error", format!("EncodingRecord read failed {:?}", e)),
                    }
                } else if r.is_ok() {
                    self.fail("read-past-end", format!("EncodingRecord read from {} bytes", len));
                } else {
                    self.cx.class("readfrom:eof");
                }
                None
            }
        }
    }

    fn program(&mut self, rng: &mut Rng, nops: usize) {
        let full = MScope { lo: 0, hi: self.window.len() };
        let root = ReadScope::new(self.window);
        let mut ctxts: Vec<CtxtPair<'w>> = vec![CtxtPair { c: root.ctxt(), s: full, off: 0 }];
        let mut scopes: Vec<(ReadScope<'w>, MScope)> = vec![(root, full)];
        for _ in 0..nops {
            if self.failed {
                return;
            }
            let ci = rng.below(ctxts.len());
            match rng.below(20) {
                0..=5 => {
                    let p = &mut ctxts[ci];
                    let mut p2 = CtxtPair { c: p.c.clone(), s: p.s, off: p.off };
                    match rng.below(12) {
                        0 => self.typed_read::<U8>(&mut p2),
                        1 => self.typed_read::<I8>(&mut p2),
                        2 => self.typed_read::<U16Be>(&mut p2),
                        3 => self.typed_read::<I16Be>(&mut p2),
                        4 => self.typed_read::<U24Be>(&mut p2),
                        5 => self.typed_read::<U32Be>(&mut p2),
                        6 => self.typed_read::<I32Be>(&mut p2),
                        7 => self.typed_read::<U64Be>(&mut p2),
                        8 => self.typed_read::<I64Be>(&mut p2),
                        9 => self.typed_read::<(U8, U16Be)>(&mut p2),
                        10 => self.typed_read::<(U16Be, I16Be, U32Be)>(&mut p2),
                        _ => self.typed_read::<(U8, I8, U24Be, U64Be)>(&mut p2),
                    }
                    ctxts[ci] = p2;
                }
                6 => {
                    // the named primitive readers
                    let p = &mut ctxts[ci];
                    let left = p.s.len() - p.off;
                    let at = p.s.lo + p.off;
                    let w = self.window;
                    macro_rules! prim {
                        ($f:ident, $n:expr, $dec:expr) => {{
                            let r = p.c.$f();
                            if left >= $n {
                                let b = &w[at..at + $n];
                                let e = $dec(b);
                                if r.ok() != Some(e) {
                                    self.fail("decode", format!("{} at {} differs", stringify!($f), p.off));
                                }
                                p.off += $n;
                            } else if r.is_ok() {
                                self.fail("read-past-end", format!("{} with {} bytes left succeeded", stringify!($f), left));
                            }
                        }};
                    }
                    self.trace.push("primitive read_*".to_string());
                    match rng.below(8) {
                        0 => prim!(read_u8, 1, |b: &[u8]| b[0]),
                        1 => prim!(read_i8, 1, |b: &[u8]| b[0] as i8),
                        2 => prim!(read_u16be, 2, |b: &[u8]| u16::from_be_bytes([b[0], b[1]])),
                        3 => prim!(read_i16be, 2, |b: &[u8]| i16::from_be_bytes([b[0], b[1]])),
                        4 => prim!(read_u32be, 4, |b: &[u8]| u32::from_be_bytes([b[0], b[1], b[2], b[3]])),
                        5 => prim!(read_i32be, 4, |b: &[u8]| i32::from_be_bytes([b[0], b[1], b[2], b[3]])),
                        6 => prim!(read_u64be, 8, |b: &[u8]| u64::from_be_bytes([b[0], b[1], b[2], b[3], b[4], b[5], b[6], b[7]])),
                        _ => prim!(read_i64be, 8, |b: &[u8]| i64::from_be_bytes([b[0], b[1], b[2], b[3], b[4], b[5], b[6], b[7]])),
                    }
                    self.cx.class("read:primitive");
                    let p = &ctxts[ci];
                    let p2 = CtxtPair { c: p.c.clone(), s: p.s, off: p.off };
                    self.check_cursor(&p2, "after primitive read");
                }
                7..=10 => {
                    let p = &ctxts[ci];
                    let mut p2 = CtxtPair { c: p.c.clone(), s: p.s, off: p.off };
                    match rng.below(7) {
                        6 => self.element_window_probe(rng, &mut p2),
                        0 => self.array_read::<U8>(rng, &mut p2),
                        1 => self.array_read::<U16Be>(rng, &mut p2),
                        2 => self.array_read::<I16Be>(rng, &mut p2),
                        3 => self.array_read::<U24Be>(rng, &mut p2),
                        4 => self.array_read::<U32Be>(rng, &mut p2),
                        _ => self.array_read::<(U16Be, I16Be, U32Be)>(rng, &mut p2),
                    }
                    ctxts[ci] = p2;
                }
                11 | 12 => {
                    // read_scope / read_slice
                    let p = &mut ctxts[ci];
                    let avail = p.s.len() - p.off;
                    let n = match rng.below(8) {
                        0 => 0,
                        1 => avail,
                        2 => avail + 1,
                        3 => usize::MAX,
                        4 => usize::MAX - p.off,
                        5 => (usize::MAX - p.off).wrapping_add(1),
                        _ => rng.below(avail + 2),
                    };
                    let use_slice = rng.bool();
                    self.trace.push(format!("{}({})", if use_slice { "read_slice" } else { "read_scope" }, n));
                    let got: Option<ReadScope<'w>> = if use_slice {
                        p.c.read_slice(n).ok().map(ReadScope::new)
                    } else {
                        p.c.read_scope(n).ok()
                    };
                    let (plo, poff) = (p.s.lo, p.off);
                    if n <= avail {
                        p.off += n;
                    }
                    let p2 = CtxtPair { c: p.c.clone(), s: p.s, off: p.off };
                    if n <= avail {
                        match got {
                            Some(s2) => {
                                let m2 = MScope { lo: plo + poff, hi: plo + poff + n };
                                self.check_scope(&s2, m2, "read_scope");
                                self.cx.class("read_scope:ok");
                                if scopes.len() < 8 {
                                    scopes.push((s2, m2));
                                }
                            }
                            None => self.fail("spurious-error", format!("read_scope({}) with {} left failed", n, avail)),
                        }
                    } else {
                        if got.is_some() {
                            self.fail("scope-past-end", format!("read_scope({}) with {} left succeeded", n, avail));
                        }
                        self.cx.class("read_scope:eof");
                    }
                    self.check_cursor(&p2, "after read_scope");
                }
                13 => {
                    let p = &mut ctxts[ci];
                    let nib = rng.below(16) as u8;
                    self.trace.push(format!("read_until_nibble({:x})", nib));
                    let rest = &self.window[p.s.lo + p.off..p.s.hi];
                    let exp = rest.iter().position(|&b| (b >> 4) == nib || (b & 0xF) == nib);
                    let got = p.c.read_until_nibble(nib);
                    match (got, exp) {
                        (Ok(sl), Some(pos)) => {
                            if sl.len() != pos + 1 || sl.as_ptr() != rest.as_ptr() {
                                self.fail("scope-window", format!("read_until_nibble returned {} bytes expected {}", sl.len(), pos + 1));
                            }
                            p.off += pos + 1;
                            self.cx.class("read_until_nibble:ok");
                        }
                        (Err(_), None) => self.cx.class("read_until_nibble:eof"),
                        (Ok(_), None) => self.fail("read-past-end", "read_until_nibble found a nibble that is not there".to_string()),
                        (Err(_), Some(_)) => self.fail("spurious-error", "read_until_nibble missed a nibble".to_string()),
                    }
                    let p = &ctxts[ci];
                    let p2 = CtxtPair { c: p.c.clone(), s: p.s, off: p.off };
                    self.check_cursor(&p2, "after read_until_nibble");
                }
                14 => {
                    // ctxt.scope() -> new scope
                    let p = &ctxts[ci];
                    let s2 = p.c.scope();
                    let m2 = MScope { lo: p.s.lo + p.off, hi: p.s.hi };
                    self.trace.push("ctxt.scope()".to_string());
                    self.check_scope(&s2, m2, "ctxt.scope()");
                    if scopes.len() < 8 {
                        scopes.push((s2, m2));
                    }
                }
                15..=17 => {
                    let si = rng.below(scopes.len());
                    let (s, m) = scopes[si];
                    if let Some(derived) = self.scope_ops(rng, s, m, 0) {
                        if scopes.len() < 8 {
                            scopes.push(derived);
                        } else {
                            let k = 1 + rng.below(7);
                            scopes[k] = derived;
                        }
                    }
                }
                _ => {
                    // new ctxt from a scope
                    let si = rng.below(scopes.len());
                    let (s, m) = scopes[si];
                    self.trace.push("scope.ctxt()".to_string());
                    let np = CtxtPair { c: s.ctxt(), s: m, off: 0 };
                    if ctxts.len() < 6 {
                        ctxts.push(np);
                    } else {
                        let k = rng.below(6);
                        ctxts[k] = np;
                    }
                }
            }
        }
    }
}

impl Prop for C14 {
    fn case(&mut self, cx: &mut Ctx, rng: &mut Rng) {
        if cx.mode == "parse" || (cx.mode.is_empty() && rng.chance(1, 40)) {
            // real parsing under the read-window hook
            if self.real.is_none() {
                let mut fonts = load_seed_fonts(if cx.quick() { 200_000 } else { 3_000_000 }, true);
                fonts.sort_by_key(|f| f.data.len());
                self.real = Some(fonts);
            }
            let fonts = self.real.as_ref().unwrap();
            if fonts.is_empty() {
                cx.inconclusive("no-seed-fonts");
                return;
            }
            let f = &fonts[rng.below(fonts.len())];
            let before = allsorts::verif::snapshot().reads;
            let mut data = f.data.clone();
            let faulted = rng.chance(1, 2);
            if faulted {
                for _ in 0..1 + rng.below(4) {
                    let i = rng.below(data.len());
                    data[i] = *rng.pick(&[0u8, 0xff, 0x7f, 0x80, 1]);
                }
            }
            let r = std::panic::catch_unwind(std::panic::AssertUnwindSafe(|| {
                super::entry::exercise_font(&data, rng, super::entry::Depth::Light)
            }));
            if r.is_err() {
                // only out-of-window reads matter here; other panics belong to C01
                let p = take_last_panic().unwrap_or_default();
                if p.message.starts_with("VERIF-OOB") {
                    cx.panic_violation(
                        "real-parse",
                        &p,
                        J::obj(vec![("font", J::s(f.name.clone())), ("faulted", J::Bool(faulted))]),
                    );
                } else if is_harness_panic(&p) {
                    cx.inconclusive("harness-panic");
                    eprintln!("HARNESS-PANIC C14 parse: {} at {}", p.message, p.location);
                } else {
                    cx.class("parse:panic-belonging-to-C01");
                }
            }
            let reads = allsorts::verif::snapshot().reads - before;
            cx.class_n("parse:hooked-reads", reads);
            cx.class(if faulted { "parse:faulted-font" } else { "parse:clean-font" });
            if reads > 0 {
                cx.nontrivial(mix(hash_bytes(&data), 14));
            }
            return;
        }
        // op-sequence workload
        let wlen = match rng.below(10) {
            0 => 0,
            1 => 1,
            2 => rng.below(8),
            _ => rng.below(301),
        };
        let pre = rng.below(64);
        let post = rng.below(64);
        let mut big = vec![POISON; pre + wlen + post];
        let sorted = rng.chance(1, 3);
        for i in 0..wlen {
            big[pre + i] = rng.u8();
        }
        if sorted {
            // make big-endian arrays of any element size non-decreasing: sort bytes
            big[pre..pre + wlen].sort();
        }
        let window = &big[pre..pre + wlen];
        let nops = 1 + rng.below(if cx.quick() { 60 } else { 200 });
        let h = mix(hash_bytes(window), rng.clone().u64());
        let mut run = Run { cx, window, failed: false, trace: Vec::new() };
        run.program(rng, nops);
        let trace_len = run.trace.len();
        let sample = if run.cx.want_sample() {
            Some(J::obj(vec![
                ("window_len", J::U(wlen as u64)),
                ("ops", J::A(run.trace.iter().take(12).map(|s| J::s(s.clone())).collect())),
            ]))
        } else {
            None
        };
        drop(run);
        if let Some(s) = sample {
            cx.sample(s);
        }
        cx.class_n("ops", trace_len as u64);
        if trace_len >= 2 && wlen > 0 {
            cx.nontrivial(h);
        }
        // surrounding poison must be intact (the reader never writes, this guards the harness)
        if big[..pre].iter().any(|&b| b != POISON) || big[pre + wlen..].iter().any(|&b| b != POISON) {
            cx.violation("poison-overwritten", "poison", J::Null);
        }
    }
}
