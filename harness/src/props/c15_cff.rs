//! C15 helpers: CFF building blocks — operands, operators, DICTs, INDEXes, charsets, encodings,
//! FDSelects. Whole CFF / CFF2 / ItemVariationStore live in c15_cffw.rs.

use super::tt::*;
use super::*;
use allsorts::binary::read::{ReadArrayCow, ReadScope};
use allsorts::binary::write::{WriteBinary, WriteBinaryDep, WriteBuffer};
use allsorts::binary::{U16Be, U8};
use allsorts::cff::cff2;
use allsorts::cff::{
    self, CustomCharset, CustomEncoding, Dict, DictDefault, DictDelta, FDSelect, Header, Index, IndexU16, IndexU32, Operand, Operator, Range,
};
use allsorts::error::{ParseError, WriteError};
use std::convert::TryFrom;

// ---------------------------------------------------------------------------------------------
// independent encoders (generator side)
// ---------------------------------------------------------------------------------------------

#[derive(Clone, Debug, PartialEq)]
pub enum Opnd {
    /// value, encoding form: 0 = shortest, 1 = 28 (i16) if it fits else 29, 2 = 29 (i32)
    Int(i32, u8),
    /// raw BCD bytes following the 30 prefix (the last byte holds the first 0xF nibble)
    Real(Vec<u8>),
}

pub type DictAst = Vec<(u16, Vec<Opnd>)>;

pub fn enc_int(v: i32, form: u8, out: &mut Vec<u8>) {
    let shortest = form == 0;
    if shortest && (-107..=107).contains(&v) {
        out.push((v + 139) as u8);
    } else if shortest && (108..=1131).contains(&v) {
        let w = v - 108;
        out.push((w / 256 + 247) as u8);
        out.push((w % 256) as u8);
    } else if shortest && (-1131..=-108).contains(&v) {
        let w = -v - 108;
        out.push((w / 256 + 251) as u8);
        out.push((w % 256) as u8);
    } else if form <= 1 && (-32768..=32767).contains(&v) {
        out.push(28);
        out.extend_from_slice(&(v as i16).to_be_bytes());
    } else {
        out.push(29);
        out.extend_from_slice(&v.to_be_bytes());
    }
}

pub fn enc_op(op: u16, out: &mut Vec<u8>) {
    if op > 0xFF {
        out.push(12);
        out.push(op as u8);
    } else {
        out.push(op as u8);
    }
}

pub fn enc_dict(d: &DictAst) -> Vec<u8> {
    let mut out = Vec::new();
    for (op, operands) in d {
        for o in operands {
            match o {
                Opnd::Int(v, form) => enc_int(*v, *form, &mut out),
                Opnd::Real(b) => {
                    out.push(30);
                    out.extend_from_slice(b);
                }
            }
        }
        enc_op(*op, &mut out);
    }
    out
}

/// nibbles -> BCD bytes with the terminator (one 0xF, or 0xFF when the count is even)
pub fn pack_nibbles(n: &[u8]) -> Vec<u8> {
    let mut v: Vec<u8> = n.to_vec();
    v.push(0xF);
    if v.len() % 2 == 1 {
        v.push(0xF);
    }
    v.chunks(2).map(|c| (c[0] << 4) | c[1]).collect()
}

pub fn gen_real(rng: &mut Rng) -> Vec<u8> {
    // sign? digits [. digits] [E|E- digits]
    let mut n = Vec::new();
    match rng.below(12) {
        0 => return vec![0x0a, 0x00, 0x1f],             // 0.001
        1 => return vec![0x0a, 0x03, 0x96, 0x25, 0xff], // 0.039625
        2 => return vec![0x0a, 0x06, 0xff],             // 0.06
        3 => return vec![0xff],                         // empty number
        4 => return vec![0x1f],
        _ => {}
    }
    if rng.bool() {
        n.push(0xE);
    }
    for _ in 0..rng.small(5) {
        n.push(rng.below(10) as u8);
    }
    if rng.bool() {
        n.push(0xA);
        for _ in 0..rng.small(6) {
            n.push(rng.below(10) as u8);
        }
    }
    if rng.chance(1, 3) {
        n.push(if rng.bool() { 0xB } else { 0xC });
        for _ in 0..1 + rng.small(2) {
            n.push(rng.below(10) as u8);
        }
    }
    if rng.chance(1, 12) {
        // reserved nibble 0xD and other odd sequences are carried verbatim
        n.push(0xD);
    }
    pack_nibbles(&n)
}

pub fn edge_int(rng: &mut Rng) -> i32 {
    let edges = [0, 107, 108, -107, -108, 1131, 1132, -1131, -1132, 32767, 32768, -32768, -32769, 65535, 65536, i32::MAX, i32::MIN, 8720, -100, 50, 2, 7, 1];
    match rng.below(4) {
        0 => *rng.pick(&edges),
        1 => rng.pick(&edges).wrapping_add(rng.range(-2, 2) as i32),
        2 => rng.range(-1200, 1200) as i32,
        _ => rng.u32() as i32 >> rng.below(24),
    }
}

pub fn gen_opnd(rng: &mut Rng) -> Opnd {
    if rng.chance(1, 5) {
        Opnd::Real(gen_real(rng))
    } else {
        let e = edge_int(rng);
        Opnd::Int(e, *rng.pick(&[0u8, 0, 0, 1, 2]))
    }
}

pub const ALL_OPS: &[u16] = &[
    0, 1, 2, 3, 4, 5, 6, 7, 8, 9, 10, 11, 13, 14, 15, 16, 17, 18, 19, 20, 21, 22, 23, 24, 0x0C00, 0x0C01, 0x0C02, 0x0C03, 0x0C04, 0x0C05, 0x0C06, 0x0C07, 0x0C08, 0x0C09,
    0x0C0A, 0x0C0B, 0x0C0C, 0x0C0D, 0x0C0E, 0x0C11, 0x0C12, 0x0C13, 0x0C14, 0x0C15, 0x0C16, 0x0C17, 0x0C1E, 0x0C1F, 0x0C20, 0x0C21, 0x0C22, 0x0C23, 0x0C24, 0x0C25, 0x0C26,
];

#[derive(Copy, Clone, Debug, PartialEq)]
pub enum DictKind {
    CffTop,
    CffFont,
    CffPrivate,
    Cff2Top,
    Cff2Font,
    Cff2Private,
}

fn ints(v: &[i32]) -> Vec<String> {
    v.iter().map(|x| x.to_string()).collect()
}

fn real(b: &[u8]) -> String {
    format!("Real({:?})", b)
}

/// The writer's declared normalisation: entries equal to these defaults may be omitted.
/// (Technical Note #5176 tables 9 and 23; CFF2 tables 9 and 16; `StrokeWidth 0` is also treated as a
/// Private DICT default by the library and is accepted here.)
pub fn dict_default(kind: DictKind, op: u16) -> Option<Vec<String>> {
    let r001 = real(&[0x0a, 0x00, 0x1f]);
    let font_matrix = vec![r001.clone(), "0".to_string(), "0".to_string(), r001, "0".to_string(), "0".to_string()];
    match kind {
        DictKind::CffTop => match op {
            0x0C01 | 0x0C02 | 0x0C05 | 0x0C08 | 15 | 16 | 0x0C1F | 0x0C20 | 0x0C21 => Some(ints(&[0])),
            0x0C03 => Some(ints(&[-100])),
            0x0C04 => Some(ints(&[50])),
            0x0C06 => Some(ints(&[2])),
            0x0C07 => Some(font_matrix),
            5 => Some(ints(&[0, 0, 0, 0])),
            0x0C22 => Some(ints(&[8720])),
            _ => None,
        },
        DictKind::CffPrivate => match op {
            0x0C09 => Some(vec![real(&[0x0a, 0x03, 0x96, 0x25, 0xff])]),
            0x0C0A => Some(ints(&[7])),
            0x0C0B => Some(ints(&[1])),
            0x0C0E | 0x0C11 | 0x0C13 | 0x0C08 | 20 | 21 => Some(ints(&[0])),
            0x0C12 => Some(vec![real(&[0x0a, 0x06, 0xff])]),
            _ => None,
        },
        DictKind::Cff2Top => match op {
            0x0C07 => Some(font_matrix),
            _ => None,
        },
        DictKind::Cff2Private => match op {
            0x0C09 => Some(vec![real(&[0x0a, 0x03, 0x96, 0x25, 0xff])]),
            0x0C0A => Some(ints(&[7])),
            0x0C0B => Some(ints(&[1])),
            0x0C11 | 22 => Some(ints(&[0])),
            0x0C12 => Some(vec![real(&[0x0a, 0x06, 0xff])]),
            _ => None,
        },
        DictKind::CffFont | DictKind::Cff2Font => None,
    }
}

/// operators whose operands are file offsets (rewritten by the whole-font writers)
pub fn is_offset_op(op: u16, operands: &[String]) -> bool {
    match op {
        15 => operands.len() == 1 && operands[0].parse::<i32>().map_or(true, |v| v > 2),
        16 => operands.len() == 1 && operands[0].parse::<i32>().map_or(true, |v| v > 1),
        17 | 18 | 19 | 24 | 0x0C24 | 0x0C25 => true,
        _ => false,
    }
}

pub fn render_opnd_ast(o: &Opnd) -> String {
    match o {
        Opnd::Int(v, _) => v.to_string(),
        Opnd::Real(b) => real(b),
    }
}

pub fn render_operand(o: &Operand) -> String {
    match o {
        Operand::Integer(v) | Operand::Offset(v) => v.to_string(),
        Operand::Real(r) => format!("{:?}", r),
    }
}

/// Field-wise description of a DICT. `normalise`: drop default-valued entries;
/// `mask_offsets`: replace the operands of offset-carrying operators by a marker.
pub fn fp_dict_entries(entries: &[(u16, Vec<String>)], kind: DictKind, normalise: bool, mask_offsets: bool, prefix: &str) -> Fp {
    let mut f = Vec::new();
    let mut i = 0;
    let mut seen_offset_ops: Vec<u16> = Vec::new();
    for (op, operands) in entries {
        // A repeated offset-carrying operator (only met in faulted inputs) is shadowed by the first
        // occurrence; the whole-font writers patch every occurrence with the recomputed offset, so
        // its operands are layout, not content: kept as an entry, never compared by value.
        if mask_offsets && matches!(*op, 15 | 16 | 17 | 18 | 19 | 24 | 0x0C24 | 0x0C25) {
            if seen_offset_ops.contains(op) {
                f.push((format!("{}entry[{}]", prefix, i), format!("op {:#06x}: <shadowed duplicate>", op)));
                i += 1;
                continue;
            }
            seen_offset_ops.push(*op);
        }
        if normalise && dict_default(kind, *op).as_ref() == Some(operands) {
            continue;
        }
        let val = if mask_offsets && is_offset_op(*op, operands) { "<offset>".to_string() } else { operands.join(" ") };
        f.push((format!("{}entry[{}]", prefix, i), format!("op {:#06x}: {}", op, val)));
        i += 1;
    }
    f.insert(0, (format!("{}entries", prefix), i.to_string()));
    f
}

pub fn dict_entries<T: DictDefault>(d: &Dict<T>) -> Vec<(u16, Vec<String>)> {
    d.iter().map(|(op, operands)| (*op as u16, operands.iter().map(render_operand).collect())).collect()
}

pub fn ast_entries(d: &DictAst) -> Vec<(u16, Vec<String>)> {
    d.iter().map(|(op, o)| (*op, o.iter().map(render_opnd_ast).collect())).collect()
}

fn step_dict_t<T: DictDefault>(cx: &mut Ctx, bytes: &[u8], kind: DictKind, max: usize, normalise: bool) -> Step {
    mk_step(
        cx,
        "Dict",
        bytes.len(),
        || ReadScope::new(bytes).read_dep::<Dict<T>>(max),
        |d| fp_dict_entries(&dict_entries(d), kind, normalise, false, ""),
        |b, d| Dict::<T>::write_dep(b, &d, DictDelta::new()).map(|_| ()),
    )
}

pub fn step_dict(cx: &mut Ctx, bytes: &[u8], kind: DictKind, normalise: bool) -> Step {
    match kind {
        DictKind::CffTop => step_dict_t::<cff::TopDictDefault>(cx, bytes, kind, cff::MAX_OPERANDS, normalise),
        DictKind::CffFont => step_dict_t::<cff::FontDictDefault>(cx, bytes, kind, cff::MAX_OPERANDS, normalise),
        DictKind::CffPrivate => step_dict_t::<cff::PrivateDictDefault>(cx, bytes, kind, cff::MAX_OPERANDS, normalise),
        DictKind::Cff2Top => step_dict_t::<cff2::TopDictDefault>(cx, bytes, kind, cff2::MAX_OPERANDS, normalise),
        DictKind::Cff2Font => step_dict_t::<cff2::FontDictDefault>(cx, bytes, kind, cff2::MAX_OPERANDS, normalise),
        DictKind::Cff2Private => step_dict_t::<cff2::PrivateDictDefault>(cx, bytes, kind, cff2::MAX_OPERANDS, normalise),
    }
}

pub fn default_operands(rng: &mut Rng, kind: DictKind, op: u16) -> Option<Vec<Opnd>> {
    let d = dict_default(kind, op)?;
    Some(
        d.iter()
            .map(|s| match s.parse::<i32>() {
                Ok(v) => Opnd::Int(v, *rng.pick(&[0u8, 0, 1, 2])),
                Err(_) => {
                    // "Real([a, b, c])"
                    let bytes: Vec<u8> = s.split(|c: char| !c.is_ascii_digit()).filter(|t| !t.is_empty()).filter_map(|t| t.parse().ok()).collect();
                    Opnd::Real(bytes)
                }
            })
            .collect(),
    )
}

pub fn gen_dict_ast(rng: &mut Rng, kind: DictKind, avoid: &[u16]) -> DictAst {
    let max_operands = match kind {
        DictKind::CffTop | DictKind::CffFont | DictKind::CffPrivate => 48,
        _ => 513,
    };
    let n = match rng.below(10) {
        0 => 0,
        _ => 1 + rng.small(10),
    };
    let mut ops: Vec<u16> = ALL_OPS.iter().copied().filter(|o| !avoid.contains(o)).collect();
    rng.shuffle(&mut ops);
    // bias towards the operators that have defaults in this kind of DICT
    let with_defaults: Vec<u16> = ALL_OPS.iter().copied().filter(|o| dict_default(kind, *o).is_some() && !avoid.contains(o)).collect();
    let mut chosen: Vec<u16> = Vec::new();
    for i in 0..n {
        let op = if !with_defaults.is_empty() && rng.chance(1, 3) { *rng.pick(&with_defaults) } else { ops[i % ops.len()] };
        if !chosen.contains(&op) {
            chosen.push(op);
        }
    }
    chosen
        .into_iter()
        .map(|op| {
            if rng.bool() {
                if let Some(d) = default_operands(rng, kind, op) {
                    return (op, d);
                }
            }
            let k = match rng.below(40) {
                0 => max_operands,
                1 => 0,
                _ => 1 + rng.small(6),
            };
            (op, (0..k).map(|_| gen_opnd(rng)).collect())
        })
        .collect()
}

pub fn rt_dict(cx: &mut Ctx, rng: &mut Rng) {
    let kind = *rng.pick(&[DictKind::CffTop, DictKind::CffFont, DictKind::CffPrivate, DictKind::Cff2Top, DictKind::Cff2Font, DictKind::Cff2Private]);
    let ast = gen_dict_ast(rng, kind, &[]);
    let bytes = enc_dict(&ast);
    let name = format!("dict-{:?}", kind);
    let wit = || J::obj(vec![("kind", J::s(format!("{:?}", kind))), ("dict", J::s(format!("{:?}", ast))), ("bytes", trunc_hex(&bytes))]);
    // reading half against the AST (no normalisation: the reader must deliver every entry)
    let exp_raw = fp_dict_entries(&ast_entries(&ast), kind, false, false, "");
    let s1 = step_dict(cx, &bytes, kind, false);
    let out = match s1 {
        Step::Panic => return,
        Step::ParseErr(e) => {
            cx.violation("rt-reparse-error", &format!("{}:generator-bytes:{}", name, e), wit());
            return;
        }
        Step::Parsed { fp, out } => {
            if let Some((field, a, b)) = fp_diff(&exp_raw, &fp) {
                cx.violation("rt-differs", &format!("{}:read:{}", name, sig_field(&field)), J::obj(vec![("field", J::s(field)), ("expected", J::s(a)), ("observed", J::s(b)), ("case", wit())]));
                return;
            }
            out
        }
    };
    // writing half: omitted defaults are the only permitted difference
    let exp = fp_dict_entries(&ast_entries(&ast), kind, true, false, "");
    if exp.len() != exp_raw.len() {
        cx.class("rt:dict:default-entry-present");
    }
    for (_, o) in &ast {
        for x in o {
            cx.class(match x {
                Opnd::Real(_) => "rt:dict:operand-real",
                Opnd::Int(v, _) if (-107..=107).contains(v) => "rt:dict:operand-1byte",
                Opnd::Int(v, _) if (-1131..=1131).contains(v) => "rt:dict:operand-2byte",
                Opnd::Int(v, _) if (-32768..=32767).contains(v) => "rt:dict:operand-i16",
                Opnd::Int(..) => "rt:dict:operand-i32",
            });
        }
    }
    finish_rt(cx, &name, &exp, out, &mut |cx, b| step_dict(cx, b, kind, true), &wit);
}

/// value -> bytes -> value for operands and operators built through the public enum constructors
pub fn rt_operands(cx: &mut Ctx, rng: &mut Rng) {
    let op_code = *rng.pick(ALL_OPS);
    let op = match Operator::try_from(op_code) {
        Ok(o) => o,
        Err(_) => {
            cx.violation("rt-differs", "operator:try_from", J::obj(vec![("code", J::U(op_code as u64))]));
            return;
        }
    };
    // `Operand::Offset` is the in-memory form of the operands of the offset-carrying operators
    // only (the reader produces it for exactly these shapes)
    let offset_arity = match op_code {
        15 | 17 | 19 | 24 | 0x0C24 | 0x0C25 | 16 => Some(1),
        18 => Some(2),
        _ => None,
    };
    let as_offsets = offset_arity.is_some();
    let k = if as_offsets { offset_arity.unwrap_or(1) } else { rng.small(8) };
    let mut operands = Vec::new();
    let mut exp_ops = Vec::new();
    for _ in 0..k {
        let v = edge_int(rng);
        match if as_offsets { 0 } else { 1 + rng.below(5) } {
            0 => {
                let v = if op_code == 16 && v <= 1 { 1000 } else { v };
                operands.push(Operand::Offset(v));
                exp_ops.push(v.to_string());
            }
            1 => {
                // reals through the public f32 conversion (BCD encoder)
                let f = (v as f32) / *rng.pick(&[1.0f32, 3.0, 7.0, 1000.0, 65536.0, 1e9]);
                let o = Operand::from(f);
                exp_ops.push(render_operand(&o));
                operands.push(o);
            }
            _ => {
                operands.push(Operand::Integer(v));
                exp_ops.push(v.to_string());
            }
        }
    }
    let exp = fp_dict_entries(&[(op_code, exp_ops)], DictKind::CffFont, false, false, "");
    let w = gwrite(cx, "Operand::write", 64, |b| {
        for o in &operands {
            Operand::write(b, o)?;
        }
        Operator::write(b, op)
    });
    let wit = || J::obj(vec![("operator", J::s(format!("{:?}", op))), ("operands", J::s(format!("{:?}", operands)))]);
    finish_rt(cx, "dict-operands", &exp, w, &mut |cx, b| step_dict(cx, b, DictKind::CffFont, false), &wit);
}

pub fn exhaustive_operands(cx: &mut Ctx) {
    // every integer around each encoding boundary, as Integer and as Offset, with every operator
    let mut vals: Vec<i32> = (-1200..=1200).collect();
    for c in [-32768i64, 32767, -65536, 65535, i32::MIN as i64, i32::MAX as i64] {
        for d in -3..=3i64 {
            let v = c + d;
            if v >= i32::MIN as i64 && v <= i32::MAX as i64 {
                vals.push(v as i32);
            }
        }
    }
    let res = cx.guard("Operand::write/read", 0, || -> Option<String> {
        let mut n = 0usize;
        for (i, v) in vals.iter().enumerate() {
            let code = ALL_OPS[i % ALL_OPS.len()];
            let op = match Operator::try_from(code) {
                Ok(o) => o,
                Err(_) => return Some(format!("operator {:#x} not constructible", code)),
            };
            for offset in [false, true] {
                let mut b = WriteBuffer::new();
                let o = if offset { Operand::Offset(*v) } else { Operand::Integer(*v) };
                if Operand::write(&mut b, &o).is_err() || Operator::write(&mut b, op).is_err() {
                    return Some(format!("write refused {} {:#x}", v, code));
                }
                // independent expectation of the encoding
                let mut exp = Vec::new();
                enc_int(*v, if offset { 2 } else { 0 }, &mut exp);
                enc_op(code, &mut exp);
                if b.bytes() != exp.as_slice() {
                    return Some(format!("encoding of {} (offset={}) op {:#x}: {:02x?} expected {:02x?}", v, offset, code, b.bytes(), exp));
                }
                let d = match ReadScope::new(b.bytes()).read_dep::<Dict<cff::FontDictDefault>>(cff::MAX_OPERANDS) {
                    Ok(d) => d,
                    Err(e) => return Some(format!("re-parse of {} failed: {:?}", v, e)),
                };
                let e = dict_entries(&d);
                if e != vec![(code, vec![v.to_string()])] {
                    return Some(format!("{} op {:#x} read back as {:?}", v, code, e));
                }
                n += 1;
            }
        }
        let _ = n;
        None
    });
    match res {
        Some(None) => {
            cx.class_n("rt:dict-operand-boundaries", 2 * vals.len() as u64);
            cx.nontrivial(hash_str("operand-boundaries"));
        }
        Some(Some(msg)) => cx.violation("rt-differs", "dict-operand-boundary", J::obj(vec![("what", J::s(msg))])),
        None => {}
    }
}

// ---------------------------------------------------------------------------------------------
// INDEX
// ---------------------------------------------------------------------------------------------

pub fn min_off_size(last: usize) -> u8 {
    match last {
        0..=0xFF => 1,
        0x100..=0xFFFF => 2,
        0x1_0000..=0xFF_FFFF => 3,
        _ => 4,
    }
}

/// independent INDEX encoder; `off_size` 0 = minimal
pub fn enc_index(objects: &[Vec<u8>], off_size: u8, count32: bool) -> Vec<u8> {
    let mut out = Vec::new();
    if count32 {
        out.extend_from_slice(&(objects.len() as u32).to_be_bytes());
    } else {
        out.extend_from_slice(&(objects.len() as u16).to_be_bytes());
    }
    if objects.is_empty() {
        return out;
    }
    let total: usize = objects.iter().map(|o| o.len()).sum();
    let os = if off_size == 0 { min_off_size(total + 1) } else { off_size.max(min_off_size(total + 1)) };
    out.push(os);
    let mut off = 1usize;
    let put = |out: &mut Vec<u8>, v: usize| out.extend_from_slice(&(v as u32).to_be_bytes()[4 - os as usize..]);
    for o in objects {
        put(&mut out, off);
        off += o.len();
    }
    put(&mut out, off);
    for o in objects {
        out.extend_from_slice(o);
    }
    out
}

pub fn fp_objects<'a>(prefix: &str, it: impl Iterator<Item = &'a [u8]>) -> Fp {
    let mut f = Vec::new();
    let mut n = 0usize;
    let mut h = 0u64;
    for o in it {
        if n < 12 {
            f.push((format!("{}object[{}]", prefix, n), fbytes(o)));
        } else {
            h = mix(h, mix(hash_bytes(o), o.len() as u64));
        }
        n += 1;
    }
    f.push((format!("{}object[rest]", prefix), format!("{:016x}", h)));
    f.insert(0, (format!("{}count", prefix), n.to_string()));
    f
}

pub fn step_index(cx: &mut Ctx, bytes: &[u8], count32: bool) -> Step {
    if count32 {
        mk_step(cx, "IndexU32", bytes.len(), || ReadScope::new(bytes).read::<IndexU32>(), |i: &Index<'_>| fp_objects("", i.iter()), |b, i| IndexU32::write(b, &i))
    } else {
        mk_step(cx, "IndexU16", bytes.len(), || ReadScope::new(bytes).read::<IndexU16>(), |i: &Index<'_>| fp_objects("", i.iter()), |b, i| IndexU16::write(b, &i))
    }
}

pub fn gen_objects(rng: &mut Rng, allow_big: bool) -> Vec<Vec<u8>> {
    // total data length aimed at the offSize boundaries (last offset = total + 1)
    let target = match rng.below(if allow_big { 14 } else { 8 }) {
        0 => 0,
        1 => 253,
        2 => 254,
        3 => 255,
        4 => 256,
        8 => 65533,
        9 => 65534,
        10 => 65535,
        11 => 65536,
        12 => 70_000,
        13 => {
            if rng.chance(1, 8) {
                1 << 20
            } else {
                65_537
            }
        }
        _ => rng.small(600),
    };
    let n = match rng.below(12) {
        0 => 0,
        1 => 1,
        2 if allow_big && rng.chance(1, 4) => 65535,
        _ => 1 + rng.small(12),
    };
    if n == 0 {
        return Vec::new();
    }
    let mut left = target;
    let mut v: Vec<Vec<u8>> = (0..n)
        .map(|i| {
            let l = if i + 1 == n { left } else { rng.below(left + 1).min(if n > 100 { 3 } else { usize::MAX }) };
            left -= l;
            if l > 2048 {
                let mut d = vec![(i as u8) ^ 0x5a; l];
                d[0] = rng.u8();
                d[l - 1] = rng.u8();
                d
            } else {
                rng.bytes(l)
            }
        })
        .collect();
    rng.shuffle(&mut v);
    v
}

pub fn rt_index(cx: &mut Ctx, rng: &mut Rng) {
    let count32 = rng.bool();
    let big = rng.chance(1, 30);
    let objs = gen_objects(rng, big);
    let off_size = *rng.pick(&[0u8, 0, 0, 1, 2, 3, 4]);
    let bytes = enc_index(&objs, off_size, count32);
    let exp = fp_objects("", objs.iter().map(|o| o.as_slice()));
    let total: usize = objs.iter().map(|o| o.len()).sum();
    let name = format!("index-{}", if count32 { "u32" } else { "u16" });
    let wit = || J::obj(vec![("count", J::U(objs.len() as u64)), ("data_len", J::U(total as u64)), ("off_size_requested", J::U(off_size as u64)), ("bytes", trunc_hex(&bytes))]);
    if objs.is_empty() {
        cx.class("rt:index:empty");
    } else {
        cx.class(&format!("rt:index:offsize{}", bytes[if count32 { 4 } else { 2 }]));
    }
    // generator bytes -> value -> bytes -> value
    let s1 = step_index(cx, &bytes, count32);
    match s1 {
        Step::Panic => {}
        Step::ParseErr(e) => cx.violation("rt-reparse-error", &format!("{}:generator-bytes:{}", name, e), wit()),
        Step::Parsed { fp, out } => {
            if let Some((field, a, b)) = fp_diff(&exp, &fp) {
                cx.violation("rt-differs", &format!("{}:read:{}", name, sig_field(&field)), J::obj(vec![("field", J::s(field)), ("expected", J::s(a)), ("observed", J::s(b)), ("case", wit())]));
                return;
            }
            finish_rt(cx, &name, &exp, out, &mut |cx, b| step_index(cx, b, count32), &wit);
        }
    }
}

// ---------------------------------------------------------------------------------------------
// Header, Charset, Encoding, FDSelect
// ---------------------------------------------------------------------------------------------

pub fn rt_header(cx: &mut Ctx, rng: &mut Rng) {
    if rng.bool() {
        let h = Header { major: 1, minor: rng.u8(), hdr_size: *rng.pick(&[4u8, 4, 5, 8, 255]), off_size: 1 + rng.below(4) as u8 };
        // declared normalisation: the header is always written 4 bytes long
        let exp: Fp = fp!["major" => 1, "minor" => h.minor, "hdr_size" => 4, "off_size" => h.off_size];
        let w = gwrite(cx, "cff::Header::write", 4, |b| Header::write(b, &h));
        let wit = || J::s(format!("{:?}", h));
        finish_rt(
            cx,
            "cff-header",
            &exp,
            w,
            &mut |cx, b| mk_step(cx, "cff::Header", b.len(), || ReadScope::new(b).read::<Header>(), |h| fp!["major" => h.major, "minor" => h.minor, "hdr_size" => h.hdr_size, "off_size" => h.off_size], |b, h| Header::write(b, &h)),
            &wit,
        );
    } else {
        let h = cff2::Header { major: 2, minor: rng.u8(), header_size: *rng.pick(&[5u8, 5, 6, 20, 255]), top_dict_length: edge_u16(rng) };
        let exp: Fp = fp!["major" => 2, "minor" => h.minor, "header_size" => 5, "top_dict_length" => h.top_dict_length];
        let w = gwrite(cx, "cff2::Header::write", 5, |b| cff2::Header::write(b, h));
        let wit = || J::s(format!("{:?}", h));
        finish_rt(
            cx,
            "cff2-header",
            &exp,
            w,
            &mut |cx, b| mk_step(cx, "cff2::Header", b.len(), || ReadScope::new(b).read::<cff2::Header>(), |h| fp!["major" => h.major, "minor" => h.minor, "header_size" => h.header_size, "top_dict_length" => h.top_dict_length], |b, h| cff2::Header::write(b, h)),
            &wit,
        );
    }
}

#[derive(Clone, Debug)]
pub enum CharsetAst {
    F0(Vec<u16>),
    F1(Vec<(u16, u8)>),
    F2(Vec<(u16, u16)>),
}

impl CharsetAst {
    pub fn n_glyphs(&self) -> usize {
        1 + match self {
            CharsetAst::F0(g) => g.len(),
            CharsetAst::F1(r) => r.iter().map(|x| x.1 as usize + 1).sum::<usize>(),
            CharsetAst::F2(r) => r.iter().map(|x| x.1 as usize + 1).sum::<usize>(),
        }
    }
    pub fn fp(&self, prefix: &str) -> Fp {
        match self {
            CharsetAst::F0(g) => vec![(format!("{}charset", prefix), format!("format0 {}", fv(g)))],
            CharsetAst::F1(r) => vec![(format!("{}charset", prefix), format!("format1 {}", fv(r)))],
            CharsetAst::F2(r) => vec![(format!("{}charset", prefix), format!("format2 {}", fv(r)))],
        }
    }
    pub fn bytes(&self) -> Vec<u8> {
        let mut out = Vec::new();
        match self {
            CharsetAst::F0(g) => {
                out.push(0);
                for x in g {
                    out.extend_from_slice(&x.to_be_bytes());
                }
            }
            CharsetAst::F1(r) => {
                out.push(1);
                for x in r {
                    out.extend_from_slice(&x.0.to_be_bytes());
                    out.push(x.1);
                }
            }
            CharsetAst::F2(r) => {
                out.push(2);
                for x in r {
                    out.extend_from_slice(&x.0.to_be_bytes());
                    out.extend_from_slice(&x.1.to_be_bytes());
                }
            }
        }
        out
    }
    pub fn to_value<'a>(&self) -> CustomCharset<'a> {
        match self {
            CharsetAst::F0(g) => CustomCharset::Format0 { glyphs: ReadArrayCow::Owned(g.clone()) },
            CharsetAst::F1(r) => CustomCharset::Format1 { ranges: ReadArrayCow::Owned(r.iter().map(|x| Range { first: x.0, n_left: x.1 }).collect()) },
            CharsetAst::F2(r) => CustomCharset::Format2 { ranges: ReadArrayCow::Owned(r.iter().map(|x| Range { first: x.0, n_left: x.1 }).collect()) },
        }
    }
}

pub fn fp_charset(prefix: &str, c: &CustomCharset<'_>) -> Fp {
    match c {
        CustomCharset::Format0 { glyphs } => CharsetAst::F0(glyphs.iter().collect()).fp(prefix),
        CustomCharset::Format1 { ranges } => CharsetAst::F1(ranges.iter().map(|r| (r.first, r.n_left)).collect()).fp(prefix),
        CustomCharset::Format2 { ranges } => CharsetAst::F2(ranges.iter().map(|r| (r.first, r.n_left)).collect()).fp(prefix),
    }
}

/// charsets are sized by the glyph count; ranges must not run past SID 65535
pub fn gen_charset(rng: &mut Rng, max_glyphs: usize) -> CharsetAst {
    let budget = 1 + rng.small(max_glyphs.max(1));
    match rng.below(3) {
        0 => CharsetAst::F0((0..budget.min(max_glyphs)).map(|_| edge_u16(rng)).collect()),
        1 => {
            let mut left = budget;
            let mut r = Vec::new();
            while left > 0 {
                let n = rng.below(left.min(256)) as u8;
                let first = rng.below(65536 - n as usize) as u16;
                r.push((first, n));
                left -= n as usize + 1;
            }
            CharsetAst::F1(r)
        }
        _ => {
            let mut left = budget;
            let mut r = Vec::new();
            while left > 0 {
                let n = if rng.bool() { left - 1 } else { rng.below(left) } as u16;
                let first = rng.below(65536 - n as usize) as u16;
                r.push((first, n));
                left -= n as usize + 1;
            }
            CharsetAst::F2(r)
        }
    }
}

pub fn step_charset(cx: &mut Ctx, bytes: &[u8], n_glyphs: usize) -> Step {
    mk_step(cx, "CustomCharset", bytes.len(), || ReadScope::new(bytes).read_dep::<CustomCharset<'_>>(n_glyphs), |c| fp_charset("", c), |b, c| CustomCharset::write(b, &c))
}

pub fn rt_charset(cx: &mut Ctx, rng: &mut Rng) {
    let mg = if rng.chance(1, 20) { 65534 } else { 300 };
    let ast = gen_charset(rng, mg);
    let n_glyphs = ast.n_glyphs();
    let exp = ast.fp("");
    let name = match ast {
        CharsetAst::F0(_) => "charset-format0",
        CharsetAst::F1(_) => "charset-format1",
        CharsetAst::F2(_) => "charset-format2",
    };
    let wit = || J::obj(vec![("charset", J::s(format!("{:?}", ast).chars().take(2000).collect::<String>())), ("n_glyphs", J::U(n_glyphs as u64))]);
    if rng.bool() {
        // owned value built through the public constructors
        let v = ast.to_value();
        let w = gwrite(cx, "CustomCharset::write", n_glyphs * 2, |b| CustomCharset::write(b, &v));
        // independent expectation of the bytes
        if let Wr::Ok(b) = &w {
            if *b != ast.bytes() {
                cx.violation("rt-differs", &format!("{}:encoding", name), J::obj(vec![("written", trunc_hex(b)), ("expected", trunc_hex(&ast.bytes())), ("case", wit())]));
            }
        }
        finish_rt(cx, name, &exp, w, &mut |cx, b| step_charset(cx, b, n_glyphs), &wit);
    } else {
        // borrowed value read from generator bytes
        let bytes = ast.bytes();
        match step_charset(cx, &bytes, n_glyphs) {
            Step::Panic => {}
            Step::ParseErr(e) => cx.violation("rt-reparse-error", &format!("{}:generator-bytes:{}", name, e), wit()),
            Step::Parsed { fp, out } => {
                if let Some((field, a, b)) = fp_diff(&exp, &fp) {
                    cx.violation("rt-differs", &format!("{}:read:{}", name, sig_field(&field)), J::obj(vec![("field", J::s(field)), ("expected", J::s(a)), ("observed", J::s(b)), ("case", wit())]));
                    return;
                }
                finish_rt(cx, name, &exp, out, &mut |cx, b| step_charset(cx, b, n_glyphs), &wit);
            }
        }
    }
}

#[derive(Clone, Debug)]
pub enum EncodingAst {
    F0(Vec<u8>),
    F1(Vec<(u8, u8)>),
}

impl EncodingAst {
    pub fn bytes(&self) -> Vec<u8> {
        match self {
            EncodingAst::F0(c) => {
                let mut o = vec![0, c.len() as u8];
                o.extend_from_slice(c);
                o
            }
            EncodingAst::F1(r) => {
                let mut o = vec![1, r.len() as u8];
                for x in r {
                    o.push(x.0);
                    o.push(x.1);
                }
                o
            }
        }
    }
    pub fn fp(&self, prefix: &str) -> Fp {
        match self {
            EncodingAst::F0(c) => vec![(format!("{}encoding", prefix), format!("format0 n={} {}", c.len(), fbytes(c)))],
            EncodingAst::F1(r) => vec![(format!("{}encoding", prefix), format!("format1 n={} {}", r.len(), fv(r)))],
        }
    }
    /// the borrowed value (only constructible over bytes)
    pub fn with<R>(&self, f: impl FnOnce(Option<&CustomEncoding<'_>>) -> R) -> R {
        match self {
            EncodingAst::F0(c) => match ReadScope::new(c).ctxt().read_array::<U8>(c.len()) {
                Ok(a) => f(Some(&CustomEncoding::Format0 { codes: a })),
                Err(_) => f(None),
            },
            EncodingAst::F1(r) => {
                let raw: Vec<u8> = r.iter().flat_map(|x| [x.0, x.1]).collect();
                match ReadScope::new(&raw).ctxt().read_array::<Range<u8, u8>>(r.len()) {
                    Ok(a) => f(Some(&CustomEncoding::Format1 { ranges: a })),
                    Err(_) => f(None),
                }
            }
        }
    }
}

pub fn fp_encoding(prefix: &str, e: &CustomEncoding<'_>) -> Fp {
    match e {
        CustomEncoding::Format0 { codes } => EncodingAst::F0(codes.to_vec()).fp(prefix),
        CustomEncoding::Format1 { ranges } => EncodingAst::F1(ranges.iter().map(|r| (r.first, r.n_left)).collect()).fp(prefix),
    }
}

pub fn gen_encoding(rng: &mut Rng, n: usize) -> EncodingAst {
    if rng.bool() {
        EncodingAst::F0(rng.bytes(n))
    } else {
        EncodingAst::F1((0..n).map(|_| (rng.u8(), rng.u8())).collect())
    }
}

pub fn step_encoding(cx: &mut Ctx, bytes: &[u8]) -> Step {
    mk_step(cx, "CustomEncoding", bytes.len(), || ReadScope::new(bytes).read::<CustomEncoding<'_>>(), |e| fp_encoding("", e), |b, e| CustomEncoding::write(b, &e))
}

pub fn rt_encoding(cx: &mut Ctx, rng: &mut Rng) {
    let n = match rng.below(8) {
        0 => 0,
        1 => 255,
        2 => 254,
        _ => rng.small(60),
    };
    let ast = gen_encoding(rng, n);
    let exp = ast.fp("");
    let name = if matches!(ast, EncodingAst::F0(_)) { "encoding-format0" } else { "encoding-format1" };
    let w = ast.with(|e| e.map(|e| gwrite(cx, "CustomEncoding::write", 600, |b| CustomEncoding::write(b, e))));
    let w = match w {
        Some(w) => w,
        None => {
            cx.inconclusive("encoding-gen");
            return;
        }
    };
    let wit = || J::s(format!("{:?}", ast));
    if let Wr::Ok(b) = &w {
        if *b != ast.bytes() {
            cx.violation("rt-differs", &format!("{}:encoding", name), J::obj(vec![("written", trunc_hex(b)), ("expected", trunc_hex(&ast.bytes())), ("case", wit())]));
        }
    }
    finish_rt(cx, name, &exp, w, &mut |cx, b| step_encoding(cx, b), &wit);
}

#[derive(Clone, Debug)]
pub enum FdSelectAst {
    F0(Vec<u8>),
    F3(Vec<(u16, u8)>, u16),
}

impl FdSelectAst {
    pub fn bytes(&self) -> Vec<u8> {
        match self {
            FdSelectAst::F0(v) => {
                let mut o = vec![0];
                o.extend_from_slice(v);
                o
            }
            FdSelectAst::F3(r, s) => {
                let mut o = vec![3];
                o.extend_from_slice(&(r.len() as u16).to_be_bytes());
                for x in r {
                    o.extend_from_slice(&x.0.to_be_bytes());
                    o.push(x.1);
                }
                o.extend_from_slice(&s.to_be_bytes());
                o
            }
        }
    }
    pub fn fp(&self, prefix: &str) -> Fp {
        match self {
            FdSelectAst::F0(v) => vec![(format!("{}fd_select", prefix), format!("format0 n={} {}", v.len(), fbytes(v)))],
            FdSelectAst::F3(r, s) => vec![(format!("{}fd_select", prefix), format!("format3 n={} {} sentinel {}", r.len(), fv(r), s))],
        }
    }
    pub fn to_value<'a>(&self) -> FDSelect<'a> {
        match self {
            FdSelectAst::F0(v) => FDSelect::Format0 { glyph_font_dict_indices: ReadArrayCow::Owned(v.clone()) },
            FdSelectAst::F3(r, s) => FDSelect::Format3 { ranges: ReadArrayCow::Owned(r.iter().map(|x| Range { first: x.0, n_left: x.1 }).collect()), sentinel: *s },
        }
    }
}

pub fn fp_fdselect(prefix: &str, s: &FDSelect<'_>) -> Fp {
    match s {
        FDSelect::Format0 { glyph_font_dict_indices } => FdSelectAst::F0(glyph_font_dict_indices.iter().collect()).fp(prefix),
        FDSelect::Format3 { ranges, sentinel } => FdSelectAst::F3(ranges.iter().map(|r| (r.first, r.n_left)).collect(), *sentinel).fp(prefix),
    }
}

/// `n_glyphs` glyphs spread over `n_fds` font dicts
pub fn gen_fdselect(rng: &mut Rng, n_glyphs: usize, n_fds: usize) -> FdSelectAst {
    let fd = |rng: &mut Rng| rng.below(n_fds.max(1)) as u8;
    if rng.bool() {
        FdSelectAst::F0((0..n_glyphs).map(|_| fd(rng)).collect())
    } else {
        let mut firsts: Vec<u16> = vec![0];
        let extra = rng.small(6);
        for _ in 0..extra {
            if n_glyphs > 1 {
                firsts.push(rng.below(n_glyphs) as u16);
            }
        }
        firsts.sort();
        firsts.dedup();
        FdSelectAst::F3(firsts.into_iter().map(|f| (f, fd(rng))).collect(), n_glyphs as u16)
    }
}

pub fn step_fdselect(cx: &mut Ctx, bytes: &[u8], n_glyphs: usize) -> Step {
    mk_step(cx, "FDSelect", bytes.len(), || ReadScope::new(bytes).read_dep::<FDSelect<'_>>(n_glyphs), |s| fp_fdselect("", s), |b, s| FDSelect::write(b, &s))
}

pub fn rt_fdselect(cx: &mut Ctx, rng: &mut Rng) {
    let n_glyphs = match rng.below(12) {
        0 => 0,
        1 => 65535,
        _ => rng.small(400),
    };
    let nf = 1 + rng.below(255);
    let mut ast = gen_fdselect(rng, n_glyphs, nf);
    if let FdSelectAst::F3(r, s) = &mut ast {
        if rng.chance(1, 6) {
            // arbitrary (unsorted) ranges and sentinel: the structure does not constrain them
            *r = (0..rng.small(40)).map(|_| (edge_u16(rng), rng.u8())).collect();
            *s = edge_u16(rng);
        }
    }
    let exp = ast.fp("");
    let name = if matches!(ast, FdSelectAst::F0(_)) { "fdselect-format0" } else { "fdselect-format3" };
    let v = ast.to_value();
    let w = gwrite(cx, "FDSelect::write", n_glyphs + 16, |b| FDSelect::write(b, &v));
    let wit = || J::s(format!("{:?}", ast).chars().take(2000).collect::<String>());
    if let Wr::Ok(b) = &w {
        if *b != ast.bytes() {
            cx.violation("rt-differs", &format!("{}:encoding", name), J::obj(vec![("written", trunc_hex(b)), ("expected", trunc_hex(&ast.bytes())), ("case", wit())]));
        }
    }
    finish_rt(cx, name, &exp, w, &mut |cx, b| step_fdselect(cx, b, n_glyphs), &wit);
}

// ---------------------------------------------------------------------------------------------
// overflow
// ---------------------------------------------------------------------------------------------

pub fn overflow_cff_parts(cx: &mut Ctx, rng: &mut Rng) {
    match rng.below(5) {
        0 => {
            // Encoding counts are one byte
            let n = *rng.pick(&[255usize, 256, 257, 300, 65536]);
            let ast = gen_encoding(rng, n);
            let exp = ast.fp("");
            if let Some(w) = ast.with(|e| e.map(|e| gwrite(cx, "CustomEncoding::write", n * 2, |b| CustomEncoding::write(b, e)))) {
                expect_refused_or_exact(cx, if matches!(ast, EncodingAst::F0(_)) { "encoding-format0-count" } else { "encoding-format1-count" }, &exp, w, &mut |cx, b| rd_of(step_encoding(cx, b)), &|| J::obj(vec![("entries", J::U(n as u64))]));
            }
        }
        1 => {
            // FDSelect format 3: nRanges is a uint16
            let n = *rng.pick(&[65535usize, 65536, 65537]);
            let ast = FdSelectAst::F3((0..n).map(|i| (i.min(65535) as u16, (i % 7) as u8)).collect(), 65535);
            let exp = ast.fp("");
            let v = ast.to_value();
            let w = gwrite(cx, "FDSelect::write", n * 3, |b| FDSelect::write(b, &v));
            expect_refused_or_exact(cx, "fdselect-format3-ranges", &exp, w, &mut |cx, b| rd_of(step_fdselect(cx, b, 65535)), &|| J::obj(vec![("ranges", J::U(n as u64))]));
        }
        2 | 3 => {
            // INDEX with more objects than the count field of the 16-bit flavour can hold is not
            // constructible (Index comes from parsing); the 32-bit flavour must carry any u32 count
            let n = *rng.pick(&[65535usize, 65536, 65537, 70_000]);
            let objs: Vec<Vec<u8>> = (0..n).map(|i| if i % 1000 == 0 { vec![i as u8] } else { Vec::new() }).collect();
            let bytes = enc_index(&objs, 0, true);
            let exp = fp_objects("", objs.iter().map(|o| o.as_slice()));
            let idx = cx.guard("IndexU32::read", bytes.len(), || ReadScope::new(&bytes).read::<IndexU32>());
            match idx {
                Some(Ok(idx)) => {
                    let w32 = gwrite(cx, "IndexU32::write", bytes.len(), |b| IndexU32::write(b, &idx));
                    match w32 {
                        Wr::Err(e) if n > 65535 => {
                            // in range for the 32-bit count field, yet refused
                            cx.violation(
                                "rt-write-refused",
                                &format!("index-u32:count-above-65535:{}", werr(&e)),
                                J::obj(vec![("count", J::U(n as u64)), ("what", J::s("IndexU32 (CFF2, uint32 count) refuses an INDEX it has just parsed")), ("input_head", J::hex(&bytes[..16]))]),
                            );
                        }
                        w => expect_refused_or_exact(cx, "index-u32-count", &exp, w, &mut |cx, b| rd_of(step_index(cx, b, true)), &|| J::obj(vec![("count", J::U(n as u64))])),
                    }
                    // the same value through the 16-bit writer: must be refused when count > 65535
                    let w16 = gwrite(cx, "IndexU16::write", bytes.len(), |b| IndexU16::write(b, &idx));
                    expect_refused_or_exact(cx, "index-u16-count", &exp, w16, &mut |cx, b| rd_of(step_index(cx, b, false)), &|| J::obj(vec![("count", J::U(n as u64))]));
                }
                Some(Err(e)) => cx.violation("rt-reparse-error", &format!("index-u32:generator-bytes:{}", perr(&e)), J::obj(vec![("count", J::U(n as u64))])),
                None => {}
            }
        }
        _ => {
            // Charset format 1 nLeft is one byte, format 2 two bytes: the value types already bound
            // them; the interesting overflow is the 16-bit SID space, which is data, not a field.
            let ast = CharsetAst::F2(vec![(65000, 65535)]);
            let exp = ast.fp("");
            let v = ast.to_value();
            let w = gwrite(cx, "CustomCharset::write", 16, |b| CustomCharset::write(b, &v));
            expect_refused_or_exact(cx, "charset-format2-range", &exp, w, &mut |cx, b| rd_of(step_charset(cx, b, 65537)), &|| J::s("first 65000 nLeft 65535"));
        }
    }
}

#[allow(dead_code)]
fn _unused(_: ParseError, _: WriteError, _: U16Be) {}
