//! C18 — (stub, under construction)

use super::Prop;
use crate::rt::*;

pub struct C18 {}

impl C18 {
    pub fn new(_cx: &mut Ctx) -> C18 {
        C18 {}
    }
}

impl Prop for C18 {
    fn case(&mut self, cx: &mut Ctx, _rng: &mut Rng) {
        cx.inconclusive("not-implemented");
    }
}
