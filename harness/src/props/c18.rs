//! C18 — CFF and CFF2 outlines follow Type 2 charstring semantics.
//!
//! Generator: abstract glyphs (closed contours of lines / cubic curves, optional width, stem hints
//! and masks, seac composites, CFF2 deltas) -> random *equivalent* Type 2 encodings (operator
//! forms, number encodings, width prefixes, hint operators, local / global subroutine factoring
//! with the bias rule) -> name-keyed / CID-keyed CFF and CFF2 tables written by the independent
//! writer in `c18_cff.rs`. Oracle: the path the Type 2 specification assigns to the abstract glyph
//! (computed on the AST, never on bytes) must equal the commands allsorts delivers to the sink.

use super::Prop;
use crate::rt::*;
use allsorts::binary::read::ReadScope;
use allsorts::cff::cff2::CFF2;
use allsorts::cff::outline::CFF2Outlines;
use allsorts::cff::CFF;
use allsorts::outline::{OutlineBuilder, OutlineSink};
use allsorts::pathfinder_geometry::line_segment::LineSegment2F;
use allsorts::pathfinder_geometry::vector::Vector2F;
use allsorts::tables::variable_fonts::fvar::FvarTable;
use allsorts::tables::F2Dot14;

#[path = "c18_cff.rs"]
pub mod cffw;
use cffw::{op, Effect, SubrSpace, Tok};

pub struct C18 {}

impl C18 {
    pub fn new(_cx: &mut Ctx) -> C18 {
        C18 {}
    }
}

const ONE: i64 = 65536;

// ---------------------------------------------------------------------------------------------
// Values: 16.16 default + per-region deltas (CFF2)
// ---------------------------------------------------------------------------------------------

#[derive(Clone, Debug, Default)]
struct Val {
    d: i64,
    deltas: Vec<i64>,
}

impl Val {
    fn int(v: i64) -> Val {
        Val { d: v * ONE, deltas: Vec::new() }
    }
    fn zero() -> Val {
        Val::default()
    }
    fn has_deltas(&self) -> bool {
        self.deltas.iter().any(|&x| x != 0)
    }
    fn is_zero(&self) -> bool {
        self.d == 0 && !self.has_deltas()
    }
    fn is_integer(&self) -> bool {
        self.d % ONE == 0 && !self.has_deltas()
    }
    fn neg(&self) -> Val {
        Val { d: -self.d, deltas: self.deltas.iter().map(|x| -x).collect() }
    }
    fn add(&self, o: &Val) -> Val {
        let n = self.deltas.len().max(o.deltas.len());
        let mut deltas = vec![0i64; n];
        for (i, x) in self.deltas.iter().enumerate() {
            deltas[i] += x;
        }
        for (i, x) in o.deltas.iter().enumerate() {
            deltas[i] += x;
        }
        if deltas.iter().all(|&x| x == 0) {
            deltas.clear();
        }
        Val { d: self.d + o.d, deltas }
    }
    fn same(&self, o: &Val) -> bool {
        self.add(&o.neg()).is_zero()
    }
    fn slack(&self) -> i64 {
        self.deltas.iter().map(|x| x.abs()).sum()
    }
    fn eval(&self, sc: &[f64]) -> f64 {
        let mut v = self.d as f64 / ONE as f64;
        for (i, &x) in self.deltas.iter().enumerate() {
            if x != 0 {
                v += sc.get(i).copied().unwrap_or(0.0) * (x as f64 / ONE as f64);
            }
        }
        v
    }
    fn show(&self) -> String {
        let f = |x: i64| {
            if x % ONE == 0 {
                format!("{}", x / ONE)
            } else {
                format!("{}", x as f64 / ONE as f64)
            }
        };
        if self.has_deltas() {
            format!("{}{{{}}}", f(self.d), self.deltas.iter().map(|&x| f(x)).collect::<Vec<_>>().join(","))
        } else {
            f(self.d)
        }
    }
}

fn sum(vs: &[&Val]) -> Val {
    let mut s = Val::zero();
    for v in vs {
        s = s.add(v);
    }
    s
}

// ---------------------------------------------------------------------------------------------
// AST
// ---------------------------------------------------------------------------------------------

#[derive(Clone, Debug)]
enum Seg {
    Line([Val; 2]),
    Curve([Val; 6]),
}

impl Seg {
    fn line(&self) -> Option<&[Val; 2]> {
        match self {
            Seg::Line(l) => Some(l),
            _ => None,
        }
    }
    fn curve(&self) -> Option<&[Val; 6]> {
        match self {
            Seg::Curve(c) => Some(c),
            _ => None,
        }
    }
    fn vals(&self) -> &[Val] {
        match self {
            Seg::Line(l) => &l[..],
            Seg::Curve(c) => &c[..],
        }
    }
}

#[derive(Clone, Debug)]
struct Contour {
    start: [Val; 2],
    segs: Vec<Seg>,
}

#[derive(Clone, Debug, Default)]
struct Hints {
    hstems: Vec<[Val; 2]>,
    vstems: Vec<[Val; 2]>,
    /// hintmask / cntrmask operators are used (then the stems are declared with hstemhm / vstemhm)
    masks: bool,
}

#[derive(Clone, Debug)]
struct Seac {
    adx: Val,
    ady: Val,
    bchar: u8,
    achar: u8,
    /// index of the component glyphs in the font's glyph list
    base: usize,
    accent: usize,
}

#[derive(Clone, Debug, Default)]
struct Glyph {
    contours: Vec<Contour>,
    /// CFF: value written in the charstring (advance - nominalWidthX); None = defaultWidthX
    width: Option<i64>,
    hints: Option<Hints>,
    seac: Option<Seac>,
    /// CFF2: ItemVariationData index used by this glyph and whether `vsindex` is written
    vsindex: usize,
    explicit_vsindex: bool,
}

impl Glyph {
    fn n_segs(&self) -> usize {
        self.contours.iter().map(|c| c.segs.len()).sum()
    }
    fn all_integer(&self) -> bool {
        self.contours.iter().all(|c| c.start.iter().all(|v| v.is_integer()) && c.segs.iter().all(|s| s.vals().iter().all(|v| v.is_integer())))
            && self.seac.as_ref().map_or(true, |s| s.adx.is_integer() && s.ady.is_integer())
    }
}

// ---------------------------------------------------------------------------------------------
// AST generation
// ---------------------------------------------------------------------------------------------

#[derive(Copy, Clone, Debug, PartialEq)]
enum NumClass {
    Int,
    Fixed,
    Mixed,
}

/// Parameters for generating the values of one glyph.
#[derive(Clone, Debug)]
struct GlyphGen {
    numclass: NumClass,
    /// number of regions of the glyph's ItemVariationData (deltas per value), 0 = no deltas
    k: usize,
    /// percentage of values carrying deltas
    delta_pct: u32,
    /// bound on |coordinate| in 16.16
    lim: i64,
    /// magnitude divider applied on retries
    shrink: i64,
    cff2: bool,
    /// scalars of the glyph's regions at every tested tuple (one empty vec when not variable)
    tuples: Vec<Vec<f64>>,
}

fn gen_int(rng: &mut Rng) -> i64 {
    let v = match rng.below(20) {
        0..=9 => rng.range(0, 107),
        10..=14 => rng.range(108, 1131),
        15 | 16 => *rng.pick(&[0i64, 1, 107, 108, 255, 256, 363, 364, 1131, 1132, 1133]),
        17 | 18 => rng.range(1132, 5000),
        _ => 0,
    };
    if rng.bool() {
        -v
    } else {
        v
    }
}

impl GlyphGen {
    fn base(&self, rng: &mut Rng) -> i64 {
        let fixed = match self.numclass {
            NumClass::Int => false,
            NumClass::Fixed => true,
            NumClass::Mixed => rng.bool(),
        };
        if fixed {
            match rng.below(3) {
                // full 16 bit fraction, small integer part
                0 => rng.range(-24 * ONE, 24 * ONE) / self.shrink,
                // multiples of 1/256
                1 => (rng.range(-300 * 256, 300 * 256) * 256) / self.shrink,
                // halves and the smallest fractions
                _ => *rng.pick(&[ONE / 2, -ONE / 2, 1, -1, ONE + 1, -ONE - 1, 3 * ONE / 2, 107 * ONE + ONE / 4]),
            }
        } else {
            let mut v = gen_int(rng);
            if self.numclass != NumClass::Int || self.k > 0 {
                // keep non-integer / blended glyphs small so that the f32 arithmetic stays accurate
                v = v % 400;
            }
            (v / self.shrink) * ONE
        }
    }
    fn delta(&self, rng: &mut Rng) -> i64 {
        match rng.below(8) {
            0 => 0,
            1 => rng.range(-40 * ONE, 40 * ONE),
            2 => *rng.pick(&[ONE / 2, -ONE / 4, 107 * ONE, -108 * ONE]),
            _ => rng.range(-60, 60) * ONE,
        }
    }
    fn val(&self, rng: &mut Rng) -> Val {
        let d = self.base(rng);
        let deltas = if self.k > 0 && rng.chance(self.delta_pct, 100) {
            (0..self.k).map(|_| self.delta(rng)).collect()
        } else {
            Vec::new()
        };
        Val { d, deltas }
    }
    /// non-degenerate most of the time
    fn val_or_zero(&self, rng: &mut Rng, zero_pct: u32) -> Val {
        if rng.chance(zero_pct, 100) {
            Val::zero()
        } else {
            self.val(rng)
        }
    }
}

/// |a| > |b| at every tested tuple (Some(true)), |a| <= |b| at every tuple (Some(false)), or too
/// close to call in floating point (None). Exact for integer values without deltas.
fn abs_gt(a: &Val, b: &Val, exact: bool, tuples: &[Vec<f64>]) -> Option<bool> {
    if exact {
        return Some(a.d.abs() > b.d.abs());
    }
    let mut verdict: Option<bool> = None;
    let empty: Vec<f64> = Vec::new();
    let ts: Vec<&Vec<f64>> = if tuples.is_empty() { vec![&empty] } else { tuples.iter().collect() };
    for sc in ts {
        let (x, y) = (a.eval(sc).abs(), b.eval(sc).abs());
        let v = if x > y + 0.05 {
            true
        } else if y > x + 0.05 {
            false
        } else {
            return None;
        };
        if verdict.map_or(false, |p| p != v) {
            return None;
        }
        verdict = Some(v);
    }
    verdict
}

fn curve(v: [Val; 6]) -> Seg {
    Seg::Curve(v)
}

fn gen_segs(rng: &mut Rng, gg: &GlyphGen, target: usize, long_runs: bool) -> Vec<Seg> {
    let mut v: Vec<Seg> = Vec::new();
    let z = Val::zero;
    while v.len() < target {
        let pick = if long_runs { 16 + rng.below(5) } else { rng.below(16) };
        match pick {
            0 | 1 => v.push(Seg::Line([gg.val(rng), gg.val(rng)])),
            2 | 3 => {
                let n = 1 + rng.below(6);
                let mut h = rng.bool();
                for _ in 0..n {
                    v.push(if h { Seg::Line([gg.val(rng), z()]) } else { Seg::Line([z(), gg.val(rng)]) });
                    h = !h;
                }
            }
            4 => {
                if rng.chance(1, 3) {
                    v.push(Seg::Line([z(), z()]));
                } else if rng.bool() {
                    v.push(Seg::Line([gg.val(rng), z()]));
                } else {
                    v.push(Seg::Line([z(), gg.val(rng)]));
                }
            }
            5 | 6 => {
                for _ in 0..1 + rng.below(3) {
                    v.push(curve([gg.val(rng), gg.val(rng), gg.val(rng), gg.val(rng), gg.val(rng), gg.val(rng)]));
                }
            }
            7 => {
                for j in 0..1 + rng.below(4) {
                    let dy1 = if j == 0 { gg.val_or_zero(rng, 50) } else { z() };
                    v.push(curve([gg.val(rng), dy1, gg.val(rng), gg.val(rng), gg.val(rng), z()]));
                }
            }
            8 => {
                for j in 0..1 + rng.below(4) {
                    let dx1 = if j == 0 { gg.val_or_zero(rng, 50) } else { z() };
                    v.push(curve([dx1, gg.val(rng), gg.val(rng), gg.val(rng), z(), gg.val(rng)]));
                }
            }
            9 | 10 | 19 | 20 => {
                let n = if pick >= 19 { 8 + rng.below(if gg.cff2 { 60 } else { 8 }) } else { 1 + rng.below(5) };
                let mut h = pick == 9 || pick == 19;
                for j in 0..n {
                    let last = j + 1 == n;
                    let tail = if last { gg.val_or_zero(rng, 50) } else { z() };
                    if h {
                        v.push(curve([gg.val(rng), z(), gg.val(rng), gg.val(rng), tail, gg.val(rng)]));
                    } else {
                        v.push(curve([z(), gg.val(rng), gg.val(rng), gg.val(rng), gg.val(rng), tail]));
                    }
                    h = !h;
                }
            }
            11 => {
                let dy2 = gg.val(rng);
                v.push(curve([gg.val(rng), z(), gg.val(rng), dy2.clone(), gg.val(rng), z()]));
                v.push(curve([gg.val(rng), z(), gg.val(rng), dy2.neg(), gg.val(rng), z()]));
            }
            12 => {
                let (dy1, dy2, dy5) = (gg.val(rng), gg.val(rng), gg.val(rng));
                let back = sum(&[&dy1, &dy2, &dy5]).neg();
                v.push(curve([gg.val(rng), dy1, gg.val(rng), dy2, gg.val(rng), z()]));
                v.push(curve([gg.val(rng), z(), gg.val(rng), dy5, gg.val(rng), back]));
            }
            13 => {
                let c1 = [gg.val(rng), gg.val(rng), gg.val(rng), gg.val(rng), gg.val(rng), gg.val(rng)];
                let (dx4, dy4, mut dx5, dy5) = (gg.val(rng), gg.val(rng), gg.val(rng), gg.val(rng));
                let mut dx = sum(&[&c1[0], &c1[2], &c1[4], &dx4, &dx5]);
                let dy = sum(&[&c1[1], &c1[3], &c1[5], &dy4, &dy5]);
                let exact = c1.iter().chain([&dx4, &dy4, &dx5, &dy5]).all(|x| x.is_integer());
                if exact && rng.chance(1, 4) {
                    // the tie |dx| == |dy|: TN 5177 takes the last operand as dx only when
                    // abs(dx) > abs(dy), so a tie is the dy form
                    let target = if rng.bool() { dy.d } else { -dy.d };
                    dx5 = Val { d: dx5.d + target - dx.d, deltas: Vec::new() };
                    dx = sum(&[&c1[0], &c1[2], &c1[4], &dx4, &dx5]);
                }
                let d6 = gg.val(rng);
                let (dx6, dy6) = match abs_gt(&dx, &dy, exact, &gg.tuples) {
                    Some(true) => (d6, dy.neg()),
                    Some(false) => (dx.neg(), d6),
                    None => (d6, gg.val(rng)),
                };
                v.push(curve(c1));
                v.push(curve([dx4, dy4, dx5, dy5, dx6, dy6]));
            }
            14 => {
                for _ in 0..1 + rng.below(3) {
                    v.push(Seg::Line([gg.val(rng), gg.val(rng)]));
                }
                v.push(curve([gg.val(rng), gg.val(rng), gg.val(rng), gg.val(rng), gg.val(rng), gg.val(rng)]));
            }
            15 => {
                for _ in 0..1 + rng.below(3) {
                    v.push(curve([gg.val(rng), gg.val(rng), gg.val(rng), gg.val(rng), gg.val(rng), gg.val(rng)]));
                }
                v.push(Seg::Line([gg.val(rng), gg.val(rng)]));
            }
            16 => {
                for _ in 0..10 + rng.below(if gg.cff2 { 250 } else { 30 }) {
                    v.push(Seg::Line([gg.val(rng), gg.val(rng)]));
                }
            }
            17 => {
                let mut h = rng.bool();
                for _ in 0..10 + rng.below(if gg.cff2 { 500 } else { 60 }) {
                    v.push(if h { Seg::Line([gg.val(rng), z()]) } else { Seg::Line([z(), gg.val(rng)]) });
                    h = !h;
                }
            }
            _ => {
                for _ in 0..6 + rng.below(if gg.cff2 { 80 } else { 6 }) {
                    v.push(curve([gg.val(rng), gg.val(rng), gg.val(rng), gg.val(rng), gg.val(rng), gg.val(rng)]));
                }
            }
        }
    }
    v
}

/// Pen position bookkeeping for the coordinate bound: default position and accumulated |deltas|.
#[derive(Clone, Copy, Debug, Default)]
struct Pen {
    x: i64,
    y: i64,
    slack: i64,
}

impl Pen {
    fn step(&mut self, dx: &Val, dy: &Val, lim: i64) -> bool {
        self.x += dx.d;
        self.y += dy.d;
        self.slack += dx.slack() + dy.slack();
        self.x.abs() + self.slack <= lim && self.y.abs() + self.slack <= lim
    }
}

fn contour_in_bounds(pen: &mut Pen, c: &Contour, lim: i64) -> bool {
    let mut ok = pen.step(&c.start[0], &c.start[1], lim);
    for s in &c.segs {
        match s {
            Seg::Line(l) => ok &= pen.step(&l[0], &l[1], lim),
            Seg::Curve(k) => {
                ok &= pen.step(&k[0], &k[1], lim);
                ok &= pen.step(&k[2], &k[3], lim);
                ok &= pen.step(&k[4], &k[5], lim);
            }
        }
    }
    ok
}

fn gen_contour(rng: &mut Rng, gg: &GlyphGen, pen: &mut Pen, target: usize, long_runs: bool) -> Contour {
    let mut g = gg.clone();
    for _ in 0..6 {
        let start = match rng.below(6) {
            0 => [g.val(rng), Val::zero()],
            1 => [Val::zero(), g.val(rng)],
            2 if rng.chance(1, 4) => [Val::zero(), Val::zero()],
            _ => [g.val(rng), g.val(rng)],
        };
        let c = Contour { start, segs: gen_segs(rng, &g, target, long_runs) };
        let mut p = *pen;
        if contour_in_bounds(&mut p, &c, g.lim) {
            *pen = p;
            return c;
        }
        g.shrink *= 4;
    }
    // walk back towards the origin with an empty contour
    let back = |v: i64| Val::int((-v / ONE).clamp(-1000, 1000));
    let c = Contour { start: [back(pen.x), back(pen.y)], segs: Vec::new() };
    let lim = i64::MAX / 4;
    contour_in_bounds(pen, &c, lim);
    c
}

fn gen_hints(rng: &mut Rng, gg: &GlyphGen) -> Hints {
    let total = match rng.below(20) {
        0..=6 => 1 + rng.below(7),
        7 | 8 => 8,
        9..=12 => 9 + rng.below(7),
        13 | 14 => 16,
        15..=17 => 17 + rng.below(8),
        _ => 25 + rng.below(16),
    };
    let nh = match rng.below(5) {
        0 => 0,
        1 => total,
        _ => rng.below(total + 1),
    };
    let stem = |rng: &mut Rng| -> [Val; 2] {
        let w = if rng.chance(1, 8) { Val::int(*rng.pick(&[-20i64, -21])) } else { gg.val(rng) };
        [gg.val(rng), w]
    };
    Hints {
        hstems: (0..nh).map(|_| stem(rng)).collect(),
        vstems: (0..total - nh).map(|_| stem(rng)).collect(),
        masks: rng.chance(2, 3),
    }
}

fn gen_glyph(rng: &mut Rng, gg: &GlyphGen, with_width: bool) -> Glyph {
    let mut g = Glyph::default();
    let nc = match rng.below(12) {
        0 => 0,
        1..=5 => 1,
        6..=8 => 2,
        9 | 10 => 3,
        _ => 4,
    };
    let mut pen = Pen::default();
    for _ in 0..nc {
        let long_runs = rng.chance(if gg.cff2 { 6 } else { 3 }, 100);
        let target = match rng.below(20) {
            0 => 0,
            1..=8 => 1 + rng.below(4),
            9..=16 => 5 + rng.below(8),
            17 | 18 => 13 + rng.below(28),
            _ => 41 + rng.below(50),
        };
        g.contours.push(gen_contour(rng, gg, &mut pen, if long_runs { 1 } else { target }, long_runs));
    }
    if with_width && rng.chance(3, 5) {
        g.width = Some(gen_int(rng));
    }
    if rng.chance(2, 5) {
        g.hints = Some(gen_hints(rng, gg));
    }
    g
}

// ---------------------------------------------------------------------------------------------
// Reference path (Type 2 semantics evaluated on the AST)
// ---------------------------------------------------------------------------------------------

#[derive(Clone, Debug)]
enum ECmd {
    Move([f64; 2]),
    Line([f64; 2]),
    Curve([f64; 6]),
    Close,
}

/// Where an expected command comes from: (contour, None) = its moveto / close, (contour, Some(s)) = segment s.
type Src = (usize, Option<usize>);

/// Path of `g` at the scalars `sc`, with the pen starting at `origin` (seac accents start at (adx, ady)).
fn expected_path(g: &Glyph, sc: &[f64], origin: (f64, f64)) -> (Vec<ECmd>, Vec<Src>) {
    let (mut x, mut y) = origin;
    let mut out = Vec::new();
    let mut src = Vec::new();
    for (ci, c) in g.contours.iter().enumerate() {
        x += c.start[0].eval(sc);
        y += c.start[1].eval(sc);
        out.push(ECmd::Move([x, y]));
        src.push((ci, None));
        for (si, s) in c.segs.iter().enumerate() {
            match s {
                Seg::Line(l) => {
                    x += l[0].eval(sc);
                    y += l[1].eval(sc);
                    out.push(ECmd::Line([x, y]));
                }
                Seg::Curve(k) => {
                    let x1 = x + k[0].eval(sc);
                    let y1 = y + k[1].eval(sc);
                    let x2 = x1 + k[2].eval(sc);
                    let y2 = y1 + k[3].eval(sc);
                    x = x2 + k[4].eval(sc);
                    y = y2 + k[5].eval(sc);
                    out.push(ECmd::Curve([x1, y1, x2, y2, x, y]));
                }
            }
            src.push((ci, Some(si)));
        }
        out.push(ECmd::Close);
        src.push((ci, None));
    }
    (out, src)
}

fn show_ecmd(c: &ECmd) -> String {
    match c {
        ECmd::Move(p) => format!("M {} {}", p[0], p[1]),
        ECmd::Line(p) => format!("L {} {}", p[0], p[1]),
        ECmd::Curve(p) => format!("C {} {} {} {} {} {}", p[0], p[1], p[2], p[3], p[4], p[5]),
        ECmd::Close => "Z".to_string(),
    }
}

// ---------------------------------------------------------------------------------------------
// Observed path
// ---------------------------------------------------------------------------------------------

#[derive(Clone, Debug, PartialEq)]
enum OCmd {
    Move([f32; 2]),
    Line([f32; 2]),
    Quad([f32; 4]),
    Curve([f32; 6]),
    Close,
}

#[derive(Default)]
struct Rec(Vec<OCmd>);

impl OutlineSink for Rec {
    fn move_to(&mut self, to: Vector2F) {
        self.0.push(OCmd::Move([to.x(), to.y()]));
    }
    fn line_to(&mut self, to: Vector2F) {
        self.0.push(OCmd::Line([to.x(), to.y()]));
    }
    fn quadratic_curve_to(&mut self, c: Vector2F, to: Vector2F) {
        self.0.push(OCmd::Quad([c.x(), c.y(), to.x(), to.y()]));
    }
    fn cubic_curve_to(&mut self, c: LineSegment2F, to: Vector2F) {
        self.0.push(OCmd::Curve([c.from().x(), c.from().y(), c.to().x(), c.to().y(), to.x(), to.y()]));
    }
    fn close(&mut self) {
        self.0.push(OCmd::Close);
    }
}

fn show_ocmd(c: &OCmd) -> String {
    match c {
        OCmd::Move(p) => format!("M {} {}", p[0], p[1]),
        OCmd::Line(p) => format!("L {} {}", p[0], p[1]),
        OCmd::Quad(p) => format!("Q {} {} {} {}", p[0], p[1], p[2], p[3]),
        OCmd::Curve(p) => format!("C {} {} {} {} {} {}", p[0], p[1], p[2], p[3], p[4], p[5]),
        OCmd::Close => "Z".to_string(),
    }
}

fn ulp_f32(m: f64) -> f64 {
    let e = m.abs().max(1.0).log2().floor() as i32;
    2f64.powi(e - 23)
}

/// Compare; Ok(explicit closing lines seen) or Err((index into expected, description)).
fn compare_paths(exp: &[ECmd], obs: &[OCmd], exact: bool) -> Result<u32, (usize, String)> {
    let maxabs = exp
        .iter()
        .flat_map(|c| match c {
            ECmd::Move(p) | ECmd::Line(p) => p.to_vec(),
            ECmd::Curve(p) => p.to_vec(),
            ECmd::Close => Vec::new(),
        })
        .fold(1.0f64, |m, v| m.max(v.abs()));
    let ulp = ulp_f32(maxabs);
    let near = |e: &[f64], o: &[f32], idx: usize| -> bool {
        let tol = if exact { 0.0 } else { 1e-3 + (idx + 1) as f64 * 4.0 * ulp };
        e.iter().zip(o.iter()).all(|(&a, &b)| if exact { a as f32 == b && (b as f64) == a } else { (a - b as f64).abs() <= tol })
    };
    let mut oi = 0usize;
    let mut start = [0.0f64; 2];
    let mut closing = 0u32;
    for (ei, e) in exp.iter().enumerate() {
        let o = obs.get(oi);
        let ok = match (e, o) {
            (ECmd::Move(p), Some(OCmd::Move(q))) => {
                start = *p;
                near(p, q, ei)
            }
            (ECmd::Line(p), Some(OCmd::Line(q))) => near(p, q, ei),
            (ECmd::Curve(p), Some(OCmd::Curve(q))) => near(p, q, ei),
            (ECmd::Close, Some(OCmd::Close)) => true,
            (ECmd::Close, Some(OCmd::Line(q))) => {
                // the single documented ambiguity: an explicit closing line back to the start point
                if near(&start, q, ei) && obs.get(oi + 1) == Some(&OCmd::Close) {
                    oi += 1;
                    closing += 1;
                    true
                } else {
                    false
                }
            }
            _ => false,
        };
        if !ok {
            return Err((
                ei,
                format!("command {}: expected `{}` observed `{}`", ei, show_ecmd(e), o.map_or("<end of path>".to_string(), show_ocmd)),
            ));
        }
        oi += 1;
    }
    if oi != obs.len() {
        return Err((exp.len(), format!("{} extra command(s) after the expected path, first `{}`", obs.len() - oi, show_ocmd(&obs[oi]))));
    }
    Ok(closing)
}

// ---------------------------------------------------------------------------------------------
// Type 2 encoder: AST -> flat token list (every choice random among the equivalent forms)
// ---------------------------------------------------------------------------------------------

struct Enc<'r> {
    rng: &'r mut Rng,
    toks: Vec<Tok>,
    limit: usize,
    cff2: bool,
    /// regions of the glyph's ItemVariationData; None = blend must not be used
    k: Option<usize>,
    tuples: Vec<Vec<f64>>,
    classes: Vec<String>,
    width: Option<i64>,
    first_clear: bool,
    /// operator form that encoded each segment / moveto, per contour
    seg_tags: Vec<Vec<&'static str>>,
    move_tags: Vec<&'static str>,
    max_args: usize,
    n_stems: usize,
    implicit_vstem: bool,
    /// the pen is at integer coordinates throughout the glyph (integer values only, and not the
    /// component of a seac with a fractional offset)
    int_pen: bool,
    fail: Option<String>,
}

fn pick_n(rng: &mut Rng, max: usize) -> usize {
    if max <= 1 {
        return max;
    }
    match rng.below(10) {
        0..=4 => 1 + rng.below(max.min(3)),
        5..=7 => 1 + rng.below(max),
        _ => max,
    }
}

impl<'r> Enc<'r> {
    fn class(&mut self, s: &str) {
        if !self.classes.iter().any(|c| c == s) {
            self.classes.push(s.to_string());
        }
    }

    fn num(&mut self, raw: i64) {
        if raw % ONE == 0 && (-32768..=32767).contains(&(raw / ONE)) {
            let v = raw / ONE;
            let encs = cffw::int_encodings(v);
            let enc = if self.rng.chance(3, 5) { encs[0] } else { *self.rng.pick(&encs) };
            match Tok::int(v, enc) {
                Some(t) => {
                    self.toks.push(t);
                    self.class(&format!("num:{}", enc.name()));
                }
                None => self.fail = Some("int encoding".to_string()),
            }
        } else if raw >= i32::MIN as i64 && raw <= i32::MAX as i64 {
            self.toks.push(Tok::fixed(raw as i32));
            self.class("num:5-byte-fixed");
            if raw % ONE != 0 {
                self.class("num:fraction");
            }
        } else {
            self.fail = Some("number out of range".to_string());
        }
    }

    /// Operands that are integers by their nature (subroutine numbers, the count of `blend`, the
    /// `vsindex` operand, the character codes of seac): integer encodings only. Interpreters that
    /// keep the operand type (e.g. FreeType's `cf2_stack_popInt`) refuse a 16.16 number there, so a
    /// 16.16 form is outside the unambiguous core.
    fn num_int(&mut self, v: i64) {
        let encs: Vec<cffw::NumEnc> = cffw::int_encodings(v).into_iter().filter(|e| *e != cffw::NumEnc::Five).collect();
        if encs.is_empty() {
            self.fail = Some("integer operand out of range".to_string());
            return;
        }
        let enc = if self.rng.chance(3, 5) { encs[0] } else { *self.rng.pick(&encs) };
        match Tok::int(v, enc) {
            Some(t) => {
                self.toks.push(t);
                self.class(&format!("num:{}", enc.name()));
            }
            None => self.fail = Some("int encoding".to_string()),
        }
    }

    /// Arguments available to the next operator (the pending width takes one slot).
    fn avail(&self) -> usize {
        let w = if self.first_clear && self.width.is_some() { 1 } else { 0 };
        let blend_room = match self.k {
            // a blended operand at position j needs j + k + 2 slots transiently
            Some(k) if self.cff2 => k + 2,
            _ => 0,
        };
        self.limit - w - blend_room
    }

    /// Push operands; CFF2 values with deltas go through `blend` (values without deltas may be
    /// included in a blend group with zero deltas).
    fn args(&mut self, vals: &[Val], base_depth: usize) {
        let k = match self.k {
            Some(k) if self.cff2 => k,
            _ => {
                for v in vals {
                    if v.has_deltas() {
                        self.fail = Some("deltas without variation data".to_string());
                    }
                    self.num(v.d);
                }
                return;
            }
        };
        let mut j = 0usize;
        while j < vals.len() {
            let depth = base_depth + j;
            let nmax_stack = (self.limit.saturating_sub(depth + 1)) / (k + 1);
            let want_blend = vals[j].has_deltas() || self.rng.chance(1, 12);
            if !want_blend || nmax_stack == 0 {
                if vals[j].has_deltas() {
                    self.fail = Some("no room for blend".to_string());
                }
                self.num(vals[j].d);
                j += 1;
                continue;
            }
            let nmax = nmax_stack.min(vals.len() - j);
            let n = match self.rng.below(4) {
                0 => 1,
                1 => nmax,
                _ => 1 + self.rng.below(nmax.min(8)),
            };
            for v in &vals[j..j + n] {
                self.num(v.d);
            }
            for v in &vals[j..j + n] {
                for r in 0..k {
                    self.num(v.deltas.get(r).copied().unwrap_or(0));
                }
            }
            self.num_int(n as i64);
            self.toks.push(Tok::blend(n, k));
            self.class("blend");
            if n > 1 {
                self.class("blend:n>1");
            }
            if k == 0 {
                self.class("blend:k=0");
            }
            j += n;
        }
    }

    /// Emit `[width] vals op` for a stack clearing operator.
    fn clear_op(&mut self, name: &str, vals: &[Val], tok: Tok, takes_width: bool) {
        let mut base = 0;
        if takes_width && self.first_clear {
            self.first_clear = false;
            if let Some(w) = self.width.take() {
                self.num(w * ONE);
                self.class(&format!("width-prefix:{}", name));
                base = 1;
            }
        }
        if !takes_width && self.first_clear && self.width.is_some() {
            self.fail = Some(format!("{} before the width", name));
        }
        self.args(vals, base);
        self.max_args = self.max_args.max(vals.len() + base);
        if vals.len() + base == self.limit {
            self.class("stack-full");
        }
        if self.cff2 && vals.len() > 48 {
            self.class("cff2:args>48");
        }
        self.toks.push(tok);
        self.class(&format!("op:{}", name));
    }

    fn mask_bytes(&mut self) -> Vec<u8> {
        let n = (self.n_stems + 7) / 8;
        (0..n)
            .map(|_| {
                if self.rng.chance(1, 3) {
                    // bytes that would be operators / number prefixes if the mask length were misjudged
                    *self.rng.pick(&[0x0eu8, 0x0b, 0x0a, 0x1d, 0x1c, 0xff, 0x13, 0x14, 0x0c, 0x15, 0x01, 0x00])
                } else {
                    self.rng.u8()
                }
            })
            .collect()
    }

    fn mask_op(&mut self, hint: bool, implicit: &[Val]) {
        let bytes = self.mask_bytes();
        self.class(&format!("hintmask:{}-bytes", bytes.len()));
        let (o, name) = if hint { (op::HINTMASK, "hintmask") } else { (op::CNTRMASK, "cntrmask") };
        self.clear_op(name, implicit, Tok::mask(o, &bytes), true);
    }

    fn stems(&mut self, stems: &[[Val; 2]], o: u8, name: &str) -> Vec<Val> {
        // returns the operands of the last chunk when `o` == 0 (left on the stack: implicit vstem)
        let mut i = 0;
        while i < stems.len() {
            let room = (self.avail() / 2).max(1);
            let n = pick_n(self.rng, room.min(stems.len() - i));
            let vals: Vec<Val> = stems[i..i + n].iter().flat_map(|s| s.iter().cloned()).collect();
            i += n;
            if i == stems.len() && o == 0 {
                return vals;
            }
            let real = if o == 0 { op::VSTEMHM } else { o };
            let real_name = if o == 0 { "vstemhm" } else { name };
            self.clear_op(real_name, &vals, Tok::op(real), true);
        }
        Vec::new()
    }

    fn hints(&mut self, h: &Hints) {
        self.n_stems = h.hstems.len() + h.vstems.len();
        let (ho, hn, vo, vn) = if h.masks {
            (op::HSTEMHM, "hstemhm", op::VSTEMHM, "vstemhm")
        } else {
            (op::HSTEM, "hstem", op::VSTEM, "vstem")
        };
        self.stems(&h.hstems, ho, hn);
        if !h.masks {
            self.stems(&h.vstems, vo, vn);
            return;
        }
        // TN 5177 4.3: "If hstem and vstem hints are both declared at the beginning of a charstring,
        // and this sequence is followed directly by the hintmask or cntrmask operators, the vstem
        // hint operator need not be included." The width rule additionally names hintmask / cntrmask
        // as possible first stack clearing operators, i.e. vstem-only implicit declarations.
        let implicit = !h.vstems.is_empty() && self.rng.chance(1, 2) && (!h.hstems.is_empty() || self.rng.chance(1, 3));
        let mut left: Vec<Val> = Vec::new();
        if implicit {
            left = self.stems(&h.vstems, 0, "");
            self.implicit_vstem = true;
            self.class("implicit-vstem");
        } else {
            self.stems(&h.vstems, vo, vn);
        }
        let n_cntr = if self.rng.chance(1, 3) { 1 + self.rng.below(2) } else { 0 };
        let initial_hint = implicit && n_cntr == 0 || self.rng.chance(1, 2);
        for _ in 0..n_cntr {
            let l = std::mem::take(&mut left);
            self.mask_op(false, &l);
        }
        if initial_hint {
            let l = std::mem::take(&mut left);
            self.mask_op(true, &l);
        }
    }

    fn moveto(&mut self, start: &[Val; 2]) {
        let mut forms: Vec<u8> = vec![op::RMOVETO];
        if start[1].is_zero() {
            forms.push(op::HMOVETO);
            forms.push(op::HMOVETO);
        }
        if start[0].is_zero() {
            forms.push(op::VMOVETO);
            forms.push(op::VMOVETO);
        }
        let f = *self.rng.pick(&forms);
        let (name, vals): (&'static str, Vec<Val>) = match f {
            op::HMOVETO => ("hmoveto", vec![start[0].clone()]),
            op::VMOVETO => ("vmoveto", vec![start[1].clone()]),
            _ => ("rmoveto", vec![start[0].clone(), start[1].clone()]),
        };
        self.clear_op(name, &vals, Tok::op(f), true);
        self.move_tags.push(name);
    }

    /// hvcurveto / vhcurveto chain validity: number of curves from `i` that can form a chain
    /// starting horizontal (`h`) or vertical.
    fn chain_len(segs: &[Seg], i: usize, mut h: bool) -> usize {
        let mut n = 0;
        while let Some(c) = segs.get(i + n).and_then(|s| s.curve()) {
            let start_ok = if h { c[1].is_zero() } else { c[0].is_zero() };
            if !start_ok {
                break;
            }
            n += 1;
            let end_ok = if h { c[4].is_zero() } else { c[5].is_zero() };
            if !end_ok {
                break;
            }
            h = !h;
        }
        n
    }

    fn segs(&mut self, ci: usize, segs: &[Seg], masks: bool) {
        let mut tags: Vec<&'static str> = Vec::with_capacity(segs.len());
        let mut i = 0usize;
        while i < segs.len() {
            if masks && self.rng.chance(1, 8) {
                self.mask_op(true, &[]);
                self.class("hintmask:between-segments");
            }
            let avail = self.avail();
            // run lengths
            let mut nl = 0;
            while segs.get(i + nl).map_or(false, |s| s.line().is_some()) {
                nl += 1;
            }
            let mut nc = 0;
            while segs.get(i + nc).map_or(false, |s| s.curve().is_some()) {
                nc += 1;
            }
            // candidate forms: (name, max count)
            let mut cand: Vec<(&'static str, usize)> = Vec::new();
            if nl > 0 {
                cand.push(("rlineto", nl.min(avail / 2)));
                let alt = |mut h: bool| -> usize {
                    let mut n = 0;
                    while let Some(l) = segs.get(i + n).and_then(|s| s.line()) {
                        if !(if h { l[1].is_zero() } else { l[0].is_zero() }) {
                            break;
                        }
                        n += 1;
                        h = !h;
                    }
                    n
                };
                let (ah, av) = (alt(true), alt(false));
                if ah > 0 {
                    cand.push(("hlineto", ah.min(avail)));
                    cand.push(("hlineto", ah.min(avail)));
                }
                if av > 0 {
                    cand.push(("vlineto", av.min(avail)));
                    cand.push(("vlineto", av.min(avail)));
                }
                if segs.get(i + nl).map_or(false, |s| s.curve().is_some()) && 2 * nl + 6 <= avail {
                    cand.push(("rlinecurve", nl));
                    cand.push(("rlinecurve", nl));
                }
            } else {
                let c0 = segs[i].curve().unwrap_or_else(|| unreachable!());
                cand.push(("rrcurveto", nc.min(avail / 6)));
                if segs.get(i + nc).map_or(false, |s| s.line().is_some()) && 6 * nc + 2 <= avail {
                    cand.push(("rcurveline", nc));
                    cand.push(("rcurveline", nc));
                }
                // hhcurveto / vvcurveto
                let run = |a: usize, b: usize| -> usize {
                    // first curve: component b (end tangent) zero; later: a and b zero
                    let mut n = 0;
                    while let Some(c) = segs.get(i + n).and_then(|s| s.curve()) {
                        if !c[b].is_zero() || (n > 0 && !c[a].is_zero()) {
                            break;
                        }
                        n += 1;
                    }
                    n
                };
                let hh = run(1, 5).min((avail.saturating_sub(1)) / 4);
                let vv = run(0, 4).min((avail.saturating_sub(1)) / 4);
                if hh > 0 {
                    cand.push(("hhcurveto", hh));
                    cand.push(("hhcurveto", hh));
                }
                if vv > 0 {
                    cand.push(("vvcurveto", vv));
                    cand.push(("vvcurveto", vv));
                }
                let hv = Self::chain_len(segs, i, true).min((avail.saturating_sub(1)) / 4);
                let vh = Self::chain_len(segs, i, false).min((avail.saturating_sub(1)) / 4);
                if hv > 0 {
                    cand.push(("hvcurveto", hv));
                    cand.push(("hvcurveto", hv));
                }
                if vh > 0 {
                    cand.push(("vhcurveto", vh));
                    cand.push(("vhcurveto", vh));
                }
                if let Some(c1) = segs.get(i + 1).and_then(|s| s.curve()) {
                    if avail >= 13 {
                        cand.push(("flex", 2));
                    }
                    if c0[1].is_zero() && c0[5].is_zero() && c1[1].is_zero() && c1[5].is_zero() && c1[3].same(&c0[3].neg()) {
                        for _ in 0..4 {
                            cand.push(("hflex", 2));
                        }
                    }
                    if c0[5].is_zero() && c1[1].is_zero() && sum(&[&c0[1], &c0[3], &c1[3], &c1[5]]).is_zero() {
                        for _ in 0..4 {
                            cand.push(("hflex1", 2));
                        }
                    }
                    let dx = sum(&[&c0[0], &c0[2], &c0[4], &c1[0], &c1[2]]);
                    let dy = sum(&[&c0[1], &c0[3], &c0[5], &c1[1], &c1[3]]);
                    let exact = c0.iter().chain(c1[..4].iter()).all(|v| v.is_integer());
                    // A tie |dx| == |dy| is the dy form by TN 5177, but only decidable when the
                    // interpreter's pen arithmetic is exact: an interpreter that tracks absolute f32
                    // positions loses the tie to rounding once the pen is at a fractional position.
                    let fragile_tie = exact && dx.d.abs() == dy.d.abs() && !self.int_pen;
                    match abs_gt(&dx, &dy, exact, &self.tuples) {
                        _ if fragile_tie => {}
                        Some(true) if c1[5].same(&dy.neg()) => {
                            for _ in 0..4 {
                                cand.push(("flex1:dx", 2));
                            }
                        }
                        Some(false) if c1[4].same(&dx.neg()) => {
                            for _ in 0..4 {
                                cand.push(("flex1:dy", 2));
                            }
                        }
                        _ => {}
                    }
                }
            }
            cand.retain(|c| c.1 > 0);
            if cand.is_empty() {
                self.fail = Some("no operator form fits".to_string());
                return;
            }
            let (form, maxn) = *self.rng.pick(&cand);
            let z = Val::zero();
            let mut vals: Vec<Val> = Vec::new();
            let used;
            match form {
                "rlineto" => {
                    used = pick_n(self.rng, maxn);
                    for s in &segs[i..i + used] {
                        vals.extend_from_slice(s.vals());
                    }
                    self.clear_op(form, &vals, Tok::op(op::RLINETO), false);
                    tags.extend(std::iter::repeat(form).take(used));
                }
                "hlineto" | "vlineto" => {
                    used = pick_n(self.rng, maxn);
                    let mut h = form == "hlineto";
                    for s in &segs[i..i + used] {
                        let l = s.line().unwrap_or_else(|| unreachable!());
                        vals.push(if h { l[0].clone() } else { l[1].clone() });
                        h = !h;
                    }
                    let o = if form == "hlineto" { op::HLINETO } else { op::VLINETO };
                    self.clear_op(form, &vals, Tok::op(o), false);
                    if used > 1 {
                        self.class(&format!("op:{}+alternating", form));
                    }
                    tags.extend(std::iter::repeat(form).take(used));
                }
                "rlinecurve" => {
                    used = maxn + 1;
                    for s in &segs[i..i + used] {
                        vals.extend_from_slice(s.vals());
                    }
                    self.clear_op(form, &vals, Tok::op(op::RLINECURVE), false);
                    tags.extend(std::iter::repeat(form).take(used));
                }
                "rrcurveto" => {
                    used = pick_n(self.rng, maxn);
                    for s in &segs[i..i + used] {
                        vals.extend_from_slice(s.vals());
                    }
                    self.clear_op(form, &vals, Tok::op(op::RRCURVETO), false);
                    if used > 1 {
                        self.class("op:rrcurveto+multiple");
                    }
                    tags.extend(std::iter::repeat(form).take(used));
                }
                "rcurveline" => {
                    used = maxn + 1;
                    for s in &segs[i..i + used] {
                        vals.extend_from_slice(s.vals());
                    }
                    self.clear_op(form, &vals, Tok::op(op::RCURVELINE), false);
                    tags.extend(std::iter::repeat(form).take(used));
                }
                "hhcurveto" | "vvcurveto" => {
                    used = pick_n(self.rng, maxn);
                    let hh = form == "hhcurveto";
                    let (lead_i, name_lead): (usize, &'static str) = if hh { (1, "hhcurveto+dy1") } else { (0, "vvcurveto+dx1") };
                    let c0 = segs[i].curve().unwrap_or_else(|| unreachable!());
                    let lead = !c0[lead_i].is_zero() || self.rng.chance(1, 6);
                    if lead {
                        vals.push(c0[lead_i].clone());
                    }
                    for s in &segs[i..i + used] {
                        let c = s.curve().unwrap_or_else(|| unreachable!());
                        if hh {
                            vals.extend_from_slice(&[c[0].clone(), c[2].clone(), c[3].clone(), c[4].clone()]);
                        } else {
                            vals.extend_from_slice(&[c[1].clone(), c[2].clone(), c[3].clone(), c[5].clone()]);
                        }
                    }
                    self.clear_op(form, &vals, Tok::op(if hh { op::HHCURVETO } else { op::VVCURVETO }), false);
                    if lead {
                        self.class(&format!("op:{}", name_lead));
                    }
                    if used > 1 {
                        self.class(&format!("op:{}+multiple", form));
                    }
                    tags.push(if lead { name_lead } else { form });
                    tags.extend(std::iter::repeat(form).take(used - 1));
                }
                "hvcurveto" | "vhcurveto" => {
                    used = pick_n(self.rng, maxn);
                    let mut h = form == "hvcurveto";
                    let mut tail = false;
                    for (j, s) in segs[i..i + used].iter().enumerate() {
                        let c = s.curve().unwrap_or_else(|| unreachable!());
                        let last = j + 1 == used;
                        if h {
                            vals.extend_from_slice(&[c[0].clone(), c[2].clone(), c[3].clone(), c[5].clone()]);
                        } else {
                            vals.extend_from_slice(&[c[1].clone(), c[2].clone(), c[3].clone(), c[4].clone()]);
                        }
                        if last {
                            let t = if h { &c[4] } else { &c[5] };
                            if !t.is_zero() || self.rng.chance(1, 6) {
                                vals.push(t.clone());
                                tail = true;
                            }
                        }
                        h = !h;
                    }
                    let hv = form == "hvcurveto";
                    self.clear_op(form, &vals, Tok::op(if hv { op::HVCURVETO } else { op::VHCURVETO }), false);
                    let tail_name: &'static str = if hv { "hvcurveto+tail" } else { "vhcurveto+tail" };
                    if tail {
                        self.class(&format!("op:{}", tail_name));
                    }
                    if used > 1 {
                        self.class(&format!("op:{}+chain", form));
                    }
                    if used % 2 == 0 && tail {
                        self.class(&format!("op:{}+even-tail", form));
                    }
                    tags.extend(std::iter::repeat(form).take(used - 1));
                    tags.push(if tail { tail_name } else { form });
                }
                _ => {
                    used = 2;
                    let c0 = segs[i].curve().unwrap_or_else(|| unreachable!()).clone();
                    let c1 = segs[i + 1].curve().unwrap_or_else(|| unreachable!()).clone();
                    let o2 = match form {
                        "flex" => {
                            vals.extend_from_slice(&c0);
                            vals.extend_from_slice(&c1);
                            vals.push(Val::int(*self.rng.pick(&[50i64, 0, 100, 7])));
                            op::FLEX
                        }
                        "hflex" => {
                            vals.extend_from_slice(&[c0[0].clone(), c0[2].clone(), c0[3].clone(), c0[4].clone(), c1[0].clone(), c1[2].clone(), c1[4].clone()]);
                            op::HFLEX
                        }
                        "hflex1" => {
                            vals.extend_from_slice(&[
                                c0[0].clone(),
                                c0[1].clone(),
                                c0[2].clone(),
                                c0[3].clone(),
                                c0[4].clone(),
                                c1[0].clone(),
                                c1[2].clone(),
                                c1[3].clone(),
                                c1[4].clone(),
                            ]);
                            op::HFLEX1
                        }
                        _ => {
                            vals.extend_from_slice(&c0);
                            vals.extend_from_slice(&c1[..4]);
                            vals.push(if form == "flex1:dx" { c1[4].clone() } else { c1[5].clone() });
                            let dx = sum(&[&c0[0], &c0[2], &c0[4], &c1[0], &c1[2]]);
                            let dy = sum(&[&c0[1], &c0[3], &c0[5], &c1[1], &c1[3]]);
                            if c0.iter().chain(c1[..4].iter()).all(|v| v.is_integer()) && dx.d.abs() == dy.d.abs() && dx.d != 0 {
                                self.class("op:flex1:tie");
                            }
                            op::FLEX1
                        }
                    };
                    self.clear_op(form, &vals, Tok::op2(o2), false);
                    tags.push(form);
                    tags.push(form);
                }
            }
            let _ = z;
            i += used;
        }
        if self.seg_tags.len() <= ci {
            self.seg_tags.resize(ci + 1, Vec::new());
        }
        self.seg_tags[ci] = tags;
    }

    fn glyph(&mut self, g: &Glyph) {
        if self.cff2 && g.explicit_vsindex {
            self.num_int(g.vsindex as i64);
            self.toks.push(Tok::op(op::VSINDEX));
            self.class("op:vsindex");
        }
        if let Some(s) = &g.seac {
            // [w] adx ady bchar achar endchar (TN 5177 appendix C)
            self.first_clear = false;
            if let Some(w) = self.width.take() {
                self.num(w * ONE);
                self.class("width-prefix:endchar-seac");
            } else {
                self.class("seac:no-width");
            }
            self.num(s.adx.d);
            self.num(s.ady.d);
            self.num_int(s.bchar as i64);
            self.num_int(s.achar as i64);
            self.toks.push(Tok::op(op::ENDCHAR));
            self.class("op:endchar-seac");
            self.class("seac");
            return;
        }
        let masks = g.hints.as_ref().map_or(false, |h| h.masks);
        if let Some(h) = &g.hints {
            self.hints(h);
        }
        for (ci, c) in g.contours.iter().enumerate() {
            self.moveto(&c.start);
            if masks && self.rng.chance(1, 4) {
                self.mask_op(true, &[]);
            }
            self.segs(ci, &c.segs, masks);
            if self.fail.is_some() {
                return;
            }
        }
        if !self.cff2 {
            self.clear_op("endchar", &[], Tok::op(op::ENDCHAR), true);
        }
    }
}

struct Encoded {
    toks: Vec<Tok>,
    classes: Vec<String>,
    seg_tags: Vec<Vec<&'static str>>,
    move_tags: Vec<&'static str>,
    max_args: usize,
}

fn encode_glyph(rng: &mut Rng, g: &Glyph, cff2: bool, k: Option<usize>, tuples: &[Vec<f64>], int_origin: bool) -> Result<Encoded, String> {
    let mut e = Enc {
        rng,
        toks: Vec::new(),
        limit: if cff2 { 513 } else { 48 },
        cff2,
        k,
        tuples: tuples.to_vec(),
        classes: Vec::new(),
        width: if cff2 { None } else { g.width },
        first_clear: true,
        seg_tags: vec![Vec::new(); g.contours.len()],
        move_tags: Vec::new(),
        max_args: 0,
        n_stems: 0,
        implicit_vstem: false,
        int_pen: int_origin && g.all_integer(),
        fail: None,
    };
    e.glyph(g);
    if let Some(f) = e.fail {
        return Err(f);
    }
    Ok(Encoded { toks: e.toks, classes: e.classes, seg_tags: e.seg_tags, move_tags: e.move_tags, max_args: e.max_args })
}

// ---------------------------------------------------------------------------------------------
// Font assembly
// ---------------------------------------------------------------------------------------------

#[derive(Copy, Clone, Debug, PartialEq)]
enum Flavour {
    Name,
    Cid,
    Cff2,
}

impl Flavour {
    fn name(self) -> &'static str {
        match self {
            Flavour::Name => "name",
            Flavour::Cid => "cid",
            Flavour::Cff2 => "cff2",
        }
    }
}

/// Overrides for directed (exhaustive) cases.
#[derive(Clone, Debug, Default)]
struct Directed {
    flavour: Option<Flavour>,
    /// (count, slot) of the local / global subroutine INDEX; the glyph calls exactly that slot
    local: Option<(usize, usize)>,
    global: Option<(usize, usize)>,
}

fn gen_axis(rng: &mut Rng) -> (i16, i16, i16) {
    let sorted3 = |rng: &mut Rng| -> (i16, i16, i16) {
        let mut v = [rng.range(0, 16384), rng.range(0, 16384), rng.range(0, 16384)];
        v.sort();
        if v[1] == 0 {
            v[1] = 1;
            v[2] = v[2].max(1);
        }
        (v[0] as i16, v[1] as i16, v[2] as i16)
    };
    match rng.below(9) {
        0 | 1 => (0, 16384, 16384),
        2 => (-16384, -16384, 0),
        3 => (0, rng.range(1, 16383) as i16, 16384),
        4 => (-16384, -(rng.range(1, 16383) as i16), 0),
        5 => (0, 0, 0),
        6 => sorted3(rng),
        7 => {
            let (s, p, e) = sorted3(rng);
            (-e, -p, -s)
        }
        _ => (0, 8192, 16384),
    }
}

fn gen_vstore(rng: &mut Rng) -> (cffw::VStore, Vec<Vec<i16>>) {
    let axis_count = 1 + rng.below(2);
    let n_regions = 1 + rng.below(3);
    let regions: Vec<cffw::VarRegion> =
        (0..n_regions).map(|_| cffw::VarRegion { axes: (0..axis_count).map(|_| gen_axis(rng)).collect() }).collect();
    let n_data = 1 + rng.below(2);
    let mut data = Vec::new();
    for _ in 0..n_data {
        let mut idx: Vec<u16> = (0..n_regions as u16).collect();
        rng.shuffle(&mut idx);
        let keep = if rng.chance(1, 40) { 0 } else { 1 + rng.below(n_regions) };
        idx.truncate(keep);
        data.push(cffw::VarData { region_indexes: idx });
    }
    let n_tuples = 1 + rng.below(2);
    let mut tuples = Vec::new();
    for _ in 0..n_tuples {
        let t: Vec<i16> = (0..axis_count)
            .map(|a| {
                let r = &regions[rng.below(n_regions)].axes[a];
                match rng.below(10) {
                    0 => 0,
                    1 => 16384,
                    2 => -16384,
                    3 | 4 => r.1,
                    5 => r.0,
                    6 => r.2,
                    7 => ((r.0 as i32 + r.1 as i32) / 2) as i16,
                    8 => ((r.1 as i32 + r.2 as i32) / 2) as i16,
                    _ => rng.range(-16384, 16384) as i16,
                }
            })
            .collect();
        tuples.push(t);
    }
    (cffw::VStore { axis_count: axis_count as u16, regions, data }, tuples)
}

struct Slot {
    glyph: Option<Glyph>,
    fd: usize,
    enc: Option<Encoded>,
    main: Vec<Tok>,
    stats: cffw::FactorStats,
    /// scalars at each tuple for this glyph's vsindex (one empty vec when not variable)
    tuples: Vec<Vec<f64>>,
    k: Option<usize>,
}

struct Built {
    flavour: Flavour,
    bytes: Vec<u8>,
    slots: Vec<Slot>,
    locals: Vec<SubrSpace>,
    global: SubrSpace,
    vstore: Option<cffw::VStore>,
    tuples_raw: Vec<Vec<i16>>,
    iso_adobe: bool,
    fd_vsindex: Vec<usize>,
    classes: Vec<String>,
}

fn pick_subr_count(rng: &mut Rng, quick: bool) -> usize {
    match rng.below(100) {
        0..=14 => 0,
        15..=69 => 1 + rng.below(30),
        70..=84 => 30 + rng.below(300),
        85..=91 => 1236 + rng.below(8),
        92 | 93 => {
            if quick && rng.bool() {
                1238 + rng.below(4)
            } else {
                33896 + rng.below(8)
            }
        }
        94 => 33900 + rng.below(31000),
        _ => 100 + rng.below(1100),
    }
}

/// Token level sanity walk (no byte decoding): stack limit, mask sizes, subroutine ranges and
/// nesting, nothing after endchar.
struct Walk<'a> {
    local: &'a SubrSpace,
    global: &'a SubrSpace,
    limit: usize,
    cff2: bool,
    depth: usize,
    stems: usize,
    first_clear: bool,
    ended: bool,
    max_level: usize,
    calls: usize,
    /// hash of the executed non-call tokens, in execution order
    exec: u64,
}

fn tok_seq_hash(h: u64, t: &Tok) -> u64 {
    mix(h, hash_bytes(&t.bytes))
}

impl<'a> Walk<'a> {
    fn run(&mut self, toks: &[Tok], level: usize) -> Result<(), String> {
        self.max_level = self.max_level.max(level);
        for (i, t) in toks.iter().enumerate() {
            if self.ended {
                return Err("token after endchar".to_string());
            }
            if !matches!(t.effect, Effect::Call { .. } | Effect::None) {
                self.exec = tok_seq_hash(self.exec, t);
            }
            match &t.effect {
                Effect::Push => {
                    self.depth += 1;
                    if self.depth > self.limit {
                        return Err(format!("stack depth {} > {}", self.depth, self.limit));
                    }
                }
                Effect::Clear => {
                    self.depth = 0;
                }
                Effect::Stems | Effect::Mask { .. } => {
                    let mut n = self.depth;
                    if n % 2 == 1 {
                        if self.cff2 || !self.first_clear {
                            return Err("odd stem operand count".to_string());
                        }
                        n -= 1;
                    }
                    self.first_clear = false;
                    self.stems += n / 2;
                    if let Effect::Mask { mask_len } = &t.effect {
                        if *mask_len != (self.stems + 7) / 8 {
                            return Err(format!("mask of {} bytes for {} stems", mask_len, self.stems));
                        }
                    }
                    self.depth = 0;
                }
                Effect::Blend { n, k } => {
                    let need = n * (k + 1) + 1;
                    if !self.cff2 || self.depth < need {
                        return Err("blend underflow".to_string());
                    }
                    self.depth = self.depth - need + n;
                }
                Effect::Pop1 => {
                    if self.depth < 1 {
                        return Err("vsindex underflow".to_string());
                    }
                    self.depth -= 1;
                }
                Effect::None => {
                    if i + 1 != toks.len() || level == 0 || self.cff2 {
                        return Err("misplaced return".to_string());
                    }
                }
                Effect::End => {
                    if self.cff2 {
                        return Err("endchar in CFF2".to_string());
                    }
                    self.ended = true;
                    self.depth = 0;
                }
                Effect::Call { global, index } => {
                    if self.depth + 1 > self.limit {
                        return Err("no stack room for the subroutine number".to_string());
                    }
                    let space = if *global { self.global } else { self.local };
                    if *index >= space.count {
                        return Err(format!("subroutine {} of {}", index, space.count));
                    }
                    let operand = *index as i64 - cffw::subr_bias(space.count);
                    if !(-32768..=32767).contains(&operand) {
                        return Err("subroutine operand out of range".to_string());
                    }
                    if level + 1 > 10 {
                        return Err("nesting > 10".to_string());
                    }
                    self.calls += 1;
                    let body = space.used.get(index).ok_or("call of an unused slot")?;
                    self.run(body, level + 1)?;
                }
            }
            if matches!(t.effect, Effect::Clear) && t.bytes.len() == 1 && matches!(t.bytes[0], op::RMOVETO | op::HMOVETO | op::VMOVETO) {
                self.first_clear = false;
            }
        }
        Ok(())
    }
}

fn dict_blend_blue_values(k: usize, rng: &mut Rng) -> Vec<u8> {
    // BlueValues with blended operands: n*(k+1) operands, n, blend, then the BlueValues operator
    let mut d = Vec::new();
    let n = 4;
    for v in [-12, 12, 468, 12] {
        cffw::dict_int(&mut d, v);
    }
    for _ in 0..n * k {
        cffw::dict_int(&mut d, rng.range(-5, 5) as i32);
    }
    cffw::dict_int(&mut d, n as i32);
    cffw::dict_op(&mut d, cffw::dop::BLEND);
    cffw::dict_op(&mut d, cffw::dop::BLUE_VALUES);
    d
}

fn build_font(cx: &mut Ctx, rng: &mut Rng, dir: Option<&Directed>) -> Result<Built, String> {
    let quick = cx.quick();
    let flavour = dir.and_then(|d| d.flavour).unwrap_or_else(|| match rng.below(20) {
        0..=7 => Flavour::Name,
        8..=12 => Flavour::Cid,
        _ => Flavour::Cff2,
    });
    let cff2 = flavour == Flavour::Cff2;
    let limit = if cff2 { 513 } else { 48 };
    let mut classes: Vec<String> = vec![format!("flavour:{}", flavour.name())];

    // variation data
    let (vstore, tuples_raw) = if cff2 && dir.is_none() && rng.chance(7, 10) {
        let (v, t) = gen_vstore(rng);
        (Some(v), t)
    } else {
        (None, Vec::new())
    };
    if let Some(v) = &vstore {
        classes.push(format!("vstore:axes={}", v.axis_count));
        classes.push(format!("vstore:regions={}", v.regions.len()));
    }

    // Font DICTs
    let n_fd = match flavour {
        Flavour::Name => 1,
        Flavour::Cid => 1 + rng.below(4),
        Flavour::Cff2 => {
            if dir.is_some() {
                1
            } else {
                1 + rng.small(2)
            }
        }
    };
    let fd_vsindex_opt: Vec<Option<u16>> = (0..n_fd)
        .map(|_| match &vstore {
            Some(v) if rng.bool() => Some(rng.below(v.data.len()) as u16),
            _ => None,
        })
        .collect();
    let fd_vsindex: Vec<usize> = fd_vsindex_opt.iter().map(|v| v.unwrap_or(0) as usize).collect();

    // glyph list
    let n_real = if dir.is_some() { 1 } else { 1 + rng.below(5) };
    let seac = flavour == Flavour::Name && dir.is_none() && rng.chance(1, 4);
    let mut iso_adobe = flavour == Flavour::Name && rng.bool();
    let mut n_glyphs = n_real + rng.below(4);
    let mut seac_codes: Option<(u8, u8)> = None;
    if seac {
        let b = match rng.below(10) {
            0..=6 => rng.range(33, 126) as u8,
            7 => 245,
            8 => *rng.pick(&[225u8, 241, 232, 233, 234, 248, 249, 250, 251]),
            _ => 32,
        };
        let a = match rng.below(8) {
            0..=5 => *rng.pick(&[193u8, 194, 195, 196, 197, 198, 199, 200, 202, 203, 205, 206, 207]),
            6 => rng.range(33, 126) as u8,
            _ => b,
        };
        seac_codes = Some((b, a));
        n_glyphs += 3;
    }
    if iso_adobe {
        if let Some((b, a)) = seac_codes {
            let need = cffw::standard_encoding_sid(b).max(cffw::standard_encoding_sid(a)) as usize + 1;
            n_glyphs = n_glyphs.max(need + rng.below(3));
        }
        if n_glyphs > cffw::ISO_ADOBE_LAST_SID as usize + 1 {
            iso_adobe = false;
        }
    }
    let n_glyphs = n_glyphs.max(if seac { 3 } else { 1 });

    // positions of the real glyphs (and of the seac triple)
    let mut order: Vec<usize> = (0..n_glyphs).collect();
    rng.shuffle(&mut order);
    let mut real_pos: Vec<usize> = Vec::new();
    let mut seac_pos: Option<(usize, usize, usize)> = None; // composite, base, accent
    let mut charset_ids: Vec<u16> = (0..n_glyphs).map(|g| cffw::N_STD_STRINGS + g as u16).collect();
    if let Some((b, a)) = seac_codes {
        let (sb, sa) = (cffw::standard_encoding_sid(b) as usize, cffw::standard_encoding_sid(a) as usize);
        if iso_adobe {
            let comp = (0..n_glyphs).filter(|g| *g != sb && *g != sa).nth(0).ok_or("no room for seac composite")?;
            let others: Vec<usize> = (0..n_glyphs).filter(|g| *g != sb && *g != sa && *g != comp).collect();
            let comp = if !others.is_empty() && rng.bool() { others[rng.below(others.len())] } else { comp };
            seac_pos = Some((comp, sb, sa));
        } else {
            // custom charset: components anywhere but glyph 0 (.notdef has no charset entry)
            let free: Vec<usize> = order.iter().copied().filter(|g| *g != 0).collect();
            if free.len() < 2 {
                return Err("seac needs two named glyphs".to_string());
            }
            let pb = free[0];
            let pa = if sb == sa { pb } else { free[1] };
            let comp = order.iter().copied().find(|g| *g != pb && *g != pa).ok_or("no room for seac composite")?;
            charset_ids[pb] = sb as u16;
            charset_ids[pa] = sa as u16;
            seac_pos = Some((comp, pb, pa));
        }
    }
    for &g in &order {
        if real_pos.len() >= n_real {
            break;
        }
        if seac_pos.map_or(true, |(c, _, _)| c != g) {
            real_pos.push(g);
        }
    }
    if let Some((_, b, a)) = seac_pos {
        for p in [b, a] {
            if !real_pos.contains(&p) {
                real_pos.push(p);
            }
        }
    }

    let fd_of: Vec<usize> = (0..n_glyphs).map(|_| rng.below(n_fd)).collect();
    let font_numclass = match rng.below(10) {
        0..=5 => NumClass::Int,
        6 | 7 => NumClass::Fixed,
        _ => NumClass::Mixed,
    };

    let mut slots: Vec<Slot> = Vec::with_capacity(n_glyphs);
    for g in 0..n_glyphs {
        let fd = fd_of[g];
        // variation context of the glyph
        let (vs, explicit) = match &vstore {
            Some(v) => {
                if rng.bool() {
                    (fd_vsindex[fd], rng.chance(1, 4))
                } else {
                    (rng.below(v.data.len()), true)
                }
            }
            None => (0, false),
        };
        let k = vstore.as_ref().map(|v| v.data[vs].region_indexes.len());
        let tuples: Vec<Vec<f64>> = match &vstore {
            Some(v) => tuples_raw.iter().map(|t| v.scalars(vs, t)).collect(),
            None => vec![Vec::new()],
        };
        let mut slot = Slot { glyph: None, fd, enc: None, main: Vec::new(), stats: Default::default(), tuples: tuples.clone(), k };
        if real_pos.contains(&g) {
            let numclass = if rng.chance(3, 4) { font_numclass } else { NumClass::Int };
            let small = numclass != NumClass::Int || k.map_or(false, |k| k > 0);
            let gg = GlyphGen {
                numclass,
                k: k.unwrap_or(0),
                delta_pct: if k.unwrap_or(0) == 0 { 0 } else { *rng.pick(&[0u32, 15, 40, 100]) },
                lim: if small { 2000 * ONE } else { 30000 * ONE },
                shrink: 1,
                cff2,
                tuples,
            };
            let mut glyph = gen_glyph(rng, &gg, !cff2);
            glyph.vsindex = vs;
            glyph.explicit_vsindex = explicit;
            slot.glyph = Some(glyph);
        } else if seac_pos.map_or(false, |(c, _, _)| c == g) {
            let (_, b, a) = seac_pos.unwrap_or((0, 0, 0));
            let (bc, ac) = seac_codes.unwrap_or((0, 0));
            let adx = if rng.chance(1, 5) { Val { d: rng.range(-300 * ONE, 300 * ONE), deltas: Vec::new() } } else { Val::int(rng.range(-600, 600)) };
            let glyph = Glyph {
                seac: Some(Seac { adx, ady: Val::int(rng.range(-600, 600)), bchar: bc, achar: ac, base: b, accent: a }),
                width: if rng.bool() { Some(gen_int(rng)) } else { None },
                ..Default::default()
            };
            slot.glyph = Some(glyph);
        }
        slots.push(slot);
    }

    // encode
    let seac_fractional = slots.iter().any(|s| s.glyph.as_ref().and_then(|g| g.seac.as_ref()).map_or(false, |sc| !sc.adx.is_integer() || !sc.ady.is_integer()));
    for s in slots.iter_mut() {
        if let Some(g) = &s.glyph {
            let e = encode_glyph(rng, g, cff2, s.k, &s.tuples, !seac_fractional)?;
            s.enc = Some(e);
        }
    }

    // subroutine spaces
    let use_subrs = dir.is_some() || rng.chance(13, 20);
    let mut global = match dir.and_then(|d| d.global) {
        Some((count, slot)) => SubrSpace::with_candidates(count, vec![slot]),
        None if use_subrs && dir.is_none() => SubrSpace::new(pick_subr_count(rng, quick), 28, rng),
        _ => SubrSpace::empty(),
    };
    let mut locals: Vec<SubrSpace> = Vec::new();
    let shared_layout = n_fd > 1 && rng.bool();
    let shared_count = pick_subr_count(rng, quick);
    let shared_rng = rng.fork();
    for _ in 0..n_fd {
        let sp = match dir.and_then(|d| d.local) {
            Some((count, slot)) => SubrSpace::with_candidates(count, vec![slot]),
            None if use_subrs && dir.is_none() => {
                if shared_layout {
                    // same size and same candidate slots in every Font DICT: a reader that picks the
                    // wrong Font DICT finds a *different* subroutine at the same index
                    SubrSpace::new(shared_count, 28, &mut shared_rng.clone())
                } else {
                    SubrSpace::new(pick_subr_count(rng, quick), 28, rng)
                }
            }
            _ => SubrSpace::empty(),
        };
        locals.push(sp);
    }
    if shared_layout && use_subrs {
        classes.push("cid:same-slots-in-every-fd".to_string());
    }

    // factoring
    let has_seac = seac_pos.is_some();
    for s in slots.iter_mut() {
        let enc = match &s.enc {
            Some(e) => e,
            None => continue,
        };
        let depths = cffw::flat_depths(&enc.toks).ok_or("flat depth underflow")?;
        if depths.iter().any(|&d| d > limit) {
            return Err("flat program exceeds the stack limit".to_string());
        }
        let cfg = cffw::FactorCfg {
            stack_limit: limit,
            // whether a seac component counts as a nesting level is not settled by TN 5177: keep
            // composite depth + 1 + component depth <= 10 so that either reading accepts the font
            max_depth: if has_seac { 4 } else { 10 },
            emit_return: !cff2,
            deep: dir.is_none() && rng.chance(1, 10),
            cut_pct: if dir.is_some() { 100 } else { *rng.pick(&[25u32, 50, 80]) },
        };
        let mut stats = cffw::FactorStats::default();
        let local = &mut locals[s.fd];
        if let Some(d) = dir {
            // directed: the whole program goes into the requested slot(s)
            let mut body = enc.toks.clone();
            let mut main: Vec<Tok> = Vec::new();
            for (is_global, want) in [(false, d.local), (true, d.global)] {
                if want.is_none() {
                    continue;
                }
                let space = if is_global { &mut global } else { &mut *local };
                let count = space.count;
                // a CFF program ends with endchar (possibly nested): nothing may follow the call,
                // so no `return` is appended; CFF2 subroutines have no `return` at all
                let idx = space.alloc(body).ok_or("directed slot")?;
                let (t, enc) = cffw::call_tok(idx, count, is_global, rng).ok_or("directed call")?;
                stats.operand_encs.push(enc);
                if is_global {
                    stats.global_calls += 1;
                } else {
                    stats.local_calls += 1;
                }
                stats.max_depth += 1;
                main = vec![t];
                body = main.clone();
            }
            s.main = main;
        } else {
            s.main = cffw::factor(&enc.toks, &depths, local, &mut global, &cfg, rng, &mut stats);
        }
        s.stats = stats;
    }

    // sanity walk
    for s in slots.iter() {
        if s.enc.is_none() {
            continue;
        }
        let mut w = Walk {
            local: &locals[s.fd],
            global: &global,
            limit,
            cff2,
            depth: 0,
            stems: 0,
            first_clear: true,
            ended: false,
            max_level: 0,
            calls: 0,
            exec: 0,
        };
        w.run(&s.main, 0)?;
        let flat_hash = s.enc.as_ref().map_or(0, |e| e.toks.iter().fold(0u64, tok_seq_hash));
        if w.exec != flat_hash {
            return Err("factored program does not execute the flat token sequence".to_string());
        }
        if !cff2 && !w.ended {
            return Err("charstring without endchar".to_string());
        }
        if w.depth != 0 {
            return Err("operands left on the stack".to_string());
        }
    }

    // serialise
    let filler_glyph = |rng: &mut Rng| -> Vec<u8> {
        if cff2 {
            Vec::new()
        } else if rng.bool() {
            vec![op::ENDCHAR]
        } else {
            let mut b = Vec::new();
            cffw::cs_int_short(&mut b, rng.range(-500, 500));
            b.push(op::ENDCHAR);
            b
        }
    };
    let glyph_bytes: Vec<Vec<u8>> =
        slots.iter().map(|s| if s.enc.is_some() { cffw::toks_bytes(&s.main) } else { filler_glyph(rng) }).collect();
    let poison = rng.bool();
    let filler = move |fd: usize| {
        move |slot: usize| -> Vec<u8> {
            if poison {
                // never called by a well-formed program; draws something recognisable if it is
                let mut b = Vec::new();
                cffw::cs_int_short(&mut b, 7 + fd as i64);
                cffw::cs_int_short(&mut b, (slot % 50) as i64 + 1);
                b.push(op::RLINETO);
                if !cff2 {
                    b.push(op::RETURN);
                }
                b
            } else if cff2 {
                Vec::new()
            } else {
                vec![op::RETURN]
            }
        }
    };
    let global_vecs = global.to_vecs(&filler(9));
    let local_vecs: Vec<Option<Vec<Vec<u8>>>> = locals
        .iter()
        .enumerate()
        .map(|(fd, l)| if l.count == 0 && rng.bool() { None } else { Some(l.to_vecs(&filler(fd))) })
        .collect();
    let off_size = *rng.pick(&[None, None, Some(1u8), Some(2), Some(3), Some(4)]);
    let fdselect_format = if rng.bool() { 0 } else { 3 };
    let fd_bytes: Vec<u8> = fd_of.iter().map(|&f| f as u8).collect();
    let bytes = match flavour {
        Flavour::Name => {
            let charset = if iso_adobe {
                classes.push("charset:isoadobe".to_string());
                cffw::Charset::IsoAdobe { explicit_op: rng.bool() }
            } else {
                let format = rng.below(3) as u8;
                classes.push(format!("charset:format{}", format));
                cffw::Charset::Custom { format, ids: charset_ids[1..].to_vec() }
            };
            cffw::CffFont {
                name: b"VerifC18".to_vec(),
                glyphs: glyph_bytes,
                global_subrs: global_vecs,
                kind: cffw::CffKind::NameKeyed {
                    private: cffw::Private {
                        local_subrs: local_vecs[0].clone(),
                        default_width_x: if rng.bool() { Some(rng.range(0, 1000) as i32) } else { None },
                        nominal_width_x: if rng.bool() { Some(rng.range(0, 1000) as i32) } else { None },
                        extra: Vec::new(),
                    },
                    charset,
                },
                strings: (0..n_glyphs).map(|g| format!("g{}", g).into_bytes()).collect(),
                off_size,
                with_bbox: rng.bool(),
            }
            .build()
        }
        Flavour::Cid => {
            classes.push(format!("fdselect:format{}", fdselect_format));
            classes.push(format!("cid:fds={}", n_fd));
            cffw::CffFont {
                name: b"VerifC18CID".to_vec(),
                glyphs: glyph_bytes,
                global_subrs: global_vecs,
                kind: cffw::CffKind::CidKeyed {
                    fds: local_vecs
                        .iter()
                        .map(|l| cffw::Private {
                            local_subrs: l.clone(),
                            default_width_x: if rng.bool() { Some(rng.range(0, 1000) as i32) } else { None },
                            nominal_width_x: if rng.bool() { Some(rng.range(0, 1000) as i32) } else { None },
                            extra: Vec::new(),
                        })
                        .collect(),
                    fd_select: fd_bytes,
                    fdselect_format,
                    charset_format: *rng.pick(&[0u8, 1, 2, 2]),
                },
                strings: Vec::new(),
                off_size,
                with_bbox: false,
            }
            .build()
        }
        Flavour::Cff2 => {
            let with_fdselect = n_fd > 1;
            if with_fdselect {
                classes.push(format!("fdselect:format{}", fdselect_format));
            }
            classes.push(format!("cff2:fds={}", n_fd));
            let fds: Vec<cffw::Cff2Private> = (0..n_fd)
                .map(|fd| {
                    let k = vstore.as_ref().map(|v| v.data[fd_vsindex[fd]].region_indexes.len());
                    let extra = match k {
                        Some(k) if rng.chance(3, 10) => {
                            classes.push("cff2:private-dict-blend".to_string());
                            dict_blend_blue_values(k, rng)
                        }
                        _ => Vec::new(),
                    };
                    cffw::Cff2Private { local_subrs: local_vecs[fd].clone(), vsindex: fd_vsindex_opt[fd], extra }
                })
                .collect();
            cffw::Cff2Font {
                glyphs: glyph_bytes,
                global_subrs: global_vecs,
                fds,
                fd_select: if with_fdselect { Some((fdselect_format, fd_bytes)) } else { None },
                vstore: vstore.clone(),
                off_size,
                with_font_matrix: rng.bool(),
            }
            .build()
        }
    };
    Ok(Built { flavour, bytes, slots, locals, global, vstore, tuples_raw, iso_adobe, fd_vsindex, classes })
}

// ---------------------------------------------------------------------------------------------
// Oracle
// ---------------------------------------------------------------------------------------------

fn hex_limited(b: &[u8], max: usize) -> J {
    if b.len() <= max {
        J::hex(b)
    } else {
        J::s(format!("<{} bytes, first {}: {}>", b.len(), max, J::hex(&b[..max]).to_string()))
    }
}

fn show_glyph(g: &Glyph) -> J {
    let mut cs = Vec::new();
    for c in &g.contours {
        let mut s = format!("move({}, {})", c.start[0].show(), c.start[1].show());
        for seg in c.segs.iter().take(40) {
            let v: Vec<String> = seg.vals().iter().map(|v| v.show()).collect();
            s.push_str(&format!(" {}({})", if seg.line().is_some() { "line" } else { "curve" }, v.join(" ")));
        }
        if c.segs.len() > 40 {
            s.push_str(&format!(" ... {} segments", c.segs.len()));
        }
        cs.push(J::s(s));
    }
    let mut o = vec![("contours", J::A(cs)), ("width", g.width.map_or(J::Null, J::I))];
    if let Some(h) = &g.hints {
        o.push(("hstems", J::U(h.hstems.len() as u64)));
        o.push(("vstems", J::U(h.vstems.len() as u64)));
        o.push(("masks", J::Bool(h.masks)));
    }
    if let Some(s) = &g.seac {
        o.push(("seac", J::s(format!("adx={} ady={} bchar={} achar={} base_gid={} accent_gid={}", s.adx.show(), s.ady.show(), s.bchar, s.achar, s.base, s.accent))));
    }
    J::obj(o)
}

fn collect_subrs(b: &Built, toks: &[Tok], fd: usize, out: &mut Vec<J>, seen: &mut Vec<(bool, usize)>) {
    for t in toks {
        if let Effect::Call { global, index } = &t.effect {
            if seen.contains(&(*global, *index)) || out.len() > 24 {
                continue;
            }
            seen.push((*global, *index));
            let space = if *global { &b.global } else { &b.locals[fd] };
            if let Some(body) = space.used.get(index) {
                out.push(J::obj(vec![
                    ("kind", J::s(if *global { "global" } else { "local" })),
                    ("index", J::U(*index as u64)),
                    ("count", J::U(space.count as u64)),
                    ("bias", J::I(cffw::subr_bias(space.count))),
                    ("bytes", hex_limited(&cffw::toks_bytes(body), 300)),
                ]));
                collect_subrs(b, body, fd, out, seen);
            }
        }
    }
}

/// Run `f`, turning a panic into Err(PanicInfo) (harness panics are re-raised).
fn catch<R>(f: impl FnOnce() -> R) -> Result<R, PanicInfo> {
    match std::panic::catch_unwind(std::panic::AssertUnwindSafe(f)) {
        Ok(r) => Ok(r),
        Err(payload) => {
            let p = take_last_panic().unwrap_or_default();
            if is_harness_panic(&p) {
                std::panic::resume_unwind(payload);
            }
            Err(p)
        }
    }
}

struct Failure {
    rule: &'static str,
    sig: String,
    what: String,
    expected: Vec<String>,
    observed: Vec<String>,
    panic: Option<PanicInfo>,
}

impl C18 {
    fn report(&self, cx: &mut Ctx, b: &Built, gid: usize, tuple: Option<&Vec<i16>>, f: Failure) {
        let s = &b.slots[gid];
        let mut subrs = Vec::new();
        collect_subrs(b, &s.main, s.fd, &mut subrs, &mut Vec::new());
        let mut o = vec![
            ("what", J::s(f.what)),
            ("flavour", J::s(b.flavour.name())),
            ("glyph_id", J::U(gid as u64)),
            ("fd", J::U(s.fd as u64)),
            ("charstring", hex_limited(&cffw::toks_bytes(&s.main), 600)),
            ("subrs", J::A(subrs)),
            ("glyph", s.glyph.as_ref().map_or(J::Null, show_glyph)),
            ("expected", J::A(f.expected.iter().take(60).map(|x| J::s(x.clone())).collect())),
            ("observed", J::A(f.observed.iter().take(60).map(|x| J::s(x.clone())).collect())),
            ("encoder_classes", J::A(s.enc.as_ref().map_or(Vec::new(), |e| e.classes.iter().map(|c| J::s(c.clone())).collect()))),
            ("font", hex_limited(&b.bytes, 1500)),
        ];
        if let Some(t) = tuple {
            o.push(("tuple_f2dot14", J::A(t.iter().map(|&v| J::I(v as i64)).collect())));
        }
        if let Some(v) = &b.vstore {
            o.push((
                "vstore",
                J::s(format!(
                    "regions={:?} data={:?} glyph_vsindex={} scalars={:?}",
                    v.regions.iter().map(|r| r.axes.clone()).collect::<Vec<_>>(),
                    v.data.iter().map(|d| d.region_indexes.clone()).collect::<Vec<_>>(),
                    s.glyph.as_ref().map_or(0, |g| g.vsindex),
                    s.tuples
                )),
            ));
        }
        if let Some(g) = &s.glyph {
            if let Some(sc) = &g.seac {
                for (name, p) in [("seac_base", sc.base), ("seac_accent", sc.accent)] {
                    o.push((name, J::obj(vec![
                        ("charstring", hex_limited(&cffw::toks_bytes(&b.slots[p].main), 300)),
                        ("glyph", b.slots[p].glyph.as_ref().map_or(J::Null, show_glyph)),
                    ])));
                }
            }
        }
        match f.panic {
            Some(p) => cx.panic_violation(&f.sig, &p, J::obj(o)),
            None => cx.violation(f.rule, &f.sig, J::obj(o)),
        }
    }

    fn report_panic(&self, cx: &mut Ctx, b: &Built, gid: usize, ti: usize, tuple: Option<&Vec<i16>>, what: &str, p: PanicInfo) {
        let (exp, _) = self.expected_for(b, gid, ti);
        let sig = self.sig(b, gid, ti, "panic", "");
        self.report(cx, b, gid, tuple, Failure {
            rule: "panic",
            sig: format!("{} [{}]", what, sig),
            what: format!("panic while visiting a well-formed glyph program: {}", p.message),
            expected: exp.iter().map(show_ecmd).collect(),
            observed: Vec::new(),
            panic: Some(p),
        });
    }

    /// Narrow, stable defect-class signature from the features of the failing glyph.
    fn sig(&self, b: &Built, gid: usize, ti: usize, kind: &str, tag: &str) -> String {
        let s = &b.slots[gid];
        let g = match &s.glyph {
            Some(g) => g,
            None => return format!("{}:{}", kind, tag),
        };
        if g.seac.is_some() {
            // (the component that diverged is named by `tag`: the operator form of the first
            // differing command, looked up in the component's own encoding)
            return format!("seac:{}:{}", kind, tag);
        }
        // Triage by ablation: the same flat (call free) program alone in a single Font DICT font. When
        // that passes, the failure belongs to subroutine / Font DICT selection, otherwise to the
        // operator semantics themselves.
        let flat = self.retest_flat(b, gid, ti);
        let uses_subrs = s.stats.local_calls + s.stats.global_calls > 0;
        let fd_feature = match b.flavour {
            Flavour::Cff2 => s.fd != 0 && (s.stats.local_calls > 0 || (!g.explicit_vsindex && b.fd_vsindex[s.fd] != b.fd_vsindex[0])),
            Flavour::Cid => s.fd != 0 && s.stats.local_calls > 0,
            Flavour::Name => false,
        };
        // flat passes: structural. flat fails in the same way: intrinsic to the program. flat fails in
        // another way (a second defect got in the way): structural when a structural feature is there.
        let structural = match &flat {
            Some(Ok(())) => true,
            Some(Err(k)) if k == kind => false,
            Some(Err(_)) => fd_feature || uses_subrs,
            None => false,
        };
        if structural {
            if b.flavour == Flavour::Cff2 && s.fd != 0 {
                return format!("cff2-nonzero-fd:{}", kind);
            }
            if b.flavour == Flavour::Cid && s.fd != 0 && s.stats.local_calls > 0 {
                return format!("cid-local-subr-fd:{}", kind);
            }
            if uses_subrs {
                let sp = if s.stats.local_calls > 0 { &b.locals[s.fd] } else { &b.global };
                return format!("subrs:bias-{}:{}", cffw::subr_bias(sp.count), kind);
            }
            return format!("font-structure:{}:{}", kind, tag);
        }
        if b.flavour == Flavour::Cff2 {
            if s.enc.as_ref().map_or(false, |e| e.max_args > 48) && kind != "path" {
                return format!("cff2-args>48:{}", kind);
            }
            if g.contours.is_empty() && kind == "path" {
                return "cff2-empty-glyph".to_string();
            }
        }
        let mut sig = format!("{}:{}", kind, tag);
        if kind != "path" && g.hints.as_ref().map_or(false, |h| h.masks) {
            sig.push_str(":hintmask");
        }
        sig
    }

    /// Visit the flat program of glyph `gid` as glyph 1 of a fresh single Font DICT font without
    /// subroutines and compare with the same expected path. None: not applicable.
    fn retest_flat(&self, b: &Built, gid: usize, ti: usize) -> Option<Result<(), String>> {
        let s = &b.slots[gid];
        let g = s.glyph.as_ref()?;
        if g.seac.is_some() {
            return None;
        }
        let flat = cffw::toks_bytes(&s.enc.as_ref()?.toks);
        let (exp, _) = self.expected_for(b, gid, ti);
        let mut rec = Rec::default();
        let res: Result<(), String> = if b.flavour == Flavour::Cff2 {
            let bytes = cffw::Cff2Font {
                glyphs: vec![Vec::new(), flat],
                global_subrs: Vec::new(),
                fds: vec![cffw::Cff2Private { local_subrs: None, vsindex: Some(g.vsindex as u16), extra: Vec::new() }],
                fd_select: None,
                vstore: b.vstore.clone(),
                off_size: None,
                with_font_matrix: false,
            }
            .build();
            let fvar_bytes = cffw::fvar_table(b.vstore.as_ref().map_or(0, |v| v.axis_count));
            let fvar = ReadScope::new(&fvar_bytes).read::<FvarTable<'_>>().ok()?;
            let owned = match (&b.vstore, b.tuples_raw.get(ti)) {
                (Some(_), Some(t)) => {
                    let vals: Vec<F2Dot14> = t.iter().map(|&v| F2Dot14::from_raw(v)).collect();
                    Some(fvar.owned_tuple(&vals)?)
                }
                _ => None,
            };
            catch(|| {
                let cff2 = ReadScope::new(&bytes).read::<CFF2<'_>>().map_err(|e| format!("{:?}", e))?;
                let mut o = CFF2Outlines { table: &cff2, tuple: owned.as_ref() };
                o.visit(1, &mut rec).map_err(|e| format!("{:?}", e))
            })
            .unwrap_or_else(|_| Err("panic".to_string()))
        } else {
            let bytes = cffw::CffFont {
                name: b"Flat".to_vec(),
                glyphs: vec![vec![op::ENDCHAR], flat],
                global_subrs: Vec::new(),
                kind: cffw::CffKind::NameKeyed { private: cffw::Private::default(), charset: cffw::Charset::IsoAdobe { explicit_op: false } },
                strings: Vec::new(),
                off_size: None,
                with_bbox: true,
            }
            .build();
            catch(|| {
                let mut cff = ReadScope::new(&bytes).read::<CFF<'_>>().map_err(|e| format!("{:?}", e))?;
                cff.visit(1, &mut rec).map_err(|e| format!("{:?}", e))
            })
            .unwrap_or_else(|_| Err("panic".to_string()))
        };
        // same vocabulary as the `kind` of the original failure: "panic", "err:<Variant>", "path"
        Some(match res {
            Err(e) if e == "panic" => Err(e),
            Err(e) => Err(format!("err:{}", e.split(|c: char| c == '(' || c == ' ').next().unwrap_or(""))),
            Ok(()) => compare_paths(&exp, &rec.0, g.all_integer()).map(|_| ()).map_err(|_| "path".to_string()),
        })
    }

    fn expected_for(&self, b: &Built, gid: usize, ti: usize) -> (Vec<ECmd>, Vec<(usize, Src)>) {
        let s = &b.slots[gid];
        let empty: Vec<f64> = Vec::new();
        let g = match &s.glyph {
            Some(g) => g,
            None => return (Vec::new(), Vec::new()),
        };
        if let Some(sc) = &g.seac {
            let mut cmds = Vec::new();
            let mut srcs = Vec::new();
            for (p, origin) in [(sc.base, (0.0, 0.0)), (sc.accent, (sc.adx.eval(&empty), sc.ady.eval(&empty)))] {
                if let Some(cg) = &b.slots[p].glyph {
                    let (c, s2) = expected_path(cg, &empty, origin);
                    cmds.extend(c);
                    srcs.extend(s2.into_iter().map(|x| (p, x)));
                }
            }
            return (cmds, srcs);
        }
        let sc = s.tuples.get(ti).unwrap_or(&empty);
        let (c, s2) = expected_path(g, sc, (0.0, 0.0));
        (c, s2.into_iter().map(|x| (gid, x)).collect())
    }

    fn judge(
        &self,
        cx: &mut Ctx,
        b: &Built,
        gid: usize,
        ti: usize,
        tuple: Option<&Vec<i16>>,
        result: Result<(), String>,
        obs: &[OCmd],
    ) -> bool {
        let s = &b.slots[gid];
        let g = match &s.glyph {
            Some(g) => g,
            None => return true,
        };
        let (exp, srcs) = self.expected_for(b, gid, ti);
        let exp_s: Vec<String> = exp.iter().map(show_ecmd).collect();
        let obs_s: Vec<String> = obs.iter().map(show_ocmd).collect();
        if let Err(e) = result {
            let variant = e.split(|c: char| c == '(' || c == ' ').next().unwrap_or("").to_string();
            let sig = self.sig(b, gid, ti, &format!("err:{}", variant), "");
            self.report(cx, b, gid, tuple, Failure {
                rule: "visit-error",
                sig,
                what: format!("visiting a well-formed glyph program failed: {}", e),
                expected: exp_s,
                observed: obs_s,
                panic: None,
            });
            return false;
        }
        let exact = match &g.seac {
            Some(sc) => g.all_integer() && [sc.base, sc.accent].iter().all(|&p| b.slots[p].glyph.as_ref().map_or(true, |x| x.all_integer())),
            None => g.all_integer(),
        };
        match compare_paths(&exp, obs, exact) {
            Ok(closing) => {
                if closing > 0 {
                    cx.class("explicit-closing-line");
                }
                true
            }
            Err((ei, what)) => {
                // operator form that encoded the first diverging command
                let tag = match srcs.get(ei) {
                    Some(&(p, (ci, Some(si)))) => b.slots[p].enc.as_ref().and_then(|e| e.seg_tags.get(ci)).and_then(|t| t.get(si)).copied().unwrap_or("?"),
                    Some(&(p, (ci, None))) => b.slots[p].enc.as_ref().and_then(|e| e.move_tags.get(ci)).copied().unwrap_or("?"),
                    None => "trailing",
                };
                let sig = self.sig(b, gid, ti, "path", tag);
                self.report(cx, b, gid, tuple, Failure { rule: "path-mismatch", sig, what, expected: exp_s, observed: obs_s, panic: None });
                false
            }
        }
    }

    fn run(&mut self, cx: &mut Ctx, rng: &mut Rng, dir: Option<&Directed>) {
        let b = match build_font(cx, rng, dir) {
            Ok(b) => b,
            Err(e) => {
                cx.inconclusive("generator");
                if cx.verbose {
                    eprintln!("C18 generator: {}", e);
                }
                return;
            }
        };
        self.check(cx, b);
    }

    fn check(&mut self, cx: &mut Ctx, b: Built) {
        for c in &b.classes {
            cx.class(c);
        }
        let n = b.bytes.len();
        let font_hash = hash_bytes(&b.bytes);
        if cx.mode == "dump" {
            // witness extraction: `vh case C18 --case-seed <hex> --mode dump`
            let _ = std::fs::write(format!("/tmp/c18-font-{:016x}.{}", cx.case_seed, if b.flavour == Flavour::Cff2 { "cff2" } else { "cff" }), &b.bytes);
        }
        let gids: Vec<usize> = (0..b.slots.len()).filter(|&g| b.slots[g].enc.is_some()).collect();
        let mut all_ok = true;
        let mut judged = 0u32;
        match b.flavour {
            Flavour::Name | Flavour::Cid => {
                let parsed = cx.guard("CFF::read", n, || ReadScope::new(&b.bytes).read::<CFF<'_>>());
                let mut cff = match parsed {
                    Some(Ok(c)) => c,
                    Some(Err(e)) => {
                        cx.violation(
                            "parse-error",
                            &format!("CFF::read:{}:{:?}", b.flavour.name(), e),
                            J::obj(vec![("error", J::s(format!("{:?}", e))), ("font", hex_limited(&b.bytes, 3000))]),
                        );
                        return;
                    }
                    None => return,
                };
                for &gid in &gids {
                    let mut rec = Rec::default();
                    let r = match catch(|| cff.visit(gid as u16, &mut rec)) {
                        Ok(r) => r.map_err(|e| format!("{:?}", e)),
                        Err(p) => {
                            self.report_panic(cx, &b, gid, 0, None, "CFF::visit", p);
                            all_ok = false;
                            continue;
                        }
                    };
                    all_ok &= self.judge(cx, &b, gid, 0, None, r, &rec.0);
                    judged += 1;
                }
            }
            Flavour::Cff2 => {
                let parsed = cx.guard("CFF2::read", n, || ReadScope::new(&b.bytes).read::<CFF2<'_>>());
                let cff2 = match parsed {
                    Some(Ok(c)) => c,
                    Some(Err(e)) => {
                        cx.violation(
                            "parse-error",
                            &format!("CFF2::read:{:?}", e),
                            J::obj(vec![("error", J::s(format!("{:?}", e))), ("font", hex_limited(&b.bytes, 3000))]),
                        );
                        return;
                    }
                    None => return,
                };
                let fvar_bytes = cffw::fvar_table(b.vstore.as_ref().map_or(0, |v| v.axis_count));
                let fvar = match ReadScope::new(&fvar_bytes).read::<FvarTable<'_>>() {
                    Ok(f) => f,
                    Err(_) => {
                        cx.inconclusive("fvar");
                        return;
                    }
                };
                let n_t = if b.vstore.is_some() { b.tuples_raw.len() } else { 1 };
                for ti in 0..n_t {
                    let traw = if b.vstore.is_some() { Some(&b.tuples_raw[ti]) } else { None };
                    let owned = match traw {
                        Some(t) => {
                            let vals: Vec<F2Dot14> = t.iter().map(|&v| F2Dot14::from_raw(v)).collect();
                            match fvar.owned_tuple(&vals) {
                                Some(o) => Some(o),
                                None => {
                                    cx.inconclusive("owned-tuple");
                                    return;
                                }
                            }
                        }
                        None => None,
                    };
                    if traw.is_some() {
                        cx.class("cff2:tuple");
                    } else {
                        cx.class("cff2:no-tuple");
                    }
                    for &gid in &gids {
                        let mut rec = Rec::default();
                        let r = catch(|| {
                            let mut o = CFF2Outlines { table: &cff2, tuple: owned.as_ref() };
                            o.visit(gid as u16, &mut rec)
                        });
                        let r = match r {
                            Ok(r) => r.map_err(|e| format!("{:?}", e)),
                            Err(p) => {
                                self.report_panic(cx, &b, gid, ti, traw, "CFF2Outlines::visit", p);
                                all_ok = false;
                                continue;
                            }
                        };
                        all_ok &= self.judge(cx, &b, gid, ti, traw, r, &rec.0);
                        judged += 1;
                    }
                }
            }
        }
        // non-vacuity
        for &gid in &gids {
            let s = &b.slots[gid];
            if let Some(e) = &s.enc {
                for c in &e.classes {
                    cx.class(c);
                }
            }
            cx.class("programs");
            if s.stats.local_calls > 0 {
                cx.class("subr:local");
                cx.class(&format!("bias:{}", cffw::subr_bias(b.locals[s.fd].count)));
            }
            if s.stats.global_calls > 0 {
                cx.class("subr:global");
                cx.class(&format!("bias:{}", cffw::subr_bias(b.global.count)));
            }
            if s.stats.max_depth > 0 {
                cx.class(&format!("depth:{}", s.stats.max_depth));
            }
            if s.stats.endchar_in_subr {
                cx.class("endchar-in-subr");
            }
            for e in &s.stats.operand_encs {
                cx.class(&format!("subr-operand:{}", e.name()));
            }
            for sp in [&b.locals[s.fd], &b.global] {
                if s.stats.local_calls + s.stats.global_calls > 0 && matches!(sp.count, 1239 | 1240 | 33899 | 33900) {
                    cx.class(&format!("subr-count:{}", sp.count));
                }
            }
            if let Some(g) = &s.glyph {
                if g.n_segs() > 0 || g.seac.is_some() {
                    cx.nontrivial(mix(font_hash, gid as u64));
                }
                if s.fd > 0 && s.stats.local_calls > 0 {
                    cx.class(if b.flavour == Flavour::Cff2 { "cff2:local-subr-in-fd>0" } else { "cid:local-subr-in-fd>0" });
                }
                if !g.all_integer() {
                    cx.class("values:non-integer");
                }
                if let Some(sc) = &g.seac {
                    cx.class(if b.iso_adobe { "seac:isoadobe-charset" } else { "seac:custom-charset" });
                    if sc.bchar > 228 || sc.achar > 228 {
                        cx.class("seac:code>228");
                    }
                    if sc.base == sc.accent {
                        cx.class("seac:accent-is-base");
                    }
                    let comp = |p: usize| b.slots[p].glyph.as_ref();
                    let stems = |p: usize| comp(p).and_then(|g| g.hints.as_ref()).map_or(0, |h| h.hstems.len() + h.vstems.len());
                    let masks = |p: usize| comp(p).and_then(|g| g.hints.as_ref()).map_or(false, |h| h.masks);
                    if comp(sc.base).map_or(false, |g| g.width.is_some()) {
                        cx.class("seac:base-with-width");
                    }
                    if comp(sc.accent).map_or(false, |g| g.width.is_some()) {
                        cx.class("seac:accent-with-width");
                    }
                    if stems(sc.base) > 0 && masks(sc.accent) && (stems(sc.base) + stems(sc.accent) + 7) / 8 != (stems(sc.accent) + 7) / 8 {
                        cx.class("seac:accent-hintmask-after-base-stems");
                    }
                    if [sc.base, sc.accent].iter().any(|&p| b.slots[p].stats.local_calls + b.slots[p].stats.global_calls > 0) {
                        cx.class("seac:component-with-subrs");
                    }
                }
                if b.flavour == Flavour::Cff2 {
                    if g.contours.is_empty() {
                        cx.class("cff2:empty-glyph");
                    }
                    if s.fd > 0 {
                        cx.class("cff2:glyph-in-fd>0");
                    }
                    let blended = s.enc.as_ref().map_or(false, |e| e.classes.iter().any(|c| c == "blend"));
                    let has_deltas = g.contours.iter().any(|c| c.start.iter().any(|v| v.has_deltas()) || c.segs.iter().any(|sg| sg.vals().iter().any(|v| v.has_deltas())));
                    if blended && b.vstore.is_some() {
                        if !g.explicit_vsindex {
                            cx.class("blend:vsindex-from-private-dict");
                            if b.fd_vsindex[s.fd] != 0 {
                                cx.class("blend:vsindex-from-private-dict-nonzero");
                            }
                            if s.fd > 0 && b.fd_vsindex[s.fd] != b.fd_vsindex[0] {
                                cx.class("blend:vsindex-of-fd>0-differs-from-fd0");
                            }
                        } else if g.vsindex != b.fd_vsindex[s.fd] {
                            cx.class("blend:vsindex-operator-overrides-private-dict");
                        }
                    }
                    if blended && has_deltas {
                        for sc in &s.tuples {
                            if sc.iter().any(|&x| x > 0.0 && x < 1.0) {
                                cx.class("blend:scalar-fractional");
                            }
                            if sc.iter().any(|&x| x == 0.0) {
                                cx.class("blend:scalar-zero");
                            }
                            if sc.iter().any(|&x| x == 1.0) {
                                cx.class("blend:scalar-one");
                            }
                            if sc.len() >= 2 && sc.iter().any(|&x| x != sc[0]) {
                                cx.class("blend:regions-with-distinct-scalars");
                            }
                        }
                    }
                }
            }
        }
        if all_ok && judged > 0 {
            cx.class("fonts-all-glyphs-ok");
        }
        if cx.want_sample() && all_ok {
            if let Some(&gid) = gids.iter().find(|&&g| b.slots[g].glyph.as_ref().map_or(false, |x| x.n_segs() > 2)) {
                let s = &b.slots[gid];
                let (exp, _) = self.expected_for(&b, gid, 0);
                cx.sample(J::obj(vec![
                    ("flavour", J::s(b.flavour.name())),
                    ("glyph_id", J::U(gid as u64)),
                    ("charstring", hex_limited(&cffw::toks_bytes(&s.main), 200)),
                    ("classes", J::A(s.enc.as_ref().map_or(Vec::new(), |e| e.classes.iter().map(|c| J::s(c.clone())).collect()))),
                    ("local_calls", J::U(s.stats.local_calls as u64)),
                    ("global_calls", J::U(s.stats.global_calls as u64)),
                    ("expected", J::A(exp.iter().take(12).map(|c| J::s(show_ecmd(c))).collect())),
                ]));
            }
        }
    }
}

// ---------------------------------------------------------------------------------------------
// Hand written minimal programs (replayed by `exhaustive` on every run): one per operator form with
// the expected path taken from TN 5177, plus the minimal witnesses of the defects found so far.
// ---------------------------------------------------------------------------------------------

fn ti(v: i64) -> Tok {
    Tok::int(v, cffw::int_encodings(v)[0]).unwrap_or_else(|| Tok::fixed(0))
}
fn to(o: u8) -> Tok {
    Tok::op(o)
}
fn ints(vs: &[i64], o: Tok) -> Vec<Tok> {
    let mut t: Vec<Tok> = vs.iter().map(|&v| ti(v)).collect();
    t.push(o);
    t
}
fn ln(dx: i64, dy: i64) -> Seg {
    Seg::Line([Val::int(dx), Val::int(dy)])
}
fn cv(v: [i64; 6]) -> Seg {
    Seg::Curve([Val::int(v[0]), Val::int(v[1]), Val::int(v[2]), Val::int(v[3]), Val::int(v[4]), Val::int(v[5])])
}
fn contour(x: i64, y: i64, segs: Vec<Seg>) -> Contour {
    Contour { start: [Val::int(x), Val::int(y)], segs }
}

struct WGlyph {
    glyph: Glyph,
    toks: Vec<Tok>,
    fd: usize,
    tag: &'static str,
    classes: Vec<&'static str>,
    local_calls: u32,
    /// call free equivalent of `toks` (None: `toks` is already flat)
    flat: Option<Vec<Tok>>,
}

impl WGlyph {
    fn new(glyph: Glyph, toks: Vec<Tok>, tag: &'static str) -> WGlyph {
        WGlyph { glyph, toks, fd: 0, tag, classes: Vec::new(), local_calls: 0, flat: None }
    }
}

/// Serialise hand written glyphs; unnamed positions are filled with empty glyphs.
fn mk_built(flavour: Flavour, n_glyphs: usize, at: Vec<(usize, WGlyph)>, locals: Vec<SubrSpace>, global: SubrSpace, iso_adobe: bool) -> Built {
    let cff2 = flavour == Flavour::Cff2;
    let n_fd = locals.len().max(1);
    let mut slots: Vec<Slot> = (0..n_glyphs)
        .map(|_| Slot { glyph: None, fd: 0, enc: None, main: Vec::new(), stats: Default::default(), tuples: vec![Vec::new()], k: None })
        .collect();
    for (pos, w) in at {
        let s = &mut slots[pos];
        let nc = w.glyph.contours.len();
        s.enc = Some(Encoded {
            toks: w.flat.clone().unwrap_or_else(|| w.toks.clone()),
            classes: w.classes.iter().map(|c| c.to_string()).collect(),
            seg_tags: w.glyph.contours.iter().map(|c| vec![w.tag; c.segs.len()]).collect(),
            move_tags: vec!["moveto"; nc],
            max_args: 0,
        });
        s.main = w.toks;
        s.fd = w.fd;
        s.stats.local_calls = w.local_calls;
        s.glyph = Some(w.glyph);
    }
    let glyph_bytes: Vec<Vec<u8>> =
        slots.iter().map(|s| if s.enc.is_some() { cffw::toks_bytes(&s.main) } else if cff2 { Vec::new() } else { vec![op::ENDCHAR] }).collect();
    let filler = |_: usize| -> Vec<u8> { if cff2 { Vec::new() } else { vec![op::RETURN] } };
    let global_vecs = global.to_vecs(&filler);
    let local_vecs: Vec<Option<Vec<Vec<u8>>>> = locals.iter().map(|l| if l.count == 0 { None } else { Some(l.to_vecs(&filler)) }).collect();
    let fd_bytes: Vec<u8> = slots.iter().map(|s| s.fd as u8).collect();
    let private = |i: usize| cffw::Private { local_subrs: local_vecs.get(i).cloned().flatten(), default_width_x: Some(500), nominal_width_x: Some(600), extra: Vec::new() };
    let bytes = match flavour {
        Flavour::Name => cffw::CffFont {
            name: b"VerifC18W".to_vec(),
            glyphs: glyph_bytes,
            global_subrs: global_vecs,
            kind: cffw::CffKind::NameKeyed {
                private: private(0),
                charset: if iso_adobe {
                    cffw::Charset::IsoAdobe { explicit_op: false }
                } else {
                    cffw::Charset::Custom { format: 0, ids: (1..n_glyphs as u16).map(|g| cffw::N_STD_STRINGS + g).collect() }
                },
            },
            strings: (0..n_glyphs).map(|g| format!("g{}", g).into_bytes()).collect(),
            off_size: None,
            with_bbox: true,
        }
        .build(),
        Flavour::Cid => cffw::CffFont {
            name: b"VerifC18W".to_vec(),
            glyphs: glyph_bytes,
            global_subrs: global_vecs,
            kind: cffw::CffKind::CidKeyed { fds: (0..n_fd).map(private).collect(), fd_select: fd_bytes, fdselect_format: 3, charset_format: 2 },
            strings: Vec::new(),
            off_size: None,
            with_bbox: false,
        }
        .build(),
        Flavour::Cff2 => cffw::Cff2Font {
            glyphs: glyph_bytes,
            global_subrs: global_vecs,
            fds: (0..n_fd).map(|i| cffw::Cff2Private { local_subrs: local_vecs.get(i).cloned().flatten(), vsindex: None, extra: Vec::new() }).collect(),
            fd_select: if n_fd > 1 { Some((0, fd_bytes)) } else { None },
            vstore: None,
            off_size: None,
            with_font_matrix: false,
        }
        .build(),
    };
    let locals = if locals.is_empty() { vec![SubrSpace::empty()] } else { locals };
    Built {
        flavour,
        bytes,
        slots,
        fd_vsindex: vec![0; locals.len()],
        locals,
        global,
        vstore: None,
        tuples_raw: Vec::new(),
        iso_adobe,
        classes: vec![format!("flavour:{}", flavour.name()), "handwritten".to_string()],
    }
}

fn handwritten() -> Vec<(&'static str, Built)> {
    let mut out: Vec<(&'static str, Built)> = Vec::new();
    let mv = |x: i64, y: i64| ints(&[x, y], to(op::RMOVETO));
    let simple = |segs: Vec<Seg>, body: Vec<Tok>, tag: &'static str, flavour: Flavour| -> Built {
        let mut toks = mv(10, 20);
        toks.extend(body);
        if flavour != Flavour::Cff2 {
            toks.push(to(op::ENDCHAR));
        }
        let g = Glyph { contours: vec![contour(10, 20, segs)], ..Default::default() };
        mk_built(flavour, 2, vec![(1, WGlyph::new(g, toks, tag))], Vec::new(), SubrSpace::empty(), false)
    };
    // operator forms, arguments as in TN 5177 section 4.1 / 4.2 (1.. = distinct small primes for traceability)
    let forms: Vec<(&'static str, Vec<Seg>, Vec<Tok>)> = vec![
        ("rlineto", vec![ln(1, 2), ln(3, 5)], ints(&[1, 2, 3, 5], to(op::RLINETO))),
        ("hlineto", vec![ln(1, 0), ln(0, 2), ln(3, 0)], ints(&[1, 2, 3], to(op::HLINETO))),
        ("vlineto", vec![ln(0, 1), ln(2, 0), ln(0, 3), ln(5, 0)], ints(&[1, 2, 3, 5], to(op::VLINETO))),
        ("rrcurveto", vec![cv([1, 2, 3, 5, 7, 11]), cv([13, 17, 19, 23, 29, 31])], ints(&[1, 2, 3, 5, 7, 11, 13, 17, 19, 23, 29, 31], to(op::RRCURVETO))),
        ("hhcurveto+dy1", vec![cv([2, 1, 3, 5, 7, 0]), cv([11, 0, 13, 17, 19, 0])], ints(&[1, 2, 3, 5, 7, 11, 13, 17, 19], to(op::HHCURVETO))),
        ("vvcurveto+dx1", vec![cv([1, 2, 3, 5, 0, 7]), cv([0, 11, 13, 17, 0, 19])], ints(&[1, 2, 3, 5, 7, 11, 13, 17, 19], to(op::VVCURVETO))),
        ("hvcurveto+tail", vec![cv([1, 0, 2, 3, 7, 5])], ints(&[1, 2, 3, 5, 7], to(op::HVCURVETO))),
        ("vhcurveto+tail", vec![cv([0, 1, 2, 3, 5, 7])], ints(&[1, 2, 3, 5, 7], to(op::VHCURVETO))),
        (
            "hvcurveto+chain",
            vec![cv([1, 0, 2, 3, 0, 5]), cv([0, 7, 11, 13, 17, 0]), cv([19, 0, 23, 29, 37, 31])],
            ints(&[1, 2, 3, 5, 7, 11, 13, 17, 19, 23, 29, 31, 37], to(op::HVCURVETO)),
        ),
        (
            "vhcurveto+chain",
            vec![cv([0, 1, 2, 3, 5, 0]), cv([7, 0, 11, 13, 19, 17])],
            ints(&[1, 2, 3, 5, 7, 11, 13, 17, 19], to(op::VHCURVETO)),
        ),
        ("rcurveline", vec![cv([1, 2, 3, 5, 7, 11]), ln(13, 17)], ints(&[1, 2, 3, 5, 7, 11, 13, 17], to(op::RCURVELINE))),
        ("rlinecurve", vec![ln(1, 2), ln(3, 5), cv([7, 11, 13, 17, 19, 23])], ints(&[1, 2, 3, 5, 7, 11, 13, 17, 19, 23], to(op::RLINECURVE))),
        (
            "flex",
            vec![cv([1, 2, 3, 5, 7, 11]), cv([13, 17, 19, 23, 29, 31])],
            ints(&[1, 2, 3, 5, 7, 11, 13, 17, 19, 23, 29, 31, 50], Tok::op2(op::FLEX)),
        ),
        ("hflex", vec![cv([1, 0, 2, 3, 5, 0]), cv([7, 0, 11, -3, 13, 0])], ints(&[1, 2, 3, 5, 7, 11, 13], Tok::op2(op::HFLEX))),
        ("hflex1", vec![cv([1, 2, 3, 5, 7, 0]), cv([11, 0, 13, 17, 19, -24])], ints(&[1, 2, 3, 5, 7, 11, 13, 17, 19], Tok::op2(op::HFLEX1))),
        // |dx| = 1+3+7+13+19 = 43 > |dy| = 2+5+11+17+23 = 58 ? no -> last argument is dy6, dx6 = -43
        ("flex1:dy", vec![cv([1, 2, 3, 5, 7, 11]), cv([13, 17, 19, 23, -43, 29])], ints(&[1, 2, 3, 5, 7, 11, 13, 17, 19, 23, 29], Tok::op2(op::FLEX1))),
        // |dx| = 10+30+70+13+19 = 142 > |dy| = 58 -> last argument is dx6, dy6 = -58
        ("flex1:dx", vec![cv([10, 2, 30, 5, 70, 11]), cv([13, 17, 19, 23, 29, -58])], ints(&[10, 2, 30, 5, 70, 11, 13, 17, 19, 23, 29], Tok::op2(op::FLEX1))),
    ];
    for (tag, segs, toks) in forms {
        out.push((tag, simple(segs.clone(), toks.clone(), tag, Flavour::Name)));
        out.push((tag, simple(segs, toks, tag, Flavour::Cff2)));
    }

    // --- minimal witnesses of the candidate defects -------------------------------------------
    let base_a = || Glyph { contours: vec![contour(10, 20, vec![ln(30, 40)])], ..Default::default() };
    let acute = || Glyph { contours: vec![contour(5, 5, vec![ln(1, 2)])], ..Default::default() };
    let base_toks = || [mv(10, 20), ints(&[30, 40], to(op::RLINETO)), vec![to(op::ENDCHAR)]].concat();
    let acute_toks = || [mv(5, 5), ints(&[1, 2], to(op::RLINETO)), vec![to(op::ENDCHAR)]].concat();
    let seac = |b: u8, a: u8, width: Option<i64>| Glyph {
        seac: Some(Seac {
            adx: Val::int(100),
            ady: Val::int(200),
            bchar: b,
            achar: a,
            base: cffw::standard_encoding_sid(b) as usize,
            accent: cffw::standard_encoding_sid(a) as usize,
        }),
        width,
        ..Default::default()
    };
    // W1: seac (endchar with four operands) without a width: 100 200 65 194 endchar
    out.push((
        "witness:seac-without-width",
        mk_built(
            Flavour::Name,
            150,
            vec![
                (1, WGlyph::new(seac(65, 194, None), ints(&[100, 200, 65, 194], to(op::ENDCHAR)), "seac")),
                (34, WGlyph::new(base_a(), base_toks(), "rlineto")),
                (125, WGlyph::new(acute(), acute_toks(), "rlineto")),
            ],
            Vec::new(),
            SubrSpace::empty(),
            true,
        ),
    ));
    // W2: base character code 245 (dotlessi, SID 145) in a font with the ISOAdobe charset
    out.push((
        "witness:seac-isoadobe-dotlessi",
        mk_built(
            Flavour::Name,
            150,
            vec![
                (1, WGlyph::new(seac(245, 194, Some(50)), ints(&[50, 100, 200, 245, 194], to(op::ENDCHAR)), "seac")),
                (145, WGlyph::new(base_a(), base_toks(), "rlineto")),
                (125, WGlyph::new(acute(), acute_toks(), "rlineto")),
            ],
            Vec::new(),
            SubrSpace::empty(),
            true,
        ),
    ));
    // W3: composite with width, base glyph with its own width on rmoveto
    {
        let mut bg = base_a();
        bg.width = Some(30);
        let mut bw = WGlyph::new(bg, [ints(&[30, 10, 20], to(op::RMOVETO)), ints(&[30, 40], to(op::RLINETO)), vec![to(op::ENDCHAR)]].concat(), "rlineto");
        bw.classes = vec!["width-prefix:rmoveto"];
        out.push((
            "witness:seac-component-width",
            mk_built(
                Flavour::Name,
                150,
                vec![
                    (1, WGlyph::new(seac(65, 194, Some(50)), ints(&[50, 100, 200, 65, 194], to(op::ENDCHAR)), "seac")),
                    (34, bw),
                    (125, WGlyph::new(acute(), acute_toks(), "rlineto")),
                ],
                Vec::new(),
                SubrSpace::empty(),
                true,
            ),
        ));
    }
    // W4: base glyph declares 8 stems, accent declares 1 stem and uses a one byte hintmask
    {
        let stem = |v: i64| [Val::int(v), Val::int(v + 1)];
        let mut bg = base_a();
        bg.hints = Some(Hints { hstems: (0..8).map(|i| stem(i)).collect(), vstems: Vec::new(), masks: false });
        let mut bt: Vec<Tok> = Vec::new();
        for i in 0..8 {
            bt.push(ti(i));
            bt.push(ti(i + 1));
        }
        bt.push(to(op::HSTEM));
        bt.extend(base_toks());
        let mut ag = acute();
        ag.hints = Some(Hints { hstems: vec![stem(1)], vstems: Vec::new(), masks: true });
        let mut at: Vec<Tok> = ints(&[1, 2], to(op::HSTEMHM));
        at.push(Tok::mask(op::HINTMASK, &[0x80]));
        at.extend(acute_toks());
        out.push((
            "witness:seac-component-hintmask",
            mk_built(
                Flavour::Name,
                150,
                vec![
                    (1, WGlyph::new(seac(65, 194, Some(50)), ints(&[50, 100, 200, 65, 194], to(op::ENDCHAR)), "seac")),
                    (34, WGlyph::new(bg, bt, "rlineto")),
                    (125, WGlyph::new(ag, at, "rlineto")),
                ],
                Vec::new(),
                SubrSpace::empty(),
                true,
            ),
        ));
    }
    // W5: CFF2 hvcurveto with 52 operands (13 curves; the CFF2 stack limit is 513)
    {
        let mut segs = Vec::new();
        let mut args: Vec<i64> = Vec::new();
        for j in 0..13i64 {
            if j % 2 == 0 {
                segs.push(cv([1 + j, 0, 2, 3, 0, 4]));
                args.extend_from_slice(&[1 + j, 2, 3, 4]);
            } else {
                segs.push(cv([0, 1 + j, 2, 3, 4, 0]));
                args.extend_from_slice(&[1 + j, 2, 3, 4]);
            }
        }
        out.push(("witness:cff2-hvcurveto-52-operands", simple(segs, ints(&args, to(op::HVCURVETO)), "hvcurveto", Flavour::Cff2)));
    }
    // W6: CFF2 with two Font DICTs; glyph 1 belongs to Font DICT 1 and calls its local subroutine 0
    {
        let mut l0 = SubrSpace::with_candidates(1, vec![0]);
        l0.alloc(ints(&[7, 7], to(op::RLINETO)));
        let mut l1 = SubrSpace::with_candidates(1, vec![0]);
        l1.alloc(ints(&[30, 40], to(op::RLINETO)));
        let (call, _) = cffw::call_tok(0, 1, false, &mut Rng::new(1)).unwrap_or_else(|| unreachable!());
        let mut w = WGlyph::new(base_a(), [mv(10, 20), vec![call]].concat(), "rlineto");
        w.fd = 1;
        w.local_calls = 1;
        w.flat = Some([mv(10, 20), ints(&[30, 40], to(op::RLINETO))].concat());
        out.push(("witness:cff2-local-subr-of-fd1", mk_built(Flavour::Cff2, 2, vec![(1, w)], vec![l0, l1], SubrSpace::empty(), false)));
    }
    // W7: CFF2 glyph without any outline (empty charstring)
    out.push((
        "witness:cff2-empty-glyph",
        mk_built(Flavour::Cff2, 2, vec![(1, WGlyph::new(Glyph::default(), Vec::new(), "none"))], Vec::new(), SubrSpace::empty(), false),
    ));
    // control: CID font, glyph of Font DICT 1 calling its own local subroutine 0
    {
        let mut l0 = SubrSpace::with_candidates(1, vec![0]);
        l0.alloc([ints(&[7, 7], to(op::RLINETO)), vec![to(op::RETURN)]].concat());
        let mut l1 = SubrSpace::with_candidates(1, vec![0]);
        l1.alloc([ints(&[30, 40], to(op::RLINETO)), vec![to(op::RETURN)]].concat());
        let (call, _) = cffw::call_tok(0, 1, false, &mut Rng::new(1)).unwrap_or_else(|| unreachable!());
        let mut w = WGlyph::new(base_a(), [mv(10, 20), vec![call, to(op::ENDCHAR)]].concat(), "rlineto");
        w.fd = 1;
        w.local_calls = 1;
        w.flat = Some([mv(10, 20), ints(&[30, 40], to(op::RLINETO)), vec![to(op::ENDCHAR)]].concat());
        out.push(("control:cid-local-subr-of-fd1", mk_built(Flavour::Cid, 2, vec![(1, w)], vec![l0, l1], SubrSpace::empty(), false)));
    }
    out
}

impl Prop for C18 {
    fn case(&mut self, cx: &mut Ctx, rng: &mut Rng) {
        self.run(cx, rng, None);
    }

    fn exhaustive(&mut self, cx: &mut Ctx, shard: u64, of: u64) {
        // subroutine bias boundaries: INDEX sizes straddling 1239/1240 and 33899/33900, first / last
        // slot and the slots whose biased number is 0, for local and global subroutines
        if !cffw::selftest() {
            cx.inconclusive("writer-selftest");
            return;
        }
        let mut cases: Vec<Directed> = Vec::new();
        for flavour in [Flavour::Name, Flavour::Cid, Flavour::Cff2] {
            for count in [1usize, 1239, 1240, 33899, 33900, 65535] {
                let bias = cffw::subr_bias(count) as usize;
                let mut slots = vec![0, count - 1];
                if bias < count {
                    slots.push(bias);
                }
                for slot in slots {
                    cases.push(Directed { flavour: Some(flavour), local: Some((count, slot)), global: None });
                    cases.push(Directed { flavour: Some(flavour), local: None, global: Some((count, slot)) });
                }
            }
            cases.push(Directed { flavour: Some(flavour), local: Some((1240, 5)), global: Some((1239, 1238)) });
        }
        for (i, d) in cases.iter().enumerate() {
            if i as u64 % of != shard {
                continue;
            }
            cx.case_seed = 0xC18_0000 + i as u64;
            cx.evals += 1;
            let mut rng = Rng::new(cx.case_seed);
            cx.class("directed-bias-case");
            self.run(cx, &mut rng, Some(d));
        }
        let base = cases.len();
        for (i, (name, b)) in handwritten().into_iter().enumerate() {
            if (base + i) as u64 % of != shard {
                continue;
            }
            cx.case_seed = 0xC18_0000 + (base + i) as u64;
            cx.evals += 1;
            cx.class(&format!("handwritten:{}", name));
            self.check(cx, b);
        }
    }
}
