//! C16 — (stub, under construction)

use super::Prop;
use crate::rt::*;

pub struct C16 {}

impl C16 {
    pub fn new(_cx: &mut Ctx) -> C16 {
        C16 {}
    }
}

impl Prop for C16 {
    fn case(&mut self, cx: &mut Ctx, _rng: &mut Rng) {
        cx.inconclusive("not-implemented");
    }
}
