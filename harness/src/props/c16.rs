//! C16 — TrueType outlines are decoded with correct contour and composite semantics.

use super::Prop;
use crate::rt::*;
use crate::sfnt::glyf::{self as ig, Args, Component, Composite, EncChoice, Glyph, Scale, Seg, SubPath};
use allsorts::binary::read::ReadScope;
use allsorts::outline::{OutlineBuilder, OutlineSink};
use allsorts::pathfinder_geometry::line_segment::LineSegment2F;
use allsorts::pathfinder_geometry::vector::Vector2F;
use allsorts::tables::glyf::GlyfTable;
use allsorts::tables::loca::LocaTable;
use allsorts::tables::IndexToLocFormat;

pub struct C16 {}

impl C16 {
    pub fn new(_cx: &mut Ctx) -> C16 {
        C16 {}
    }
}

#[derive(Clone, Debug, PartialEq)]
pub enum Cmd {
    Move(f64, f64),
    Line(f64, f64),
    Quad(f64, f64, f64, f64),
    Cubic(f64, f64, f64, f64, f64, f64),
    Close,
}

#[derive(Default)]
pub struct RecSink {
    pub cmds: Vec<Cmd>,
}
impl OutlineSink for RecSink {
    fn move_to(&mut self, to: Vector2F) {
        self.cmds.push(Cmd::Move(to.x() as f64, to.y() as f64));
    }
    fn line_to(&mut self, to: Vector2F) {
        self.cmds.push(Cmd::Line(to.x() as f64, to.y() as f64));
    }
    fn quadratic_curve_to(&mut self, c: Vector2F, to: Vector2F) {
        self.cmds.push(Cmd::Quad(c.x() as f64, c.y() as f64, to.x() as f64, to.y() as f64));
    }
    fn cubic_curve_to(&mut self, c: LineSegment2F, to: Vector2F) {
        self.cmds.push(Cmd::Cubic(c.from_x() as f64, c.from_y() as f64, c.to_x() as f64, c.to_y() as f64, to.x() as f64, to.y() as f64));
    }
    fn close(&mut self) {
        self.cmds.push(Cmd::Close);
    }
}

/// Split recorded commands into closed sub-paths. Err(reason) when the command stream is not a
/// sequence of `move_to ... close` groups.
pub fn subpaths(cmds: &[Cmd]) -> Result<Vec<SubPath>, String> {
    let mut out = Vec::new();
    let mut cur: Option<SubPath> = None;
    for (i, c) in cmds.iter().enumerate() {
        match c {
            Cmd::Move(x, y) => {
                if cur.is_some() {
                    return Err(format!("move_to at command {} inside an open sub-path", i));
                }
                cur = Some(SubPath { start: (*x, *y), segs: Vec::new() });
            }
            Cmd::Close => match cur.take() {
                Some(p) => out.push(p),
                None => return Err(format!("close at command {} without move_to", i)),
            },
            other => {
                let p = match cur.as_mut() {
                    Some(p) => p,
                    None => return Err(format!("drawing command {} outside a sub-path", i)),
                };
                p.segs.push(match *other {
                    Cmd::Line(x, y) => Seg::Line { to: (x, y) },
                    Cmd::Quad(cx, cy, x, y) => Seg::Quad { ctrl: (cx, cy), to: (x, y) },
                    Cmd::Cubic(a, b, c, d, x, y) => Seg::Cubic { c1: (a, b), c2: (c, d), to: (x, y) },
                    _ => unreachable!(),
                });
            }
        }
    }
    if cur.is_some() {
        return Err("last sub-path not closed".to_string());
    }
    Ok(out)
}

pub fn cmds_json(cmds: &[Cmd]) -> J {
    J::A(cmds.iter().take(60).map(|c| J::s(format!("{:?}", c))).collect())
}

/// Expected sub-paths of glyph `gid` per the TrueType semantics; None = outside the judged core
/// (point-matching args, scaled component offsets, both offset flags).
fn expected(glyphs: &[Glyph], gid: usize, depth: usize, ambiguous: &mut Option<&'static str>, bound: &mut f64) -> Option<Vec<SubPath>> {
    if depth > 12 {
        return None;
    }
    match &glyphs[gid] {
        Glyph::Empty => Some(Vec::new()),
        Glyph::Simple(s) => {
            let v: Vec<SubPath> = s.contours.iter().filter_map(|c| ig::contour_path(c)).collect();
            for p in &v {
                *bound = bound.max(ig::max_abs(p));
            }
            Some(v)
        }
        Glyph::Composite(c) => {
            let mut out = Vec::new();
            for comp in &c.components {
                let child = expected(glyphs, comp.gid as usize, depth + 1, ambiguous, bound)?;
                let (dx, dy) = match comp.args {
                    Args::XY(x, y) => (x as f64, y as f64),
                    Args::Points(..) => {
                        *ambiguous = Some("point-matching-args");
                        return None;
                    }
                };
                let m = ig::scale_matrix(comp.scale);
                let scaled = comp.extra_flags & 0x800 != 0;
                let unscaled = comp.extra_flags & 0x1000 != 0;
                if scaled && comp.scale != Scale::None {
                    // engines disagree on how a scaled offset is computed: not judged
                    *ambiguous = Some(if unscaled { "both-offset-flags" } else { "scaled-component-offset" });
                    return None;
                }
                // magnitude of the intermediate products (for the f32 cancellation allowance)
                let mnorm = m.0.abs() + m.1.abs() + m.2.abs() + m.3.abs();
                for p in child {
                    *bound = bound.max(ig::max_abs(&p) * mnorm.max(1.0) + dx.abs() + dy.abs());
                    let t = ig::transform_path(&p, m, (dx, dy));
                    *bound = bound.max(ig::max_abs(&t));
                    out.push(t);
                }
            }
            Some(out)
        }
    }
}

fn nesting(glyphs: &[Glyph], gid: usize, seen: &mut Vec<usize>) -> usize {
    match &glyphs[gid] {
        Glyph::Composite(c) => {
            if seen.contains(&gid) {
                return 99;
            }
            seen.push(gid);
            let d = c.components.iter().map(|k| nesting(glyphs, k.gid as usize, seen)).max().unwrap_or(0);
            seen.pop();
            1 + d
        }
        _ => 0,
    }
}

fn gen_scale(rng: &mut Rng) -> Scale {
    let v = |rng: &mut Rng| -> i16 {
        match rng.below(6) {
            0 => 16384,
            1 => -16384,
            2 => 8192,
            3 => 0,
            4 => *rng.pick(&[i16::MAX, i16::MIN, 1, -1]),
            _ => rng.range(-32768, 32767) as i16,
        }
    };
    match rng.below(5) {
        0 | 1 => Scale::None,
        2 => Scale::Uniform(v(rng)),
        3 => Scale::XY(v(rng), v(rng)),
        _ => Scale::Matrix(v(rng), v(rng), v(rng), v(rng)),
    }
}

impl Prop for C16 {
    fn case(&mut self, cx: &mut Ctx, rng: &mut Rng) {
        // glyph set: simple glyphs first, then composites that refer to lower or (rarely) any ids
        let nsimple = 1 + rng.below(6);
        let ncomp = rng.below(8);
        let range = *rng.pick(&[300i32, 2000, 16000, 32767]);
        let mut glyphs: Vec<Glyph> = Vec::new();
        for _ in 0..nsimple {
            if rng.chance(1, 10) {
                glyphs.push(Glyph::Empty);
            } else {
                glyphs.push(Glyph::Simple(ig::gen_simple(rng, if cx.quick() { 4 } else { 8 }, 40, range)));
            }
        }
        // a glyph whose flag stream has a run of 256 or more identical flag bytes (all deltas in the
        // long form, zero deltas written explicitly), so that the writer emits the maximal repeat
        // count 255 and continues the run
        let long_run = rng.chance(1, 30);
        if long_run {
            let total = 256 + rng.below(450);
            let nc = 1 + rng.below(3);
            let on = rng.chance(3, 4);
            let mut contours = Vec::new();
            let (mut x, mut y) = (0i32, 0i32);
            let mut left = total;
            for k in 0..nc {
                let n = if k + 1 == nc { left } else { 1 + rng.below(left - (nc - k - 1)) };
                left -= n;
                let mut c = Vec::new();
                for _ in 0..n {
                    x = (x + rng.range(-300, 300) as i32).clamp(-2000, 2000);
                    y = (y + rng.range(-300, 300) as i32).clamp(-2000, 2000);
                    c.push(ig::Pt { x: x as i16, y: y as i16, on });
                }
                contours.push(c);
            }
            glyphs[0] = Glyph::Simple(ig::Simple { contours, instructions: Vec::new(), overlap: false });
            cx.class("glyph:flag-run>=256");
        }
        // a glyph with runs of coincident points: in the compact encoding (repeat runs, "same" deltas)
        // such a glyph has more points than bytes of flag + coordinate data - legal, and every point
        // must still be delivered
        let coincident = !long_run && rng.chance(1, 25);
        if coincident {
            let nc = 1 + rng.below(3);
            let mut contours = Vec::new();
            let (mut x, mut y) = (0i32, 0i32);
            for _ in 0..nc {
                let mut c = Vec::new();
                let runs = 1 + rng.below(3);
                for _ in 0..runs {
                    x = (x + rng.range(-200, 200) as i32).clamp(-2000, 2000);
                    y = (y + rng.range(-200, 200) as i32).clamp(-2000, 2000);
                    let on = rng.chance(3, 4);
                    let n = *rng.pick(&[1usize, 3, 8, 12, 40, 257, 300]);
                    for _ in 0..n {
                        c.push(ig::Pt { x: x as i16, y: y as i16, on });
                    }
                }
                contours.push(c);
            }
            let g = ig::Simple { contours, instructions: Vec::new(), overlap: false };
            let bytes = ig::write_simple(&g, g.bbox(), rng, &EncChoice::compact());
            if g.num_points() > bytes.len().saturating_sub(10 + 2 * g.contours.len() + 2) {
                cx.class("glyph:more-points-than-data-bytes");
            }
            glyphs[0] = Glyph::Simple(g);
        }
        let cyclic = rng.chance(1, 25);
        let wide = rng.chance(1, 6);
        for k in 0..ncomp {
            let n = 1 + rng.below(4);
            let total = nsimple + ncomp;
            let mut components = Vec::new();
            for _ in 0..n {
                let gid = if cyclic && rng.chance(1, 3) { rng.below(total) } else { rng.below(nsimple + k) };
                let args = if wide && rng.chance(1, 4) {
                    Args::Points(rng.below(10) as u16, rng.below(10) as u16)
                } else {
                    match rng.below(3) {
                        0 => Args::XY(rng.range(-128, 127) as i16, rng.range(-128, 127) as i16),
                        1 => Args::XY(rng.range(-2000, 2000) as i16, rng.range(-2000, 2000) as i16),
                        _ => Args::XY(rng.range(-32768, 32767) as i16, rng.range(-32768, 32767) as i16),
                    }
                };
                let mut extra = 0u16;
                if rng.chance(1, 4) {
                    extra |= 0x1000;
                }
                if wide && rng.chance(1, 3) {
                    extra |= 0x800;
                }
                if rng.chance(1, 5) {
                    extra |= 0x200;
                }
                if rng.chance(1, 5) {
                    extra |= 0x4;
                }
                if rng.chance(1, 8) {
                    extra |= 0x400;
                }
                components.push(Component { gid: gid as u16, args, scale: gen_scale(rng), extra_flags: extra, force_words: rng.chance(1, 4) });
            }
            let ilen = if rng.chance(1, 5) { 1 + rng.below(10) } else { 0 };
            glyphs.push(Glyph::Composite(Composite { components, instructions: rng.bytes(ilen) }));
        }
        // serialise
        let enc = if long_run {
            EncChoice { repeat: 8, long: 8, explicit_zero: 8 }
        } else if coincident {
            EncChoice::compact()
        } else {
            EncChoice::random(rng)
        };
        let mut records = Vec::new();
        for g in &glyphs {
            records.push(match g {
                Glyph::Empty => Vec::new(),
                Glyph::Simple(s) => ig::write_simple(s, s.bbox(), rng, &enc),
                Glyph::Composite(c) => {
                    let nc = if rng.chance(1, 5) { *rng.pick(&[-2i16, -7, -32768]) } else { -1 };
                    ig::write_composite_nc(c, ig::BBox { x_min: 0, y_min: 0, x_max: 0, y_max: 0 }, nc)
                }
            });
        }
        // generator self-check: the independent reader must read back what was written
        for (g, r) in glyphs.iter().zip(records.iter()) {
            let back = ig::read_glyph(r).map(|x| x.0);
            let same = match (g, &back) {
                (Glyph::Composite(a), Some(Glyph::Composite(b))) => a.components.len() == b.components.len() && a.instructions == b.instructions,
                (a, Some(b)) => a == b || matches!((a, b), (Glyph::Simple(s), Glyph::Simple(_)) if s.contours.is_empty()),
                _ => false,
            };
            if !same {
                cx.inconclusive("generator:glyph-roundtrip");
                return;
            }
        }
        let force_long = rng.chance(1, 4);
        let (glyf, loca, long) = ig::build_glyf_loca(&records, force_long, rng.bool());
        let fmt = if long { IndexToLocFormat::Long } else { IndexToLocFormat::Short };
        let loca_t = match ReadScope::new(&loca).read_dep::<LocaTable<'_>>((glyphs.len(), fmt)) {
            Ok(l) => l,
            Err(e) => {
                cx.violation("table-rejected", "loca-rejected", J::s(format!("{:?}", e)));
                return;
            }
        };
        let mut table = match ReadScope::new(&glyf).read_dep::<GlyfTable<'_>>(&loca_t) {
            Ok(t) => t,
            Err(e) => {
                cx.violation("table-rejected", "glyf-rejected", J::obj(vec![("error", J::s(format!("{:?}", e))), ("glyf", J::hex(&glyf[..glyf.len().min(2000)]))]));
                return;
            }
        };
        let mut any_nontrivial = false;
        for gid in 0..glyphs.len() {
            let mut seen = Vec::new();
            let depth = nesting(&glyphs, gid, &mut seen);
            let mut ambiguous = None;
            let mut bound = 1.0f64;
            let exp = if depth >= 99 { None } else { expected(&glyphs, gid, 0, &mut ambiguous, &mut bound) };
            let mut sink = RecSink::default();
            let res = table.visit(gid as u16, &mut sink);
            let witness = |what: String, sink: &RecSink| {
                J::obj(vec![
                    ("what", J::s(what)),
                    ("glyph_id", J::U(gid as u64)),
                    ("glyph", J::s(format!("{:?}", glyphs[gid]))),
                    ("glyphs", J::s(format!("{:?}", glyphs).chars().take(3000).collect::<String>())),
                    ("observed", cmds_json(&sink.cmds)),
                    ("glyf", J::hex(&glyf[..glyf.len().min(1500)])),
                    ("loca", J::hex(&loca[..loca.len().min(200)])),
                    ("loca_long", J::Bool(long)),
                ])
            };
            if depth >= 99 {
                // cyclic reference: must be refused, not loop
                cx.class("composite:cyclic");
                if res.is_ok() {
                    cx.violation("cyclic-composite", "cyclic-composite-accepted", witness("cyclic composite returned Ok".into(), &sink));
                }
                continue;
            }
            let exp = match exp {
                Some(e) => e,
                None => {
                    cx.class(&format!("not-judged:{}", ambiguous.unwrap_or("depth")));
                    continue;
                }
            };
            if let Err(e) = res {
                if depth > 4 {
                    cx.class("composite:depth-limit-error");
                    continue;
                }
                cx.violation("visit-error", if depth > 0 { "composite-visit-error" } else { "simple-visit-error" }, witness(format!("visit failed: {:?} (nesting {})", e, depth), &sink));
                continue;
            }
            let got = match subpaths(&sink.cmds) {
                Ok(g) => g,
                Err(why) => {
                    cx.violation("path-structure", "not-closed-subpaths", witness(why, &sink));
                    continue;
                }
            };
            if got.len() != exp.len() {
                cx.violation("contour-count", if depth > 0 { "composite-contour-count" } else { "simple-contour-count" }, witness(format!("{} sub-paths, expected {}", got.len(), exp.len()), &sink));
                continue;
            }
            // absolute tolerance: f32 has 24 bits; allow 2^-17 of the largest magnitude involved
            let tol = if depth > 0 { 1e-3 + bound * 8e-6 * depth as f64 } else { 1e-3 };
            let mut bad = None;
            for (i, (g, e)) in got.iter().zip(exp.iter()).enumerate() {
                if !ig::same_cycle(g, e, tol) {
                    bad = Some((i, e.clone()));
                    break;
                }
            }
            if let Some((i, e)) = bad {
                // features smaller than the f32 allowance cannot be decided either way
                let feature = exp.iter().map(ig::min_feature).fold(f64::INFINITY, f64::min);
                if depth > 0 && feature < 16.0 * tol {
                    cx.class("not-judged:degenerate-geometry");
                    continue;
                }
                let sig = if depth == 0 {
                    "simple-contour".to_string()
                } else if depth == 1 {
                    match &glyphs[gid] {
                        Glyph::Composite(c) if c.components.iter().any(|k| matches!(k.scale, Scale::Matrix(..))) => "composite-2x2".to_string(),
                        Glyph::Composite(c) if c.components.iter().any(|k| k.scale != Scale::None) => "composite-scale".to_string(),
                        _ => "composite-offset".to_string(),
                    }
                } else {
                    "nested-composite".to_string()
                };
                cx.violation("contour-geometry", &sig, witness(format!("sub-path {} differs (tol {:.5}, min feature {:.5}); expected (up to rotation) {:?} observed {:?}", i, tol, feature, e, got[i]), &sink));
                continue;
            }
            // classes
            match &glyphs[gid] {
                Glyph::Simple(s) => {
                    for c in &s.contours {
                        let first_on = c.first().map_or(true, |p| p.on);
                        let last_on = c.last().map_or(true, |p| p.on);
                        cx.class(match (first_on, last_on) {
                            (true, true) => "contour:first-on,last-on",
                            (true, false) => "contour:first-on,last-off",
                            (false, true) => "contour:first-off,last-on",
                            (false, false) => "contour:first-off,last-off",
                        });
                        if c.len() == 1 {
                            cx.class("contour:single-point");
                        }
                        if c.iter().all(|p| !p.on) {
                            cx.class("contour:all-off");
                        }
                    }
                    if !s.contours.is_empty() {
                        any_nontrivial = true;
                    }
                }
                Glyph::Composite(c) => {
                    cx.class(&format!("composite:depth-{}", depth.min(7)));
                    for k in &c.components {
                        cx.class(match k.scale {
                            Scale::None => "transform:none",
                            Scale::Uniform(_) => "transform:uniform",
                            Scale::XY(..) => "transform:xy",
                            Scale::Matrix(..) => "transform:2x2",
                        });
                    }
                    if !exp.is_empty() {
                        any_nontrivial = true;
                    }
                }
                Glyph::Empty => cx.class("glyph:empty"),
            }
        }
        if any_nontrivial {
            cx.nontrivial(hash_bytes(&glyf));
        }
        if cx.want_sample() {
            cx.sample(J::obj(vec![("glyphs", J::s(format!("{:?}", glyphs).chars().take(600).collect::<String>())), ("glyf_len", J::U(glyf.len() as u64)), ("loca_long", J::Bool(long))]));
        }
    }
}
