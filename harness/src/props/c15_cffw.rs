//! C15 helpers: whole CFF and CFF2 tables and ItemVariationStore — generator-made byte strings,
//! fingerprints of the parsed values, value substitutions through the public fields.

use super::cffm::*;
use super::tt::*;
use super::*;
use allsorts::binary::read::ReadScope;
use allsorts::binary::write::WriteBinary;
use allsorts::cff::cff2::CFF2;
use allsorts::cff::{CFFVariant, Charset, Encoding, MaybeOwnedIndex, CFF};
use allsorts::error::ParseError;
use allsorts::tables::variable_fonts::fvar::FvarTable;
use allsorts::tables::variable_fonts::{DeltaSetIndexMapEntry, ItemVariationData, ItemVariationStore, VariationRegionList};
use allsorts::tables::F2Dot14;

// ---------------------------------------------------------------------------------------------
// ItemVariationStore
// ---------------------------------------------------------------------------------------------

#[derive(Clone, Debug)]
pub struct IvdAst {
    pub item_count: u16,
    /// raw wordDeltaCount field (bit 15 = LONG_WORDS)
    pub word_count: u16,
    pub region_indexes: Vec<u16>,
    pub rows: Vec<u8>,
}

#[derive(Clone, Debug)]
pub struct IvsAst {
    pub axis_count: u16,
    pub regions: Vec<Vec<(i16, i16, i16)>>,
    pub data: Vec<IvdAst>,
    /// bytes of padding between the sub-structures (offsets need not be contiguous)
    pub gap: usize,
}

impl IvdAst {
    pub fn row_len(&self) -> usize {
        let n = self.region_indexes.len() + (self.word_count & 0x7FFF) as usize;
        if self.word_count & 0x8000 != 0 {
            n * 2
        } else {
            n
        }
    }
    pub fn bytes(&self) -> Vec<u8> {
        let mut o = Vec::new();
        o.extend_from_slice(&self.item_count.to_be_bytes());
        o.extend_from_slice(&self.word_count.to_be_bytes());
        o.extend_from_slice(&(self.region_indexes.len() as u16).to_be_bytes());
        for r in &self.region_indexes {
            o.extend_from_slice(&r.to_be_bytes());
        }
        o.extend_from_slice(&self.rows);
        o
    }
}

impl IvsAst {
    pub fn region_list_bytes(&self) -> Vec<u8> {
        let mut o = Vec::new();
        o.extend_from_slice(&self.axis_count.to_be_bytes());
        o.extend_from_slice(&(self.regions.len() as u16).to_be_bytes());
        for r in &self.regions {
            for a in r {
                o.extend_from_slice(&a.0.to_be_bytes());
                o.extend_from_slice(&a.1.to_be_bytes());
                o.extend_from_slice(&a.2.to_be_bytes());
            }
        }
        o
    }
    pub fn bytes(&self) -> Vec<u8> {
        let mut o = Vec::new();
        let header = 8 + 4 * self.data.len();
        let rl = self.region_list_bytes();
        o.extend_from_slice(&1u16.to_be_bytes());
        o.extend_from_slice(&((header + self.gap) as u32).to_be_bytes());
        o.extend_from_slice(&(self.data.len() as u16).to_be_bytes());
        let mut at = header + self.gap + rl.len() + self.gap;
        let bodies: Vec<Vec<u8>> = self.data.iter().map(|d| d.bytes()).collect();
        for b in &bodies {
            o.extend_from_slice(&(at as u32).to_be_bytes());
            at += b.len() + self.gap;
        }
        o.extend(std::iter::repeat(0xEE).take(self.gap));
        o.extend_from_slice(&rl);
        for b in &bodies {
            o.extend(std::iter::repeat(0xEE).take(self.gap));
            o.extend_from_slice(b);
        }
        o
    }
}

pub fn gen_ivs(rng: &mut Rng) -> IvsAst {
    let axis_count = match rng.below(10) {
        0 => 0,
        _ => 1 + rng.small(4) as u16,
    };
    let nreg = match rng.below(10) {
        0 => 0,
        _ => 1 + rng.small(6),
    };
    let coord = |rng: &mut Rng| *rng.pick(&[-16384i16, -8192, 0, 8192, 16384, 1, -1, i16::MIN, i16::MAX]);
    let regions: Vec<Vec<(i16, i16, i16)>> = (0..nreg)
        .map(|_| {
            (0..axis_count)
                .map(|_| {
                    let mut v = [coord(rng), coord(rng), coord(rng)];
                    if rng.chance(3, 4) {
                        v.sort();
                    }
                    (v[0], v[1], v[2])
                })
                .collect()
        })
        .collect();
    let ndata = match rng.below(10) {
        0 => 0,
        _ => 1 + rng.small(4),
    };
    let data = (0..ndata)
        .map(|_| {
            let nri = if nreg == 0 { 0 } else { rng.small(nreg.min(5)) };
            let region_indexes: Vec<u16> = (0..nri).map(|_| rng.below(nreg) as u16).collect();
            let words = rng.below(nri + 1) as u16;
            let long = rng.chance(1, 4);
            let word_count = words | if long { 0x8000 } else { 0 };
            let item_count = match rng.below(12) {
                0 => 0,
                _ => rng.small(12) as u16,
            };
            let mut d = IvdAst { item_count, word_count, region_indexes, rows: Vec::new() };
            d.rows = rng.bytes(d.row_len() * item_count as usize);
            d
        })
        .collect();
    IvsAst { axis_count, regions, data, gap: if rng.chance(1, 4) { rng.below(5) } else { 0 } }
}

/// an `fvar` with `n` axes, only used to obtain tuples for `ItemVariationStore::adjustment`
pub fn fvar_bytes(n: u16) -> Vec<u8> {
    let mut o = Vec::new();
    for v in [1u16, 0, 16, 2, n, 20, 0, 4 + 4 * n] {
        o.extend_from_slice(&v.to_be_bytes());
    }
    for i in 0..n {
        o.extend_from_slice(&(0x77676874u32 + i as u32).to_be_bytes());
        for f in [-0x10000i32, 0, 0x10000] {
            o.extend_from_slice(&f.to_be_bytes());
        }
        o.extend_from_slice(&0u16.to_be_bytes());
        o.extend_from_slice(&(256 + i).to_be_bytes());
    }
    o
}

/// Everything the public API lets one observe of an item variation store.
pub fn fp_ivs(prefix: &str, ivs: &ItemVariationStore<'_>) -> Result<Fp, ParseError> {
    let mut f = Vec::new();
    let regs = &ivs.variation_region_list.variation_regions;
    let axis_count = *regs.args();
    f.push((format!("{}axis_count", prefix), axis_count.to_string()));
    f.push((format!("{}region_count", prefix), regs.len().to_string()));
    for (i, r) in regs.iter_res().enumerate() {
        let r = r?;
        f.push((format!("{}region[{}]", prefix, i), format!("{:?}", r)));
    }
    f.push((format!("{}data_count", prefix), ivs.item_variation_data.len().to_string()));
    let fv_bytes = fvar_bytes(axis_count);
    let fvar = ReadScope::new(&fv_bytes).read::<FvarTable<'_>>()?;
    let tuples: Vec<Vec<i16>> = vec![vec![16384; axis_count as usize], vec![-16384; axis_count as usize], (0..axis_count).map(|i| if i % 2 == 0 { 8192 } else { -4096 }).collect()];
    for (i, d) in ivs.item_variation_data.iter().enumerate() {
        if i >= 64 {
            break;
        }
        let used: Vec<String> = match ivs.regions(i as u16) {
            Ok(it) => it.map(|r| match r {
                Ok(r) => format!("{:?}", r),
                Err(e) => format!("<{:?}>", e),
            }).collect(),
            Err(e) => vec![format!("<{:?}>", e)],
        };
        f.push((format!("{}data[{}].regions", prefix, i), format!("{} {:016x}", used.len(), hash_str(&used.join("|")))));
        let mut items = 0u32;
        while items < 65536 && d.delta_set(items as u16).is_some() {
            items += 1;
        }
        f.push((format!("{}data[{}].items", prefix, i), items.to_string()));
        let mut adj = Vec::new();
        for j in 0..items.min(6) {
            for t in &tuples {
                let vals: Vec<F2Dot14> = t.iter().map(|v| F2Dot14::from_raw(*v)).collect();
                if let Some(tuple) = fvar.owned_tuple(&vals) {
                    let a = ivs.adjustment(DeltaSetIndexMapEntry { outer_index: i as u16, inner_index: j as u16 }, &tuple);
                    adj.push(match a {
                        Ok(v) => format!("{:08x}", v.to_bits()),
                        Err(e) => format!("<{:?}>", e),
                    });
                }
            }
        }
        f.push((format!("{}data[{}].adjustments", prefix, i), adj.join(",")));
    }
    Ok(f)
}

pub fn step_ivs(cx: &mut Ctx, bytes: &[u8]) -> Step {
    let parsed = cx.guard("ItemVariationStore::read", bytes.len(), || -> Result<(ItemVariationStore<'_>, Fp), ParseError> {
        let v = ReadScope::new(bytes).read::<ItemVariationStore<'_>>()?;
        let f = fp_ivs("", &v)?;
        Ok((v, f))
    });
    let (v, fp) = match parsed {
        None => return Step::Panic,
        Some(Err(e)) => return Step::ParseErr(perr(&e)),
        Some(Ok(x)) => x,
    };
    let out = gwrite(cx, "ItemVariationStore::write", bytes.len(), |b| ItemVariationStore::write(b, &v));
    Step::Parsed { fp, out }
}

pub fn rt_ivs(cx: &mut Ctx, rng: &mut Rng) {
    let ast = gen_ivs(rng);
    let wit_ast = ast.clone();
    match rng.below(4) {
        0 => {
            // region list alone
            let bytes = ast.region_list_bytes();
            let wit = || J::obj(vec![("region_list", trunc_hex(&bytes))]);
            let mut step = |cx: &mut Ctx, b: &[u8]| {
                mk_step(
                    cx,
                    "VariationRegionList",
                    b.len(),
                    || ReadScope::new(b).read::<VariationRegionList<'_>>(),
                    |l| {
                        let mut f = fp!["axis_count" => *l.variation_regions.args(), "region_count" => l.variation_regions.len()];
                        for (i, r) in l.variation_regions.iter_res().enumerate() {
                            f.push((format!("region[{}]", i), format!("{:?}", r.map_err(|e| perr(&e)))));
                        }
                        f
                    },
                    |w, l| VariationRegionList::write(w, &l),
                )
            };
            stability(cx, "ivs-region-list(generated)", true, &bytes, &mut step, &wit);
            cx.class("rt:ivs-region-list");
        }
        1 => {
            // one ItemVariationData: nothing but delta_set(i).is_some() is observable, so the
            // serialised bytes themselves are compared with the generator's
            if let Some(d) = ast.data.first() {
                let bytes = d.bytes();
                let wit = || J::obj(vec![("item_variation_data", trunc_hex(&bytes))]);
                let mut step = |cx: &mut Ctx, b: &[u8]| {
                    mk_step(
                        cx,
                        "ItemVariationData",
                        b.len(),
                        || ReadScope::new(b).read::<ItemVariationData<'_>>(),
                        |d| {
                            let mut items = 0u32;
                            while items < 65536 && d.delta_set(items as u16).is_some() {
                                items += 1;
                            }
                            fp!["items" => items]
                        },
                        |w, d| ItemVariationData::write(w, &d),
                    )
                };
                if let Step::Parsed { out: Wr::Ok(b1), .. } = step(cx, &bytes) {
                    if b1 != bytes {
                        cx.violation("rt-differs", "ivs-item-variation-data:bytes", J::obj(vec![("input", trunc_hex(&bytes)), ("written", trunc_hex(&b1))]));
                    } else {
                        cx.class("rt:ivs-item-variation-data");
                        cx.nontrivial(hash_bytes(&b1));
                    }
                }
                stability(cx, "ivs-item-variation-data(generated)", true, &bytes, &mut step, &wit);
            }
        }
        _ => {
            let bytes = ast.bytes();
            let wit = || J::obj(vec![("ivs", J::s(format!("{:?}", wit_ast).chars().take(1500).collect::<String>())), ("bytes", trunc_hex(&bytes))]);
            stability(cx, "ivs(generated)", true, &bytes, &mut |cx, b| step_ivs(cx, b), &wit);
            cx.class("rt:ivs");
        }
    }
}

// ---------------------------------------------------------------------------------------------
// CFF: fingerprint of a parsed table
// ---------------------------------------------------------------------------------------------

fn fp_moi(prefix: &str, i: &MaybeOwnedIndex<'_>) -> Fp {
    fp_objects(prefix, i.iter())
}

fn fp_opt_moi(prefix: &str, i: &Option<MaybeOwnedIndex<'_>>) -> Fp {
    match i {
        Some(i) => fp_moi(prefix, i),
        None => vec![(format!("{}count", prefix), "none".to_string())],
    }
}

pub fn fp_cff(c: &CFF<'_>) -> Result<Fp, ParseError> {
    let mut f: Fp = fp!["major" => c.header.major, "minor" => c.header.minor, "hdr_size(normalised)" => 4];
    f.extend(fp_moi("name.", &c.name_index));
    f.extend(fp_moi("string.", &c.string_index));
    f.extend(fp_moi("gsubr.", &c.global_subr_index));
    f.push(("fonts".to_string(), c.fonts.len().to_string()));
    for (i, font) in c.fonts.iter().enumerate() {
        let p = format!("font[{}].", i);
        f.extend(fp_dict_entries(&dict_entries(&font.top_dict), DictKind::CffTop, true, true, &format!("{}top.", p)));
        f.extend(fp_moi(&format!("{}charstrings.", p), &font.char_strings_index));
        match &font.charset {
            Charset::ISOAdobe => f.push((format!("{}charset", p), "ISOAdobe".to_string())),
            Charset::Expert => f.push((format!("{}charset", p), "Expert".to_string())),
            Charset::ExpertSubset => f.push((format!("{}charset", p), "ExpertSubset".to_string())),
            Charset::Custom(cs) => f.extend(fp_charset(&p, cs)),
        }
        match &font.data {
            CFFVariant::Type1(t) => {
                f.push((format!("{}kind", p), "type1".to_string()));
                match &t.encoding {
                    Encoding::Standard => f.push((format!("{}encoding", p), "Standard".to_string())),
                    Encoding::Expert => f.push((format!("{}encoding", p), "Expert".to_string())),
                    Encoding::Custom(e) => f.extend(fp_encoding(&p, e)),
                }
                f.extend(fp_dict_entries(&dict_entries(&t.private_dict), DictKind::CffPrivate, true, true, &format!("{}private.", p)));
                f.extend(fp_opt_moi(&format!("{}lsubr.", p), &t.local_subr_index));
            }
            CFFVariant::CID(cid) => {
                f.push((format!("{}kind", p), "cid".to_string()));
                f.push((format!("{}fd_count", p), cid.font_dict_index.len().to_string()));
                for j in 0..cid.font_dict_index.len() {
                    let fd = cid.font_dict(j)?;
                    f.extend(fp_dict_entries(&dict_entries(&fd), DictKind::CffFont, true, true, &format!("{}fd[{}].", p, j)));
                }
                f.push((format!("{}private_count", p), cid.private_dicts.len().to_string()));
                for (j, pd) in cid.private_dicts.iter().enumerate() {
                    f.extend(fp_dict_entries(&dict_entries(pd), DictKind::CffPrivate, true, true, &format!("{}fd[{}].private.", p, j)));
                }
                for (j, ls) in cid.local_subr_indices.iter().enumerate() {
                    f.extend(fp_opt_moi(&format!("{}fd[{}].lsubr.", p, j), ls));
                }
                f.extend(fp_fdselect(&p, &cid.fd_select));
            }
        }
    }
    Ok(f)
}

pub fn step_cff(cx: &mut Ctx, bytes: &[u8]) -> Step {
    let parsed = cx.guard("CFF::read", bytes.len(), || -> Result<(CFF<'_>, Fp), ParseError> {
        let v = ReadScope::new(bytes).read::<CFF<'_>>()?;
        let f = fp_cff(&v)?;
        Ok((v, f))
    });
    let (v, fp) = match parsed {
        None => return Step::Panic,
        Some(Err(e)) => return Step::ParseErr(perr(&e)),
        Some(Ok(x)) => x,
    };
    let out = gwrite(cx, "CFF::write", bytes.len(), |b| CFF::write(b, &v));
    Step::Parsed { fp, out }
}

pub fn fp_cff2(c: &CFF2<'_>) -> Result<Fp, ParseError> {
    let mut f: Fp = fp!["major" => c.header.major, "minor" => c.header.minor, "header_size(normalised)" => 5];
    // the writer carries FontMatrix only (the other Top DICT operators are offsets it recomputes)
    let top: Vec<(u16, Vec<String>)> = dict_entries(&c.top_dict).into_iter().filter(|(op, _)| *op == 0x0C07).collect();
    f.extend(fp_dict_entries(&top, DictKind::Cff2Top, true, true, "top."));
    f.extend(fp_moi("gsubr.", &c.global_subr_index));
    f.extend(fp_moi("charstrings.", &c.char_strings_index));
    match &c.fd_select {
        Some(s) if c.fonts.len() > 1 => f.extend(fp_fdselect("", s)),
        _ => f.push(("fd_select".to_string(), "none".to_string())),
    }
    match &c.vstore {
        Some(v) => f.extend(fp_ivs("vstore.", v)?),
        None => f.push(("vstore".to_string(), "none".to_string())),
    }
    f.push(("fonts".to_string(), c.fonts.len().to_string()));
    for (j, font) in c.fonts.iter().enumerate() {
        f.extend(fp_dict_entries(&dict_entries(&font.private_dict), DictKind::Cff2Private, true, true, &format!("font[{}].private.", j)));
        f.extend(fp_opt_moi(&format!("font[{}].lsubr.", j), &font.local_subr_index));
    }
    Ok(f)
}

pub fn step_cff2(cx: &mut Ctx, bytes: &[u8]) -> Step {
    let parsed = cx.guard("CFF2::read", bytes.len(), || -> Result<(CFF2<'_>, Fp), ParseError> {
        let v = ReadScope::new(bytes).read::<CFF2<'_>>()?;
        let f = fp_cff2(&v)?;
        Ok((v, f))
    });
    let (v, fp) = match parsed {
        None => return Step::Panic,
        Some(Err(e)) => return Step::ParseErr(perr(&e)),
        Some(Ok(x)) => x,
    };
    let out = gwrite(cx, "CFF2::write", bytes.len(), |b| CFF2::write(b, v));
    Step::Parsed { fp, out }
}

// ---------------------------------------------------------------------------------------------
// CFF: generator
// ---------------------------------------------------------------------------------------------

#[derive(Clone, Debug)]
pub struct PrivAst {
    pub dict: DictAst,
    pub subrs: Option<Vec<Vec<u8>>>,
}

#[derive(Clone, Debug)]
pub enum CsSel {
    /// predefined charset 0/1/2; `explicit`: the Top DICT spells the operator out
    Predefined(u8, bool),
    Custom(CharsetAst),
}

#[derive(Clone, Debug)]
pub enum EncSel {
    Predefined(u8, bool),
    Custom(EncodingAst),
}

#[derive(Clone, Debug)]
pub enum CffKind {
    Type1 { encoding: EncSel, private: PrivAst },
    Cid { fds: Vec<(DictAst, PrivAst)>, fdselect: FdSelectAst },
}

#[derive(Clone, Debug)]
pub struct CffFontAst {
    pub name: Vec<u8>,
    pub top_extra: DictAst,
    pub charstrings: Vec<Vec<u8>>,
    pub charset: CsSel,
    pub kind: CffKind,
}

#[derive(Clone, Debug)]
pub struct CffAst {
    pub minor: u8,
    pub hdr_extra: usize,
    pub off_size: u8,
    pub index_off_size: u8,
    pub strings: Vec<Vec<u8>>,
    pub gsubrs: Vec<Vec<u8>>,
    pub fonts: Vec<CffFontAst>,
}

const TOP_AVOID: &[u16] = &[15, 16, 17, 18, 19, 24, 0x0C24, 0x0C25, 0x0C1E, 0x0C14];
const PRIV_AVOID: &[u16] = &[19, 18, 17, 15, 16, 24, 0x0C24, 0x0C25];

pub fn gen_small_objects(rng: &mut Rng, max_n: usize) -> Vec<Vec<u8>> {
    let n = rng.small(max_n);
    (0..n).map(|_| { let l = rng.small(24); rng.bytes(l) }).collect()
}

pub fn gen_priv(rng: &mut Rng, kind: DictKind) -> PrivAst {
    PrivAst { dict: gen_dict_ast(rng, kind, PRIV_AVOID), subrs: if rng.bool() { Some(gen_small_objects(rng, 6)) } else { None } }
}

pub fn gen_cff_font(rng: &mut Rng) -> CffFontAst {
    let cid = rng.chance(1, 3);
    let charset = match rng.below(5) {
        0 => CsSel::Predefined(0, rng.bool()),
        1 => CsSel::Predefined(1 + rng.below(2) as u8, true),
        _ => CsSel::Custom(gen_charset(rng, 40)),
    };
    let n_glyphs = match &charset {
        CsSel::Custom(c) => c.n_glyphs(),
        _ => rng.small(30),
    };
    let charstrings: Vec<Vec<u8>> = (0..n_glyphs).map(|_| { let l = 1 + rng.small(12); rng.bytes(l) }).collect();
    let kind = if cid {
        let nfd = 1 + rng.small(4);
        CffKind::Cid { fds: (0..nfd).map(|_| (gen_dict_ast(rng, DictKind::CffFont, TOP_AVOID), gen_priv(rng, DictKind::CffPrivate))).collect(), fdselect: gen_fdselect(rng, n_glyphs, nfd) }
    } else {
        let encoding = match rng.below(4) {
            0 => EncSel::Predefined(0, rng.bool()),
            1 => EncSel::Predefined(1, true),
            _ => { let l = rng.small(20); EncSel::Custom(gen_encoding(rng, l)) }
        };
        CffKind::Type1 { encoding, private: gen_priv(rng, DictKind::CffPrivate) }
    };
    let nl = 1 + rng.small(20);
    CffFontAst { name: rng.bytes(nl), top_extra: gen_dict_ast(rng, DictKind::CffTop, TOP_AVOID), charstrings, charset, kind }
}

pub fn gen_cff(rng: &mut Rng) -> CffAst {
    CffAst {
        minor: if rng.bool() { 0 } else { rng.u8() },
        hdr_extra: if rng.chance(1, 4) { 1 + rng.below(6) } else { 0 },
        off_size: 1 + rng.below(4) as u8,
        index_off_size: *rng.pick(&[0u8, 0, 0, 1, 2, 3, 4]),
        strings: gen_small_objects(rng, 8),
        gsubrs: gen_small_objects(rng, 8),
        fonts: (0..if rng.chance(1, 8) { 2 } else { 1 }).map(|_| gen_cff_font(rng)).collect(),
    }
}

fn off(v: usize) -> Opnd {
    Opnd::Int(v as i32, 2)
}

/// Private DICT bytes with the Subrs offset (relative to the DICT) filled in, plus the subrs INDEX
fn build_priv(p: &PrivAst, ios: u8, count32: bool) -> (Vec<u8>, Vec<u8>) {
    let mut d = p.dict.clone();
    match &p.subrs {
        Some(s) => {
            d.push((19, vec![off(0)]));
            let len = enc_dict(&d).len();
            let last = d.len() - 1;
            d[last].1 = vec![off(len)];
            (enc_dict(&d), enc_index(s, ios, count32))
        }
        None => (enc_dict(&d), Vec::new()),
    }
}

impl CffFontAst {
    fn top_dict(&self, offs: &FontOffsets) -> DictAst {
        let mut d: DictAst = Vec::new();
        if let CffKind::Cid { .. } = self.kind {
            d.push((0x0C1E, vec![Opnd::Int(391, 0), Opnd::Int(392, 0), Opnd::Int(0, 0)]));
        }
        d.extend(self.top_extra.iter().cloned());
        match &self.charset {
            CsSel::Predefined(v, true) => d.push((15, vec![Opnd::Int(*v as i32, 0)])),
            CsSel::Predefined(_, false) => {}
            CsSel::Custom(_) => d.push((15, vec![off(offs.charset)])),
        }
        if let CffKind::Type1 { encoding, .. } = &self.kind {
            match encoding {
                EncSel::Predefined(v, true) => d.push((16, vec![Opnd::Int(*v as i32, 0)])),
                EncSel::Predefined(_, false) => {}
                EncSel::Custom(_) => d.push((16, vec![off(offs.encoding)])),
            }
        }
        d.push((17, vec![off(offs.charstrings)]));
        match &self.kind {
            CffKind::Type1 { .. } => d.push((18, vec![off(offs.private_len), off(offs.private)])),
            CffKind::Cid { .. } => {
                d.push((0x0C24, vec![off(offs.fdarray)]));
                d.push((0x0C25, vec![off(offs.fdselect)]));
            }
        }
        if d.is_empty() || (matches!(self.kind, CffKind::Type1 { .. }) && (d[0].0 == 0x0C1E || d[0].0 == 0x0C14)) {
            d.insert(0, (0, vec![Opnd::Int(391, 0)]));
        }
        d
    }
}

#[derive(Default, Clone)]
struct FontOffsets {
    charstrings: usize,
    charset: usize,
    encoding: usize,
    private: usize,
    private_len: usize,
    fdarray: usize,
    fdselect: usize,
}

impl CffAst {
    pub fn bytes(&self) -> Vec<u8> {
        let ios = self.index_off_size;
        let mut out = vec![1, self.minor, (4 + self.hdr_extra) as u8, self.off_size];
        out.extend(std::iter::repeat(0xCC).take(self.hdr_extra));
        let names: Vec<Vec<u8>> = self.fonts.iter().map(|f| f.name.clone()).collect();
        out.extend(enc_index(&names, ios, false));
        // Top DICT INDEX: every offset operand is a 5-byte integer, so the size is known up front
        let placeholder: Vec<Vec<u8>> = self.fonts.iter().map(|f| enc_dict(&f.top_dict(&FontOffsets::default()))).collect();
        let top_index_at = out.len();
        let top_index_len = enc_index(&placeholder, ios, false).len();
        out.extend(std::iter::repeat(0).take(top_index_len));
        out.extend(enc_index(&self.strings, ios, false));
        out.extend(enc_index(&self.gsubrs, ios, false));
        let mut tops = Vec::new();
        for f in &self.fonts {
            let mut o = FontOffsets::default();
            o.charstrings = out.len();
            out.extend(enc_index(&f.charstrings, ios, false));
            if let CsSel::Custom(c) = &f.charset {
                o.charset = out.len();
                out.extend(c.bytes());
            }
            match &f.kind {
                CffKind::Type1 { encoding, private } => {
                    if let EncSel::Custom(e) = encoding {
                        o.encoding = out.len();
                        out.extend(e.bytes());
                    }
                    let (pd, subrs) = build_priv(private, ios, false);
                    o.private = out.len();
                    o.private_len = pd.len();
                    out.extend(pd);
                    out.extend(subrs);
                }
                CffKind::Cid { fds, fdselect } => {
                    let mut fd_objs = Vec::new();
                    for (extra, private) in fds {
                        let (pd, subrs) = build_priv(private, ios, false);
                        let mut d = extra.clone();
                        d.push((18, vec![off(pd.len()), off(out.len())]));
                        out.extend(pd);
                        out.extend(subrs);
                        fd_objs.push(enc_dict(&d));
                    }
                    o.fdarray = out.len();
                    out.extend(enc_index(&fd_objs, ios, false));
                    o.fdselect = out.len();
                    out.extend(fdselect.bytes());
                }
            }
            tops.push(enc_dict(&f.top_dict(&o)));
        }
        let top_index = enc_index(&tops, ios, false);
        if top_index.len() == top_index_len {
            out[top_index_at..top_index_at + top_index_len].copy_from_slice(&top_index);
        }
        out
    }

    /// expected fingerprint of the parse of `bytes()` (mirrors `fp_cff`)
    pub fn fp(&self) -> Fp {
        let objs = |p: &str, v: &Vec<Vec<u8>>| fp_objects(p, v.iter().map(|o| o.as_slice()));
        let mut f: Fp = fp!["major" => 1, "minor" => self.minor, "hdr_size(normalised)" => 4];
        let names: Vec<Vec<u8>> = self.fonts.iter().map(|f| f.name.clone()).collect();
        f.extend(objs("name.", &names));
        f.extend(objs("string.", &self.strings));
        f.extend(objs("gsubr.", &self.gsubrs));
        f.push(("fonts".to_string(), self.fonts.len().to_string()));
        let priv_fp = |p: &PrivAst, prefix: &str| {
            let mut d = p.dict.clone();
            if p.subrs.is_some() {
                d.push((19, vec![off(0)]));
            }
            let mut f = fp_dict_entries(&ast_entries(&d), DictKind::CffPrivate, true, true, &format!("{}private.", prefix));
            match &p.subrs {
                Some(s) => f.extend(fp_objects(&format!("{}lsubr.", prefix), s.iter().map(|o| o.as_slice()))),
                None => f.push((format!("{}lsubr.count", prefix), "none".to_string())),
            }
            f
        };
        for (i, font) in self.fonts.iter().enumerate() {
            let p = format!("font[{}].", i);
            f.extend(fp_dict_entries(&ast_entries(&font.top_dict(&FontOffsets { charset: 99, encoding: 99, ..Default::default() })), DictKind::CffTop, true, true, &format!("{}top.", p)));
            f.extend(objs(&format!("{}charstrings.", p), &font.charstrings));
            match &font.charset {
                CsSel::Predefined(v, _) => f.push((format!("{}charset", p), ["ISOAdobe", "Expert", "ExpertSubset"][*v as usize].to_string())),
                CsSel::Custom(c) => f.extend(c.fp(&p)),
            }
            match &font.kind {
                CffKind::Type1 { encoding, private } => {
                    f.push((format!("{}kind", p), "type1".to_string()));
                    match encoding {
                        EncSel::Predefined(v, _) => f.push((format!("{}encoding", p), ["Standard", "Expert"][*v as usize].to_string())),
                        EncSel::Custom(e) => f.extend(e.fp(&p)),
                    }
                    f.extend(priv_fp(private, &p));
                }
                CffKind::Cid { fds, fdselect } => {
                    f.push((format!("{}kind", p), "cid".to_string()));
                    f.push((format!("{}fd_count", p), fds.len().to_string()));
                    for (j, (extra, _)) in fds.iter().enumerate() {
                        let mut d = extra.clone();
                        d.push((18, vec![off(0), off(0)]));
                        f.extend(fp_dict_entries(&ast_entries(&d), DictKind::CffFont, true, true, &format!("{}fd[{}].", p, j)));
                    }
                    f.push((format!("{}private_count", p), fds.len().to_string()));
                    let mut pf = Vec::new();
                    let mut lf = Vec::new();
                    for (j, (_, private)) in fds.iter().enumerate() {
                        let all = priv_fp(private, &format!("{}fd[{}].", p, j));
                        for e in all {
                            if e.0.contains(".lsubr.") {
                                lf.push(e);
                            } else {
                                pf.push(e);
                            }
                        }
                    }
                    f.extend(pf);
                    f.extend(lf);
                    f.extend(fdselect.fp(&p));
                }
            }
        }
        f
    }
}

pub fn rt_cff(cx: &mut Ctx, rng: &mut Rng) {
    let ast = gen_cff(rng);
    let bytes = ast.bytes();
    let exp = ast.fp();
    let wit = || J::obj(vec![("cff", J::s(format!("{:?}", ast).chars().take(4000).collect::<String>())), ("bytes", trunc_hex(&bytes))]);
    for f in &ast.fonts {
        cx.class(match &f.kind {
            CffKind::Type1 { .. } => "rt:cff:type1",
            CffKind::Cid { .. } => "rt:cff:cid",
        });
        cx.class(match &f.charset {
            CsSel::Predefined(_, true) => "rt:cff:charset-predefined-explicit",
            CsSel::Predefined(_, false) => "rt:cff:charset-default-implicit",
            CsSel::Custom(_) => "rt:cff:charset-custom",
        });
    }
    // reading half: allsorts' parse of the generator's bytes against the generator's description
    match step_cff(cx, &bytes) {
        Step::Panic => return,
        Step::ParseErr(e) => {
            cx.violation("rt-reparse-error", &format!("cff:generator-bytes:{}", e), wit());
            return;
        }
        Step::Parsed { fp, .. } => {
            if let Some((field, a, b)) = fp_diff(&exp, &fp) {
                cx.violation("rt-differs", &format!("cff:read:{}", sig_field(&field)), J::obj(vec![("field", J::s(field)), ("expected", J::s(a)), ("observed", J::s(b)), ("case", wit())]));
                return;
            }
        }
    }
    if rng.chance(1, 3) {
        rt_cff_substituted(cx, rng, &bytes, &ast);
    } else {
        stability(cx, "CFF(generated)", true, &bytes, &mut |cx, b| step_cff(cx, b), &wit);
        cx.class("rt:cff");
    }
}

/// value -> bytes -> value with parts of a parsed CFF replaced through the public fields
/// (owned INDEXes via `replace`, constructed charsets / encodings / FDSelects).
fn rt_cff_substituted(cx: &mut Ctx, rng: &mut Rng, bytes: &[u8], ast: &CffAst) {
    let sizes = [0usize, 1, 253, 254, 255, 256, 300, 65533, 65534, 65535, 65536, 70_000];
    let mut what = Vec::new();
    let built = cx.guard("CFF::read+substitute", bytes.len(), || -> Result<(Fp, Wr2), ParseError> {
        let mut v = ReadScope::new(bytes).read::<CFF<'_>>()?;
        let obj = |rng: &mut Rng| {
            let l = *rng.pick(&sizes);
            let mut d = vec![0x42u8; l];
            if l > 0 {
                d[0] = rng.u8();
            }
            d
        };
        if v.name_index.len() > 0 && rng.bool() {
            let l = 1 + rng.small(100);
            v.name_index.replace(0, rng.bytes(l));
            what.push("name_index.replace");
        }
        if v.string_index.len() > 0 && rng.bool() {
            let k = rng.below(v.string_index.len());
            v.string_index.replace(k, obj(rng));
            what.push("string_index.replace");
        }
        if v.global_subr_index.len() > 0 && rng.bool() {
            let k = rng.below(v.global_subr_index.len());
            v.global_subr_index.replace(k, obj(rng));
            what.push("global_subr_index.replace");
        }
        for (i, font) in v.fonts.iter_mut().enumerate() {
            if font.char_strings_index.len() > 0 && rng.bool() {
                let k = rng.below(font.char_strings_index.len());
                font.char_strings_index.replace(k, obj(rng));
                what.push("char_strings_index.replace");
            }
            let n_glyphs = font.char_strings_index.len();
            // only where the Top DICT already carries the operator the writer patches
            if matches!(ast.fonts[i].charset, CsSel::Custom(_)) && n_glyphs >= 1 && rng.bool() {
                let g: Vec<u16> = (0..n_glyphs - 1).map(|_| edge_u16(rng)).collect();
                font.charset = Charset::Custom(CharsetAst::F0(g).to_value());
                what.push("charset=Custom(owned format0)");
            }
            match &mut font.data {
                CFFVariant::CID(cid) => {
                    if rng.bool() {
                        cid.fd_select = gen_fdselect(rng, n_glyphs, cid.private_dicts.len()).to_value();
                        what.push("fd_select=constructed");
                    }
                    for ls in cid.local_subr_indices.iter_mut().flatten() {
                        if ls.len() > 0 && rng.bool() {
                            ls.replace(0, obj(rng));
                            what.push("local_subr_index.replace");
                        }
                    }
                }
                CFFVariant::Type1(t) => {
                    if let Some(ls) = t.local_subr_index.as_mut() {
                        if ls.len() > 0 && rng.bool() {
                            ls.replace(0, obj(rng));
                            what.push("local_subr_index.replace");
                        }
                    }
                }
            }
        }
        let f = fp_cff(&v)?;
        let mut b = allsorts::binary::write::WriteBuffer::new();
        let w = match CFF::write(&mut b, &v) {
            Ok(()) => Wr2::Ok(b.into_inner()),
            Err(e) => Wr2::Err(e),
        };
        Ok((f, w))
    });
    let (exp, w) = match built {
        None => return,
        Some(Err(_)) => {
            cx.inconclusive("cff-substitute");
            return;
        }
        Some(Ok(x)) => x,
    };
    let w = match w {
        Wr2::Ok(b) => Wr::Ok(b),
        Wr2::Err(e) => Wr::Err(e),
    };
    let what2 = what.clone();
    let wit = || J::obj(vec![("base", trunc_hex(bytes)), ("substitutions", J::A(what2.iter().map(|s| J::s(*s)).collect()))]);
    for w in &what {
        cx.class(&format!("rt:cff-subst:{}", w));
    }
    finish_rt(cx, "cff-substituted", &exp, w, &mut |cx, b| step_cff(cx, b), &wit);
}

pub enum Wr2 {
    Ok(Vec<u8>),
    Err(allsorts::error::WriteError),
}

// ---------------------------------------------------------------------------------------------
// CFF2: generator
// ---------------------------------------------------------------------------------------------

#[derive(Clone, Debug)]
pub struct Cff2Ast {
    pub minor: u8,
    pub hdr_extra: usize,
    pub font_matrix: Option<Vec<Opnd>>,
    pub gsubrs: Vec<Vec<u8>>,
    pub charstrings: Vec<Vec<u8>>,
    pub fds: Vec<PrivAst>,
    pub fdselect: Option<FdSelectAst>,
    pub vstore: Option<IvsAst>,
    pub index_off_size: u8,
}

pub fn gen_cff2(rng: &mut Rng) -> Cff2Ast {
    let nfd = match rng.below(3) {
        0 => 1,
        _ => 1 + rng.small(3),
    };
    let n_glyphs = rng.small(30);
    let charstrings: Vec<Vec<u8>> = (0..n_glyphs).map(|_| { let l = rng.small(12); rng.bytes(l) }).collect();
    Cff2Ast {
        minor: if rng.bool() { 0 } else { rng.u8() },
        hdr_extra: if rng.chance(1, 4) { 1 + rng.below(6) } else { 0 },
        font_matrix: match rng.below(3) {
            0 => None,
            1 => default_operands(rng, DictKind::Cff2Top, 0x0C07),
            _ => Some((0..6).map(|_| gen_opnd(rng)).collect()),
        },
        gsubrs: gen_small_objects(rng, 8),
        charstrings,
        fds: (0..nfd).map(|_| gen_priv(rng, DictKind::Cff2Private)).collect(),
        fdselect: if nfd > 1 { Some(gen_fdselect(rng, n_glyphs, nfd)) } else { None },
        vstore: if rng.bool() { Some(gen_ivs(rng)) } else { None },
        index_off_size: *rng.pick(&[0u8, 0, 0, 1, 2, 3, 4]),
    }
}

impl Cff2Ast {
    fn top(&self, cs: usize, fda: usize, fds: usize, vs: usize) -> DictAst {
        let mut d: DictAst = Vec::new();
        if let Some(m) = &self.font_matrix {
            d.push((0x0C07, m.clone()));
        }
        d.push((17, vec![off(cs)]));
        d.push((0x0C24, vec![off(fda)]));
        if self.fdselect.is_some() {
            d.push((0x0C25, vec![off(fds)]));
        }
        if self.vstore.is_some() {
            d.push((24, vec![off(vs)]));
        }
        d
    }

    pub fn bytes(&self) -> Vec<u8> {
        let ios = self.index_off_size;
        let top_len = enc_dict(&self.top(0, 0, 0, 0)).len();
        let mut out = vec![2, self.minor, (5 + self.hdr_extra) as u8];
        out.extend_from_slice(&(top_len as u16).to_be_bytes());
        out.extend(std::iter::repeat(0xCC).take(self.hdr_extra));
        let top_at = out.len();
        out.extend(std::iter::repeat(0).take(top_len));
        out.extend(enc_index(&self.gsubrs, ios, true));
        let cs = out.len();
        out.extend(enc_index(&self.charstrings, ios, true));
        let mut fdsel = 0;
        if let Some(s) = &self.fdselect {
            fdsel = out.len();
            out.extend(s.bytes());
        }
        let mut fd_objs = Vec::new();
        for p in &self.fds {
            let (pd, subrs) = build_priv(p, ios, true);
            fd_objs.push(enc_dict(&vec![(18, vec![off(pd.len()), off(out.len())])]));
            out.extend(pd);
            out.extend(subrs);
        }
        let fda = out.len();
        out.extend(enc_index(&fd_objs, ios, true));
        let mut vs = 0;
        if let Some(v) = &self.vstore {
            vs = out.len();
            let b = v.bytes();
            out.extend_from_slice(&(b.len() as u16).to_be_bytes());
            out.extend(b);
        }
        let top = enc_dict(&self.top(cs, fda, fdsel, vs));
        if top.len() == top_len {
            out[top_at..top_at + top_len].copy_from_slice(&top);
        }
        out
    }
}

pub fn rt_cff2(cx: &mut Ctx, rng: &mut Rng) {
    let ast = gen_cff2(rng);
    let bytes = ast.bytes();
    let wit = || J::obj(vec![("cff2", J::s(format!("{:?}", ast).chars().take(4000).collect::<String>())), ("bytes", trunc_hex(&bytes))]);
    // reading half: a few directly checkable facts against the description
    let first = step_cff2(cx, &bytes);
    match &first {
        Step::Panic => return,
        Step::ParseErr(e) => {
            cx.violation("rt-reparse-error", &format!("cff2:generator-bytes:{}", e), wit());
            return;
        }
        Step::Parsed { fp, .. } => {
            let get = |k: &str| fp.iter().find(|(n, _)| n == k).map(|(_, v)| v.clone());
            let ok = get("fonts") == Some(ast.fds.len().to_string())
                && get("charstrings.count") == Some(ast.charstrings.len().to_string())
                && get("gsubr.count") == Some(ast.gsubrs.len().to_string())
                && (get("vstore") == Some("none".to_string())) == ast.vstore.is_none();
            if !ok {
                cx.violation("rt-differs", "cff2:read:counts", J::obj(vec![("parsed", fp_json(fp)), ("case", wit())]));
                return;
            }
        }
    }
    cx.class(if ast.vstore.is_some() { "rt:cff2:with-vstore" } else { "rt:cff2:no-vstore" });
    if ast.fds.iter().any(|p| p.subrs.is_some()) {
        cx.class("rt:cff2:with-local-subrs");
    }
    if ast.fds.len() > 1 {
        cx.class("rt:cff2:fdselect");
    }
    // the tag names the optional parts present, so that independent defects get distinct signatures
    let tag = format!("CFF2(generated{}{})", if ast.vstore.is_some() { ",vstore" } else { "" }, if ast.fds.iter().any(|p| p.subrs.is_some()) { ",local-subrs" } else { "" });
    stability(cx, &tag, true, &bytes, &mut |cx, b| step_cff2(cx, b), &wit);
    cx.class("rt:cff2");
}

pub fn overflow_ivs(cx: &mut Ctx, rng: &mut Rng) {
    // region count: 15 bits; itemVariationDataCount: 16 bits. Both bounded by the value types
    // (ReadArray lengths come from u16 fields), so the reachable overflow is the region-list offset
    // and sub-table offsets, which are 32-bit in the format.
    let mut ast = gen_ivs(rng);
    ast.axis_count = 1;
    let n = *rng.pick(&[10_900usize, 10_922, 10_923, 20_000, 32_767]);
    ast.regions = (0..n).map(|i| vec![(-(i as i16 & 0x3fff), 0, i as i16 & 0x3fff)]).collect();
    for d in &mut ast.data {
        for r in &mut d.region_indexes {
            *r %= n as u16;
        }
    }
    let bytes = ast.bytes();
    // expected: whatever the parse of the generator bytes shows
    let parsed = step_ivs(cx, &bytes);
    if let Step::Parsed { fp, out } = parsed {
        expect_refused_or_exact(cx, "ivs-large-region-list", &fp, out, &mut |cx, b| rd_of(step_ivs(cx, b)), &|| J::obj(vec![("regions", J::U(n as u64)), ("region_list_bytes", J::U((4 + 6 * n) as u64))]));
    }
}
