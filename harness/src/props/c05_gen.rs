//! C05 generator: abstract description (AST) of GDEF / GPOS / kern (+ a one-lookup GSUB used only to
//! form ligatures) and an INDEPENDENT binary writer for them. Shares no code with allsorts and
//! nothing with the C04 GSUB writer. The reference model (c05_model.rs) is evaluated on these
//! types, never on the bytes.

use crate::rt::Rng;
use std::collections::BTreeMap;

// ---------------------------------------------------------------------------------------------
// Serialiser: objects with 16/32-bit offsets to children, offsets relative to the parent start
// ---------------------------------------------------------------------------------------------

#[derive(Clone, Debug, Default)]
pub struct Obj {
    pub b: Vec<u8>,
    links: Vec<(usize, usize, bool)>, // (position, kid, 32-bit)
    kids: Vec<Obj>,
    pub rev: bool,
}

impl Obj {
    pub fn new() -> Obj {
        Obj::default()
    }
    pub fn u16(&mut self, v: u16) -> &mut Self {
        self.b.extend_from_slice(&v.to_be_bytes());
        self
    }
    pub fn i16(&mut self, v: i16) -> &mut Self {
        self.b.extend_from_slice(&v.to_be_bytes());
        self
    }
    pub fn u32(&mut self, v: u32) -> &mut Self {
        self.b.extend_from_slice(&v.to_be_bytes());
        self
    }
    pub fn kid(&mut self, k: Obj) -> usize {
        self.kids.push(k);
        self.kids.len() - 1
    }
    /// Offset16 to an already registered child.
    pub fn link_to(&mut self, kid: usize) -> &mut Self {
        self.links.push((self.b.len(), kid, false));
        self.b.extend_from_slice(&[0, 0]);
        self
    }
    pub fn link(&mut self, k: Obj) -> &mut Self {
        let id = self.kid(k);
        self.link_to(id)
    }
    pub fn link32(&mut self, k: Obj) -> &mut Self {
        let id = self.kid(k);
        self.links.push((self.b.len(), id, true));
        self.b.extend_from_slice(&[0, 0, 0, 0]);
        self
    }
    pub fn null(&mut self) -> &mut Self {
        self.u16(0)
    }
    pub fn build(&self) -> Result<Vec<u8>, String> {
        let mut out = self.b.clone();
        let order: Vec<usize> = if self.rev { (0..self.kids.len()).rev().collect() } else { (0..self.kids.len()).collect() };
        for k in order {
            let bytes = self.kids[k].build()?;
            let off = out.len();
            let mut used = false;
            for &(pos, kid, wide) in &self.links {
                if kid != k {
                    continue;
                }
                used = true;
                if wide {
                    out[pos..pos + 4].copy_from_slice(&(off as u32).to_be_bytes());
                } else {
                    if off > 0xFFFF {
                        return Err("offset16 overflow".to_string());
                    }
                    out[pos..pos + 2].copy_from_slice(&(off as u16).to_be_bytes());
                }
            }
            if used {
                out.extend_from_slice(&bytes);
            }
        }
        Ok(out)
    }
}

// ---------------------------------------------------------------------------------------------
// Common layout pieces
// ---------------------------------------------------------------------------------------------

#[derive(Clone, Debug, PartialEq)]
pub struct Cov {
    pub glyphs: Vec<u16>, // sorted, unique; coverage index = position
    pub fmt: u8,          // 1 = glyph list, 2 = maximal ranges, 3 = format 2 with one range per glyph
}

impl Cov {
    pub fn new(mut glyphs: Vec<u16>, fmt: u8) -> Cov {
        glyphs.sort_unstable();
        glyphs.dedup();
        Cov { glyphs, fmt }
    }
    pub fn index(&self, g: u16) -> Option<usize> {
        self.glyphs.binary_search(&g).ok()
    }
    pub fn obj(&self) -> Obj {
        let mut o = Obj::new();
        if self.fmt == 1 {
            o.u16(1).u16(self.glyphs.len() as u16);
            for &g in &self.glyphs {
                o.u16(g);
            }
        } else {
            let mut ranges: Vec<(u16, u16, u16)> = Vec::new();
            for (i, &g) in self.glyphs.iter().enumerate() {
                match ranges.last_mut() {
                    Some(r) if self.fmt == 2 && r.1 + 1 == g => r.1 = g,
                    _ => ranges.push((g, g, i as u16)),
                }
            }
            o.u16(2).u16(ranges.len() as u16);
            for (s, e, i) in ranges {
                o.u16(s).u16(e).u16(i);
            }
        }
        o
    }
}

#[derive(Clone, Debug, PartialEq, Default)]
pub struct ClassDef {
    pub map: BTreeMap<u16, u16>, // glyph -> class (non-zero entries only)
    pub fmt: u8,                 // 1 = array, 2 = ranges
}

impl ClassDef {
    pub fn class(&self, g: u16) -> u16 {
        self.map.get(&g).copied().unwrap_or(0)
    }
    pub fn obj(&self) -> Obj {
        let mut o = Obj::new();
        if self.fmt == 1 {
            let (lo, hi) = match (self.map.keys().next(), self.map.keys().next_back()) {
                (Some(&l), Some(&h)) => (l, h),
                _ => {
                    o.u16(1).u16(0).u16(0);
                    return o;
                }
            };
            o.u16(1).u16(lo).u16(hi - lo + 1);
            for g in lo..=hi {
                o.u16(self.class(g));
            }
        } else {
            let mut ranges: Vec<(u16, u16, u16)> = Vec::new();
            for (&g, &c) in &self.map {
                match ranges.last_mut() {
                    Some(r) if r.1 + 1 == g && r.2 == c => r.1 = g,
                    _ => ranges.push((g, g, c)),
                }
            }
            o.u16(2).u16(ranges.len() as u16);
            for (s, e, c) in ranges {
                o.u16(s).u16(e).u16(c);
            }
        }
        o
    }
}

/// A hinting Device table (deltaFormat 1, one word): valid, and irrelevant at design-unit scale.
fn device_obj() -> Obj {
    let mut o = Obj::new();
    o.u16(12).u16(12).u16(1).u16(0x4000);
    o
}

// ---------------------------------------------------------------------------------------------
// GPOS AST
// ---------------------------------------------------------------------------------------------

#[derive(Clone, Copy, Debug, Default, PartialEq)]
pub struct Val {
    pub xp: i16,
    pub yp: i16,
    pub xa: i16,
    pub ya: i16,
}

impl Val {
    /// The record as it is seen through `vf` (fields without a format bit do not exist).
    pub fn masked(&self, vf: u16) -> Val {
        Val {
            xp: if vf & 1 != 0 { self.xp } else { 0 },
            yp: if vf & 2 != 0 { self.yp } else { 0 },
            xa: if vf & 4 != 0 { self.xa } else { 0 },
            ya: if vf & 8 != 0 { self.ya } else { 0 },
        }
    }
}

#[derive(Clone, Copy, Debug, PartialEq)]
pub struct Anchor {
    pub x: i16,
    pub y: i16,
    pub fmt: u8,   // 1, 2, 3
    pub dev: bool, // format 3: device offsets non-null (hinting device tables)
}

impl Anchor {
    fn obj(&self) -> Obj {
        let mut o = Obj::new();
        o.u16(self.fmt as u16).i16(self.x).i16(self.y);
        match self.fmt {
            2 => {
                o.u16(3);
            }
            3 => {
                if self.dev {
                    let d = o.kid(device_obj());
                    o.link_to(d).null();
                } else {
                    o.null().null();
                }
            }
            _ => {}
        }
        o
    }
}

#[derive(Clone, Debug, Default)]
pub struct Rule {
    pub back: Vec<u16>,  // closest first (as stored in the font)
    pub input: Vec<u16>, // WITHOUT the first glyph/class (formats 1, 2)
    pub look: Vec<u16>,
    pub recs: Vec<(u16, u16)>, // (sequence index, lookup index)
}

#[derive(Clone, Debug)]
pub enum Sub {
    Single1 { cov: Cov, vf: u16, v: Val, dev: bool },
    Single2 { cov: Cov, vf: u16, vals: Vec<Val>, dev: bool },
    Pair1 { cov: Cov, vf1: u16, vf2: u16, sets: Vec<Vec<(u16, Val, Val)>>, dev: bool },
    Pair2 { cov: Cov, vf1: u16, vf2: u16, cd1: ClassDef, cd2: ClassDef, n1: usize, n2: usize, m: Vec<Vec<(Val, Val)>>, dev: bool },
    Cursive { cov: Cov, recs: Vec<(Option<Anchor>, Option<Anchor>)> }, // (entry, exit)
    /// MarkBasePos and MarkMarkPos (same layout)
    MarkBase { mcov: Cov, bcov: Cov, nclass: usize, marks: Vec<(u16, Anchor)>, bases: Vec<Vec<Option<Anchor>>> },
    MarkLig { mcov: Cov, lcov: Cov, nclass: usize, marks: Vec<(u16, Anchor)>, ligs: Vec<Vec<Vec<Option<Anchor>>>> },
    Ctx1 { chain: bool, cov: Cov, sets: Vec<Vec<Rule>> },
    Ctx2 { chain: bool, cov: Cov, bcd: ClassDef, icd: ClassDef, lcd: ClassDef, sets: Vec<Option<Vec<Rule>>> },
    Ctx3 { chain: bool, back: Vec<Cov>, input: Vec<Cov>, look: Vec<Cov>, recs: Vec<(u16, u16)> },
}

#[derive(Clone, Debug)]
pub struct Lookup {
    pub ltype: u8, // 1..=8
    pub flag: u16,
    pub mset: Option<u16>,
    pub subs: Vec<Sub>,
    pub ext: bool,
}

#[derive(Clone, Debug)]
pub struct ScriptRec {
    pub tag: u32,
    pub default: Option<Vec<u16>>, // feature indices of the default LangSys
    pub langs: Vec<(u32, Vec<u16>)>,
}

#[derive(Clone, Debug)]
pub struct Layout {
    pub minor: u16,
    pub scripts: Vec<ScriptRec>,
    pub features: Vec<(u32, Vec<u16>)>,
    pub lookups: Vec<Lookup>,
}

pub const F_RTL: u16 = 1;
pub const F_IGN_BASE: u16 = 2;
pub const F_IGN_LIG: u16 = 4;
pub const F_IGN_MARK: u16 = 8;
pub const F_MFS: u16 = 0x10;

fn write_val(o: &mut Obj, vf: u16, v: &Val, dev: Option<usize>) {
    if vf & 1 != 0 {
        o.i16(v.xp);
    }
    if vf & 2 != 0 {
        o.i16(v.yp);
    }
    if vf & 4 != 0 {
        o.i16(v.xa);
    }
    if vf & 8 != 0 {
        o.i16(v.ya);
    }
    for bit in 4..8 {
        if vf & (1 << bit) != 0 {
            match dev {
                Some(k) => {
                    o.link_to(k);
                }
                None => {
                    o.null();
                }
            }
        }
    }
}

fn write_recs(o: &mut Obj, recs: &[(u16, u16)]) {
    for &(s, l) in recs {
        o.u16(s).u16(l);
    }
}

fn mark_array_obj(marks: &[(u16, Anchor)]) -> Obj {
    let mut o = Obj::new();
    o.u16(marks.len() as u16);
    for (c, a) in marks {
        o.u16(*c);
        o.link(a.obj());
    }
    o
}

fn anchor_matrix(o: &mut Obj, rows: &[Vec<Option<Anchor>>]) {
    for r in rows {
        for a in r {
            match a {
                Some(a) => {
                    o.link(a.obj());
                }
                None => {
                    o.null();
                }
            }
        }
    }
}

impl Sub {
    pub fn obj(&self) -> Obj {
        let mut o = Obj::new();
        match self {
            Sub::Single1 { cov, vf, v, dev } => {
                o.u16(1).link(cov.obj()).u16(*vf);
                let d = if *dev && vf & 0xF0 != 0 { Some(o.kid(device_obj())) } else { None };
                write_val(&mut o, *vf, v, d);
            }
            Sub::Single2 { cov, vf, vals, dev } => {
                o.u16(2).link(cov.obj()).u16(*vf).u16(vals.len() as u16);
                let d = if *dev && vf & 0xF0 != 0 { Some(o.kid(device_obj())) } else { None };
                for v in vals {
                    write_val(&mut o, *vf, v, d);
                }
            }
            Sub::Pair1 { cov, vf1, vf2, sets, dev } => {
                o.u16(1).link(cov.obj()).u16(*vf1).u16(*vf2).u16(sets.len() as u16);
                for set in sets {
                    let mut ps = Obj::new();
                    ps.u16(set.len() as u16);
                    let d = if *dev && (vf1 | vf2) & 0xF0 != 0 { Some(ps.kid(device_obj())) } else { None };
                    for (g2, v1, v2) in set {
                        ps.u16(*g2);
                        write_val(&mut ps, *vf1, v1, d);
                        write_val(&mut ps, *vf2, v2, d);
                    }
                    o.link(ps);
                }
            }
            Sub::Pair2 { cov, vf1, vf2, cd1, cd2, n1, n2, m, dev } => {
                o.u16(2).link(cov.obj()).u16(*vf1).u16(*vf2);
                o.link(cd1.obj()).link(cd2.obj()).u16(*n1 as u16).u16(*n2 as u16);
                let d = if *dev && (vf1 | vf2) & 0xF0 != 0 { Some(o.kid(device_obj())) } else { None };
                for row in m {
                    for (v1, v2) in row {
                        write_val(&mut o, *vf1, v1, d);
                        write_val(&mut o, *vf2, v2, d);
                    }
                }
            }
            Sub::Cursive { cov, recs } => {
                o.u16(1).link(cov.obj()).u16(recs.len() as u16);
                for (en, ex) in recs {
                    for a in [en, ex] {
                        match a {
                            Some(a) => {
                                o.link(a.obj());
                            }
                            None => {
                                o.null();
                            }
                        }
                    }
                }
            }
            Sub::MarkBase { mcov, bcov, nclass, marks, bases } => {
                o.u16(1).link(mcov.obj()).link(bcov.obj()).u16(*nclass as u16);
                o.link(mark_array_obj(marks));
                let mut ba = Obj::new();
                ba.u16(bases.len() as u16);
                anchor_matrix(&mut ba, bases);
                o.link(ba);
            }
            Sub::MarkLig { mcov, lcov, nclass, marks, ligs } => {
                o.u16(1).link(mcov.obj()).link(lcov.obj()).u16(*nclass as u16);
                o.link(mark_array_obj(marks));
                let mut la = Obj::new();
                la.u16(ligs.len() as u16);
                for comps in ligs {
                    let mut att = Obj::new();
                    att.u16(comps.len() as u16);
                    anchor_matrix(&mut att, comps);
                    la.link(att);
                }
                o.link(la);
            }
            Sub::Ctx1 { chain, cov, sets } => {
                o.u16(1).link(cov.obj()).u16(sets.len() as u16);
                for set in sets {
                    let mut so = Obj::new();
                    so.u16(set.len() as u16);
                    for r in set {
                        so.link(rule_obj(r, *chain));
                    }
                    o.link(so);
                }
            }
            Sub::Ctx2 { chain, cov, bcd, icd, lcd, sets } => {
                o.u16(2).link(cov.obj());
                if *chain {
                    o.link(bcd.obj()).link(icd.obj()).link(lcd.obj());
                } else {
                    o.link(icd.obj());
                }
                o.u16(sets.len() as u16);
                for set in sets {
                    match set {
                        None => {
                            o.null();
                        }
                        Some(set) => {
                            let mut so = Obj::new();
                            so.u16(set.len() as u16);
                            for r in set {
                                so.link(rule_obj(r, *chain));
                            }
                            o.link(so);
                        }
                    }
                }
            }
            Sub::Ctx3 { chain, back, input, look, recs } => {
                o.u16(3);
                if *chain {
                    o.u16(back.len() as u16);
                    for c in back {
                        o.link(c.obj());
                    }
                    o.u16(input.len() as u16);
                    for c in input {
                        o.link(c.obj());
                    }
                    o.u16(look.len() as u16);
                    for c in look {
                        o.link(c.obj());
                    }
                    o.u16(recs.len() as u16);
                } else {
                    o.u16(input.len() as u16).u16(recs.len() as u16);
                    for c in input {
                        o.link(c.obj());
                    }
                }
                write_recs(&mut o, recs);
            }
        }
        o
    }
}

fn rule_obj(r: &Rule, chain: bool) -> Obj {
    let mut o = Obj::new();
    if chain {
        o.u16(r.back.len() as u16);
        for &g in &r.back {
            o.u16(g);
        }
        o.u16(r.input.len() as u16 + 1);
        for &g in &r.input {
            o.u16(g);
        }
        o.u16(r.look.len() as u16);
        for &g in &r.look {
            o.u16(g);
        }
        o.u16(r.recs.len() as u16);
    } else {
        o.u16(r.input.len() as u16 + 1).u16(r.recs.len() as u16);
        for &g in &r.input {
            o.u16(g);
        }
    }
    write_recs(&mut o, &r.recs);
    o
}

impl Lookup {
    fn obj(&self, ext_type: u16, sub_objs: Vec<Obj>) -> Obj {
        let mut o = Obj::new();
        o.u16(if self.ext { ext_type } else { self.ltype as u16 }).u16(self.flag).u16(sub_objs.len() as u16);
        let mut ids = Vec::new();
        for s in sub_objs {
            let s = if self.ext {
                let mut e = Obj::new();
                e.u16(1).u16(self.ltype as u16).link32(s);
                e
            } else {
                s
            };
            ids.push(o.kid(s));
        }
        for id in ids {
            o.link_to(id);
        }
        if self.flag & F_MFS != 0 {
            o.u16(self.mset.unwrap_or(0));
        }
        o
    }
}

/// ScriptList / FeatureList / LookupList header shared by GPOS and GSUB.
fn layout_obj(l: &Layout, ext_type: u16, lookup_subs: Vec<Vec<Obj>>, rev: bool) -> Obj {
    let mut o = Obj::new();
    o.rev = rev;
    o.u16(1).u16(l.minor);
    // script list
    let mut sl = Obj::new();
    let mut scripts = l.scripts.clone();
    scripts.sort_by_key(|s| s.tag);
    sl.u16(scripts.len() as u16);
    for s in &scripts {
        let mut so = Obj::new();
        let langsys = |f: &Vec<u16>| {
            let mut lo = Obj::new();
            lo.u16(0).u16(0xFFFF).u16(f.len() as u16);
            for &i in f {
                lo.u16(i);
            }
            lo
        };
        match &s.default {
            Some(f) => {
                so.link(langsys(f));
            }
            None => {
                so.null();
            }
        }
        let mut langs = s.langs.clone();
        langs.sort_by_key(|x| x.0);
        so.u16(langs.len() as u16);
        for (t, f) in &langs {
            so.u32(*t).link(langsys(f));
        }
        sl.u32(s.tag).link(so);
    }
    // feature list
    let mut fl = Obj::new();
    fl.u16(l.features.len() as u16);
    for (t, idx) in &l.features {
        let mut fo = Obj::new();
        fo.u16(0).u16(idx.len() as u16);
        for &i in idx {
            fo.u16(i);
        }
        fl.u32(*t).link(fo);
    }
    // lookup list
    let mut ll = Obj::new();
    ll.u16(l.lookups.len() as u16);
    for (lk, subs) in l.lookups.iter().zip(lookup_subs) {
        ll.link(lk.obj(ext_type, subs));
    }
    o.link(sl).link(fl).link(ll);
    if l.minor >= 1 {
        o.u32(0);
    }
    o
}

pub fn write_gpos(l: &Layout, rev: bool) -> Result<Vec<u8>, String> {
    let subs: Vec<Vec<Obj>> = l.lookups.iter().map(|lk| lk.subs.iter().map(|s| s.obj()).collect()).collect();
    layout_obj(l, 9, subs, rev).build()
}

// ---------------------------------------------------------------------------------------------
// GSUB with ligature lookups only (used to give marks an unambiguous ligature component)
// ---------------------------------------------------------------------------------------------

#[derive(Clone, Debug)]
pub struct LigaRule {
    pub comps: Vec<u16>, // all components, >= 2
    pub lig: u16,
}

pub fn write_gsub_liga(rules: &[LigaRule], script_tags: &[u32], feature: u32) -> Result<Vec<u8>, String> {
    let mut firsts: Vec<u16> = rules.iter().map(|r| r.comps[0]).collect();
    firsts.sort_unstable();
    firsts.dedup();
    let cov = Cov::new(firsts.clone(), 1);
    let mut st = Obj::new();
    st.u16(1).link(cov.obj()).u16(firsts.len() as u16);
    for f in &firsts {
        let set: Vec<&LigaRule> = rules.iter().filter(|r| r.comps[0] == *f).collect();
        let mut so = Obj::new();
        so.u16(set.len() as u16);
        for r in set {
            let mut lo = Obj::new();
            lo.u16(r.lig).u16(r.comps.len() as u16);
            for &c in &r.comps[1..] {
                lo.u16(c);
            }
            so.link(lo);
        }
        st.link(so);
    }
    let l = Layout {
        minor: 0,
        scripts: script_tags.iter().map(|&t| ScriptRec { tag: t, default: Some(vec![0]), langs: vec![] }).collect(),
        features: vec![(feature, vec![0])],
        lookups: vec![Lookup { ltype: 4, flag: F_IGN_MARK, mset: None, subs: vec![], ext: false }],
    };
    layout_obj(&l, 7, vec![vec![st]], false).build()
}

// ---------------------------------------------------------------------------------------------
// GDEF
// ---------------------------------------------------------------------------------------------

#[derive(Clone, Debug)]
pub struct Universe {
    pub n: u16,
    pub class: Vec<u8>,       // GDEF glyph class as written: 0 none, 1 base, 2 ligature, 3 mark, 4 component
    pub intent: Vec<u8>,      // what the glyph is meant to be (generation only; never read by the model)
    pub has_classdef: bool,   // GDEF carries a glyph class definition
    pub mac: Vec<u8>,         // mark attachment class (0 = none)
    pub sets: Vec<Vec<u16>>,  // mark glyph sets
    pub adv: Vec<u16>,        // hmtx advance widths
    pub has_gdef: bool,
    pub gdef_minor: u16,      // 0, 2, 3
    pub class_fmt: u8,
    pub mac_fmt: u8,
}

impl Universe {
    pub fn of_class(&self, c: u8) -> Vec<u16> {
        (1..self.n).filter(|&g| self.intent[g as usize] == c).collect()
    }
    pub fn cls(&self, g: u16) -> u8 {
        if self.has_gdef && self.has_classdef {
            self.class.get(g as usize).copied().unwrap_or(0)
        } else {
            0
        }
    }
    pub fn is_mark(&self, g: u16) -> bool {
        self.cls(g) == 3
    }
    pub fn write_gdef(&self) -> Result<Vec<u8>, String> {
        let mut o = Obj::new();
        o.u16(1).u16(self.gdef_minor);
        let mut cd = ClassDef { map: BTreeMap::new(), fmt: self.class_fmt };
        let mut md = ClassDef { map: BTreeMap::new(), fmt: self.mac_fmt };
        for g in 0..self.n {
            if self.class[g as usize] != 0 {
                cd.map.insert(g, self.class[g as usize] as u16);
            }
            if self.mac[g as usize] != 0 {
                md.map.insert(g, self.mac[g as usize] as u16);
            }
        }
        if self.has_classdef {
            o.link(cd.obj());
        } else {
            o.null();
        }
        o.null().null();
        if md.map.is_empty() {
            o.null();
        } else {
            o.link(md.obj());
        }
        if self.gdef_minor >= 2 {
            if self.sets.is_empty() {
                o.null();
            } else {
                let mut ms = Obj::new();
                ms.u16(1).u16(self.sets.len() as u16);
                for s in &self.sets {
                    ms.link32(Cov::new(s.clone(), 1 + (s.len() % 2) as u8).obj());
                }
                o.link(ms);
            }
        }
        if self.gdef_minor >= 3 {
            o.u32(0);
        }
        o.build()
    }
}

// ---------------------------------------------------------------------------------------------
// kern
// ---------------------------------------------------------------------------------------------

#[derive(Clone, Debug)]
pub enum KernData {
    F0 { pairs: BTreeMap<(u16, u16), i16> },
    /// class tables + matrix; row 0 / column 0 (class 0 = out of range) are all zero
    F2 { lfirst: u16, lclass: Vec<u16>, rfirst: u16, rclass: Vec<u16>, rows: usize, cols: usize, m: Vec<Vec<i16>> },
}

pub const K_HORIZ: u16 = 1;
pub const K_MIN: u16 = 2;
pub const K_CROSS: u16 = 4;
pub const K_OVERRIDE: u16 = 8;

#[derive(Clone, Debug)]
pub struct KernSub {
    pub cov: u16, // low byte flags
    pub data: KernData,
}

#[derive(Clone, Debug)]
pub struct Kern {
    pub subs: Vec<KernSub>,
}

impl Kern {
    /// `left_incl_array`: format 2 left-class values include the offset of the array from the
    /// start of the subtable (Apple / HarfBuzz reading) or not (values relative to the array).
    pub fn write(&self, left_incl_array: bool) -> Vec<u8> {
        let mut w = crate::sfnt::W::new();
        w.u16(0).u16(self.subs.len() as u16);
        for s in &self.subs {
            let mut b = crate::sfnt::W::new();
            match &s.data {
                KernData::F0 { pairs } => {
                    let n = pairs.len() as u16;
                    let (sr, es, rs) = crate::sfnt::search_fields(n, 6);
                    b.u16(n).u16(sr).u16(es).u16(rs);
                    for (&(l, r), &v) in pairs {
                        b.u16(l).u16(r).i16(v);
                    }
                    w.u16(0).u16((6 + b.len()) as u16).u16(s.cov & 0xFF);
                }
                KernData::F2 { lfirst, lclass, rfirst, rclass, rows, cols, m } => {
                    let row_width = (cols * 2) as u16;
                    let loff = 6 + 8;
                    let roff = loff + 4 + 2 * lclass.len();
                    let aoff = roff + 4 + 2 * rclass.len();
                    b.u16(row_width).u16(loff as u16).u16(roff as u16).u16(aoff as u16);
                    b.u16(*lfirst).u16(lclass.len() as u16);
                    for &c in lclass {
                        b.u16(c * row_width + if left_incl_array { aoff as u16 } else { 0 });
                    }
                    b.u16(*rfirst).u16(rclass.len() as u16);
                    for &c in rclass {
                        b.u16(c * 2);
                    }
                    for r in 0..*rows {
                        for c in 0..*cols {
                            b.i16(m[r][c]);
                        }
                    }
                    // slack so that an implementation that bounds the array by
                    // rowWidth * (glyphs in the right class table) still finds it inside the table
                    for _ in 0..(rclass.len() * cols + aoff) {
                        b.i16(0);
                    }
                    w.u16(0).u16((6 + b.len()) as u16).u16((s.cov & 0xFF) | 0x200);
                }
            }
            w.bytes(&b.b);
        }
        w.b
    }
}

// ---------------------------------------------------------------------------------------------
// Random generation
// ---------------------------------------------------------------------------------------------

#[derive(Clone, Copy, Debug, PartialEq)]
pub enum Scenario {
    Adjust,   // single / pair lookups (additive)
    Marks,    // mark-to-base / ligature / mark (+ adjustments)
    Cursive,  // cursive attachment (+ marks)
    Context,  // (chain) context with nested single / pair lookups
    KernFallback,
    KernOnly,
    Mixed,
}

pub struct Opts {
    pub wide: bool,
    pub mfs: bool, // generate UseMarkFilteringSet lookups
    pub only: Option<Scenario>,
}

pub struct Case {
    pub scenario: Scenario,
    pub uni: Universe,
    pub gpos: Option<Layout>,
    pub kern: Option<Kern>,
    pub liga: Vec<LigaRule>,
    pub gsub_scripts: Vec<u32>,
    pub script: u32,
    pub lang: Option<u32>,
    pub custom: Vec<u32>, // Features::Custom tags
    pub kerning: bool,
    pub direct: bool, // drive gpos::apply_features directly instead of Font::shape
    pub input: Vec<u16>,
    pub hints: Vec<Vec<u16>>,
    pub rev_layout: bool,
    pub wide_reasons: Vec<&'static str>,
}

pub fn tag(s: &str) -> u32 {
    crate::sfnt::tag(s)
}

fn pick_n(rng: &mut Rng, pool: &[u16], n: usize) -> Vec<u16> {
    let mut p = pool.to_vec();
    rng.shuffle(&mut p);
    p.truncate(n.min(pool.len()));
    p
}

fn cov_fmt(rng: &mut Rng) -> u8 {
    1 + rng.below(3) as u8
}

/// `declass`: 0 = GDEF classes every glyph as meant, 1 = GDEF without glyph class definition,
/// 2 = some marks are left unclassified or classed as base glyphs
fn gen_universe(rng: &mut Rng, opts: &Opts, has_gdef: bool, declass: u8) -> Universe {
    let n = rng.urange(20, 48) as u16;
    let mut class = vec![0u8; n as usize];
    let mut mac = vec![0u8; n as usize];
    let mut adv = vec![0u16; n as usize];
    let wide_marks = opts.wide && rng.chance(1, 2);
    for g in 1..n {
        let r = rng.below(100);
        class[g as usize] = if r < 40 {
            1
        } else if r < 52 {
            2
        } else if r < 84 {
            3
        } else if r < 88 {
            4
        } else {
            0
        };
        adv[g as usize] = 300 + 31 * g;
        if class[g as usize] == 3 {
            mac[g as usize] = rng.below(4) as u8;
            adv[g as usize] = if wide_marks && rng.chance(1, 2) { 20 + 7 * g } else { 0 };
        }
    }
    adv[0] = 500;
    let intent = class.clone();
    if declass == 2 {
        for g in 1..n as usize {
            if class[g] == 3 && rng.chance(1, 3) {
                class[g] = if rng.bool() { 0 } else { 1 };
                mac[g] = 0;
            }
        }
    }
    let marks: Vec<u16> = (1..n).filter(|&g| class[g as usize] == 3).collect();
    let mut sets = Vec::new();
    for _ in 0..rng.below(4) {
        let k = rng.urange(0, marks.len().min(6));
        sets.push(Cov::new(pick_n(rng, &marks, k), 1).glyphs);
    }
    let gdef_minor = if sets.is_empty() { *rng.pick(&[0u16, 0, 2, 3]) } else { *rng.pick(&[2u16, 3]) };
    Universe { n, class, intent, has_classdef: declass != 1, mac, sets, adv, has_gdef, gdef_minor, class_fmt: 1 + rng.below(2) as u8, mac_fmt: 1 + rng.below(2) as u8 }
}

fn gen_vf(rng: &mut Rng) -> u16 {
    let lo = match rng.below(10) {
        0 => 0,
        1 => 4,
        2 => 1,
        3 => 2,
        4 => 5,
        _ => rng.below(16) as u16,
    };
    let hi = if rng.chance(1, 4) { (rng.below(16) as u16) << 4 } else { 0 };
    lo | hi
}

fn gen_amount(rng: &mut Rng) -> i16 {
    let v = rng.range(-400, 400) as i16;
    if v == 0 {
        17
    } else {
        v
    }
}

fn gen_val(rng: &mut Rng, vf: u16, opts: &Opts, wide: &mut Vec<&'static str>) -> Val {
    let mut v = Val::default();
    if vf & 1 != 0 {
        v.xp = gen_amount(rng);
    }
    if vf & 2 != 0 {
        v.yp = gen_amount(rng);
    }
    if vf & 4 != 0 {
        v.xa = gen_amount(rng);
    }
    if vf & 8 != 0 && opts.wide && rng.chance(1, 6) {
        v.ya = gen_amount(rng);
        wide.push("y-advance");
    }
    if rng.chance(1, 12) {
        // a record whose selected fields are all zero
        v = Val::default();
    }
    v
}

fn gen_anchor(rng: &mut Rng) -> Anchor {
    let fmt = 1 + rng.below(3) as u8;
    Anchor { x: rng.range(-300, 900) as i16, y: rng.range(-400, 900) as i16, fmt, dev: fmt == 3 && rng.chance(1, 3) }
}

fn gen_flag(rng: &mut Rng, uni: &Universe, opts: &Opts, allow_ignores: bool) -> (u16, Option<u16>) {
    let mut f = 0u16;
    let mut mset = None;
    match rng.below(20) {
        0..=8 => {}
        9..=11 if allow_ignores => f |= F_IGN_MARK,
        12 if allow_ignores => f |= F_IGN_BASE,
        13 if allow_ignores => f |= F_IGN_LIG,
        14 if allow_ignores => f |= *rng.pick(&[F_IGN_BASE | F_IGN_LIG, F_IGN_LIG | F_IGN_MARK, F_IGN_BASE | F_IGN_MARK]),
        15..=17 => f |= (1 + rng.below(3) as u16) << 8,
        18 | 19 if opts.mfs && uni.has_gdef && !uni.sets.is_empty() && uni.gdef_minor >= 2 => {
            f |= F_MFS;
            mset = Some(rng.below(uni.sets.len()) as u16);
            if rng.chance(1, 4) {
                // a mark attachment type next to a filtering set is superseded by the set
                f |= (1 + rng.below(3) as u16) << 8;
            }
        }
        _ => {}
    }
    if rng.chance(1, 8) {
        f |= F_RTL;
    }
    (f, mset)
}

/// Would `flag` make a lookup skip glyph `g`? (generator-side helper for building hints; the
/// model has its own copy)
fn gen_skips(uni: &Universe, flag: u16, mset: Option<u16>, g: u16) -> bool {
    match uni.cls(g) {
        1 => flag & F_IGN_BASE != 0,
        2 => flag & F_IGN_LIG != 0,
        3 => {
            if flag & F_IGN_MARK != 0 {
                true
            } else if flag & F_MFS != 0 {
                !mset.and_then(|s| uni.sets.get(s as usize)).map_or(false, |s| s.contains(&g))
            } else if flag >> 8 != 0 {
                uni.mac[g as usize] as u16 != flag >> 8
            } else {
                false
            }
        }
        _ => false,
    }
}

struct Gen<'a> {
    rng: &'a mut Rng,
    uni: &'a Universe,
    opts: &'a Opts,
    hints: Vec<Vec<u16>>,
    wide: Vec<&'static str>,
    all: Vec<u16>,
    bases: Vec<u16>,
    ligs: Vec<u16>,
    marks: Vec<u16>,
    nonmarks: Vec<u16>,
}

impl<'a> Gen<'a> {
    fn new(rng: &'a mut Rng, uni: &'a Universe, opts: &'a Opts) -> Gen<'a> {
        let all: Vec<u16> = (1..uni.n).collect();
        let it = |g: u16| uni.intent[g as usize];
        let marks: Vec<u16> = all.iter().copied().filter(|&g| it(g) == 3).collect();
        let nonmarks: Vec<u16> = all.iter().copied().filter(|&g| it(g) != 3).collect();
        let bases: Vec<u16> = all.iter().copied().filter(|&g| it(g) == 1 || it(g) == 0).collect();
        let ligs: Vec<u16> = all.iter().copied().filter(|&g| it(g) == 2).collect();
        Gen { rng, uni, opts, hints: Vec::new(), wide: Vec::new(), all, bases, ligs, marks, nonmarks }
    }

    /// glyphs a lookup with these flags does not skip
    fn visible(&self, flag: u16, mset: Option<u16>, pool: &[u16]) -> Vec<u16> {
        pool.iter().copied().filter(|&g| !gen_skips(self.uni, flag, mset, g)).collect()
    }
    fn skipped(&self, flag: u16, mset: Option<u16>) -> Vec<u16> {
        self.all.iter().copied().filter(|&g| gen_skips(self.uni, flag, mset, g)).collect()
    }
    /// a hint with skipped glyphs sprinkled between its members
    fn hint(&mut self, seq: &[u16], flag: u16, mset: Option<u16>) {
        let sk = self.skipped(flag, mset);
        let mut out = Vec::new();
        for (i, &g) in seq.iter().enumerate() {
            if i > 0 && !sk.is_empty() && self.rng.chance(1, 3) {
                out.push(*self.rng.pick(&sk));
                if self.rng.chance(1, 4) {
                    out.push(*self.rng.pick(&sk));
                }
            }
            out.push(g);
        }
        self.hints.push(out);
    }

    fn single(&mut self, flag: u16, mset: Option<u16>, pool: &[u16]) -> Lookup {
        let vis = self.visible(flag, mset, pool);
        let mut subs = Vec::new();
        for _ in 0..self.rng.urange(1, 3) {
            if vis.is_empty() {
                break;
            }
            let k = self.rng.urange(1, 5);
            // sometimes the coverage also lists glyphs the lookup flags make it skip
            let src: &[u16] = if self.rng.chance(1, 3) { pool } else { &vis };
            let cov = Cov::new(pick_n(self.rng, src, k), cov_fmt(self.rng));
            let vf = gen_vf(self.rng);
            let dev = self.rng.chance(1, 3);
            for &g in &cov.glyphs.clone() {
                self.hint(&[g], flag, mset);
            }
            if self.rng.bool() {
                let v = gen_val(self.rng, vf, self.opts, &mut self.wide);
                subs.push(Sub::Single1 { cov, vf, v, dev });
            } else {
                let vals = (0..cov.glyphs.len()).map(|_| gen_val(self.rng, vf, self.opts, &mut self.wide)).collect();
                subs.push(Sub::Single2 { cov, vf, vals, dev });
            }
        }
        Lookup { ltype: 1, flag, mset, subs, ext: self.rng.chance(1, 6) }
    }

    fn pair(&mut self, flag: u16, mset: Option<u16>, pool: &[u16]) -> Lookup {
        let vis = self.visible(flag, mset, pool);
        let mut subs = Vec::new();
        for _ in 0..self.rng.urange(1, 3) {
            if vis.len() < 2 {
                break;
            }
            let vf1 = gen_vf(self.rng);
            let vf2 = if self.rng.chance(2, 5) { 0 } else { gen_vf(self.rng) };
            let dev = self.rng.chance(1, 3);
            let k = self.rng.urange(1, 4);
            let cov = Cov::new(pick_n(self.rng, &vis, k), cov_fmt(self.rng));
            if self.rng.bool() {
                let mut sets = Vec::new();
                for &g1 in &cov.glyphs.clone() {
                    let k2 = self.rng.urange(1, 4);
                    // second glyphs are drawn preferably from the covered first glyphs so that
                    // chains A B C with (A,B) and (B,C) both present are frequent
                    let mut seconds = pick_n(self.rng, &vis, k2);
                    if self.rng.bool() {
                        seconds.push(*self.rng.pick(&cov.glyphs));
                    }
                    seconds.sort_unstable();
                    seconds.dedup();
                    let mut set = Vec::new();
                    for g2 in seconds {
                        let v1 = gen_val(self.rng, vf1, self.opts, &mut self.wide);
                        let v2 = gen_val(self.rng, vf2, self.opts, &mut self.wide);
                        set.push((g2, v1, v2));
                        let mut h = vec![g1, g2];
                        if cov.index(g2).is_some() {
                            h.push(*self.rng.pick(&vis));
                        }
                        self.hint(&h, flag, mset);
                    }
                    sets.push(set);
                }
                subs.push(Sub::Pair1 { cov, vf1, vf2, sets, dev });
            } else {
                let n1 = self.rng.urange(1, 4);
                let n2 = self.rng.urange(1, 4);
                let mut cd1 = ClassDef { map: BTreeMap::new(), fmt: 1 + self.rng.below(2) as u8 };
                let mut cd2 = ClassDef { map: BTreeMap::new(), fmt: 1 + self.rng.below(2) as u8 };
                for &g in &cov.glyphs {
                    let c = self.rng.below(n1) as u16;
                    if c != 0 {
                        cd1.map.insert(g, c);
                    }
                }
                let k2 = self.rng.urange(1, 6);
                for g in pick_n(self.rng, &vis, k2) {
                    let c = self.rng.below(n2) as u16;
                    if c != 0 {
                        cd2.map.insert(g, c);
                    }
                }
                // classdef1 may also classify glyphs outside the coverage (they never match)
                if self.rng.chance(1, 3) {
                    let g = *self.rng.pick(&vis);
                    cd1.map.entry(g).or_insert(self.rng.below(n1).max(1).min(n1 - 1) as u16);
                    cd1.map.retain(|_, c| *c != 0);
                }
                let m: Vec<Vec<(Val, Val)>> = (0..n1)
                    .map(|_| (0..n2).map(|_| (gen_val(self.rng, vf1, self.opts, &mut self.wide), gen_val(self.rng, vf2, self.opts, &mut self.wide))).collect())
                    .collect();
                for &g1 in &cov.glyphs.clone() {
                    let g2 = if self.rng.bool() && !cd2.map.is_empty() {
                        let keys: Vec<u16> = cd2.map.keys().copied().collect();
                        *self.rng.pick(&keys)
                    } else {
                        *self.rng.pick(&vis)
                    };
                    let g3 = *self.rng.pick(&cov.glyphs);
                    let h = if self.rng.bool() { vec![g1, g2] } else { vec![g1, g3, g2] };
                    self.hint(&h, flag, mset);
                }
                subs.push(Sub::Pair2 { cov, vf1, vf2, cd1, cd2, n1, n2, m, dev });
            }
        }
        Lookup { ltype: 2, flag, mset, subs, ext: self.rng.chance(1, 6) }
    }

    fn cursive(&mut self, flag: u16, mset: Option<u16>) -> Lookup {
        let pool = self.nonmarks.clone();
        let mut subs = Vec::new();
        for _ in 0..self.rng.urange(1, 2) {
            let k = self.rng.urange(2, 6);
            let cov = Cov::new(pick_n(self.rng, &pool, k), cov_fmt(self.rng));
            let recs: Vec<(Option<Anchor>, Option<Anchor>)> = cov
                .glyphs
                .iter()
                .map(|_| {
                    let en = if self.rng.chance(1, 6) { None } else { Some(gen_anchor(self.rng)) };
                    let ex = if self.rng.chance(1, 6) { None } else { Some(gen_anchor(self.rng)) };
                    (en, ex)
                })
                .collect();
            for _ in 0..3 {
                let len = self.rng.urange(2, 4);
                let seq: Vec<u16> = (0..len).map(|_| *self.rng.pick(&cov.glyphs)).collect();
                // marks between cursive glyphs
                let mut out = Vec::new();
                for (i, &g) in seq.iter().enumerate() {
                    if i > 0 && !self.marks.is_empty() && self.rng.chance(1, 3) {
                        out.push(*self.rng.pick(&self.marks));
                    }
                    out.push(g);
                }
                self.hints.push(out);
            }
            subs.push(Sub::Cursive { cov, recs });
        }
        Lookup { ltype: 3, flag, mset, subs, ext: self.rng.chance(1, 6) }
    }

    fn mark_array(&mut self, mcov: &Cov, nclass: usize) -> Vec<(u16, Anchor)> {
        mcov.glyphs.iter().map(|_| (self.rng.below(nclass) as u16, gen_anchor(self.rng))).collect()
    }

    fn anchor_row(&mut self, nclass: usize) -> Vec<Option<Anchor>> {
        (0..nclass).map(|_| if self.rng.chance(1, 6) { None } else { Some(gen_anchor(self.rng)) }).collect()
    }

    fn mark_base(&mut self, flag: u16, mset: Option<u16>, to_mark: bool) -> Option<Lookup> {
        if self.marks.is_empty() {
            return None;
        }
        // mostly marks the lookup's own mark filter lets through
        let vis_marks = self.visible(flag, mset, &self.marks.clone());
        let mpool: Vec<u16> = if vis_marks.len() >= 2 && self.rng.chance(3, 4) { vis_marks } else { self.marks.clone() };
        let bpool: Vec<u16> = if to_mark { mpool.clone() } else { self.nonmarks.clone() };
        if bpool.is_empty() {
            return None;
        }
        let mut subs = Vec::new();
        for _ in 0..self.rng.urange(1, 2) {
            let nclass = self.rng.urange(1, 3);
            let km = self.rng.urange(1, 5);
            let mcov = Cov::new(pick_n(self.rng, &mpool, km), cov_fmt(self.rng));
            let kb = self.rng.urange(1, 4);
            let bcov = Cov::new(pick_n(self.rng, &bpool, kb), cov_fmt(self.rng));
            let marks = self.mark_array(&mcov, nclass);
            let bases: Vec<Vec<Option<Anchor>>> = bcov.glyphs.iter().map(|_| self.anchor_row(nclass)).collect();
            for _ in 0..3 {
                let b = *self.rng.pick(&bcov.glyphs);
                let mut h = Vec::new();
                if to_mark {
                    if !self.nonmarks.is_empty() {
                        h.push(*self.rng.pick(&self.nonmarks));
                    }
                    if self.rng.chance(1, 3) {
                        h.push(*self.rng.pick(&self.marks));
                    }
                }
                h.push(b);
                let sk: Vec<u16> = self.skipped(flag, mset).into_iter().filter(|&g| self.uni.is_mark(g)).collect();
                for _ in 0..self.rng.urange(1, 3) {
                    if !sk.is_empty() && self.rng.chance(1, 3) {
                        // a mark the lookup filters out, between the glyphs it connects
                        h.push(*self.rng.pick(&sk));
                    }
                    if self.rng.chance(1, 4) {
                        h.push(*self.rng.pick(&self.marks));
                    } else {
                        h.push(*self.rng.pick(&mcov.glyphs));
                    }
                }
                self.hints.push(h);
            }
            subs.push(Sub::MarkBase { mcov, bcov, nclass, marks, bases });
        }
        Some(Lookup { ltype: if to_mark { 6 } else { 4 }, flag, mset, subs, ext: self.rng.chance(1, 6) })
    }

    /// `comps`: number of components per ligature glyph
    fn mark_lig(&mut self, flag: u16, mset: Option<u16>, comps: &BTreeMap<u16, usize>) -> Option<Lookup> {
        if self.marks.is_empty() || self.ligs.is_empty() {
            return None;
        }
        let mut subs = Vec::new();
        for _ in 0..self.rng.urange(1, 2) {
            let nclass = self.rng.urange(1, 3);
            let km = self.rng.urange(1, 5);
            let mcov = Cov::new(pick_n(self.rng, &self.marks.clone(), km), cov_fmt(self.rng));
            let kl = self.rng.urange(1, 4);
            let lcov = Cov::new(pick_n(self.rng, &self.ligs.clone(), kl), cov_fmt(self.rng));
            let marks = self.mark_array(&mcov, nclass);
            let mut ligs = Vec::new();
            for &l in &lcov.glyphs.clone() {
                let nc = comps.get(&l).copied().unwrap_or(1);
                ligs.push((0..nc).map(|_| self.anchor_row(nclass)).collect::<Vec<_>>());
                let mut h = vec![l];
                for _ in 0..self.rng.urange(1, 2) {
                    h.push(*self.rng.pick(&mcov.glyphs));
                }
                self.hints.push(h);
            }
            subs.push(Sub::MarkLig { mcov, lcov, nclass, marks, ligs });
        }
        Some(Lookup { ltype: 5, flag, mset, subs, ext: self.rng.chance(1, 6) })
    }

    /// A (chain) context lookup whose records refer to lookups `nested` (indices into the final
    /// lookup list) — all nested lookups are single / pair lookups with the same flags.
    fn context(&mut self, flag: u16, mset: Option<u16>, nested: &[u16], chain: bool) -> Lookup {
        let vis = self.visible(flag, mset, &self.all.clone());
        let mut subs = Vec::new();
        if vis.len() < 3 {
            return Lookup { ltype: if chain { 8 } else { 7 }, flag, mset, subs, ext: false };
        }
        for _ in 0..self.rng.urange(1, 2) {
            // concrete sequences first, then an encoding of them
            let nrules = self.rng.urange(1, 3);
            let mut seqs: Vec<(Vec<u16>, Vec<u16>, Vec<u16>, Vec<(u16, u16)>)> = Vec::new();
            let alphabet = pick_n(self.rng, &vis, 5);
            for _ in 0..nrules {
                let ni = self.rng.urange(1, 3);
                let input: Vec<u16> = (0..ni).map(|_| *self.rng.pick(&alphabet)).collect();
                let nb = if chain { self.rng.below(3) } else { 0 };
                let nl = if chain { self.rng.below(3) } else { 0 };
                let back: Vec<u16> = (0..nb).map(|_| *self.rng.pick(&alphabet)).collect();
                let look: Vec<u16> = (0..nl).map(|_| *self.rng.pick(&alphabet)).collect();
                let mut recs = Vec::new();
                for _ in 0..self.rng.urange(0, 2) {
                    if nested.is_empty() {
                        break;
                    }
                    recs.push((self.rng.below(ni) as u16, *self.rng.pick(nested)));
                }
                let mut h: Vec<u16> = back.iter().rev().copied().collect();
                h.extend(&input);
                h.extend(&look);
                // overlapping occurrences exercise where matching resumes
                if self.rng.chance(1, 3) {
                    h.extend(&input);
                    h.extend(&look);
                }
                self.hint(&h, flag, mset);
                seqs.push((back, input, look, recs));
            }
            match self.rng.below(3) {
                0 => {
                    let cov = Cov::new(seqs.iter().map(|s| s.1[0]).collect(), cov_fmt(self.rng));
                    let mut sets: Vec<Vec<Rule>> = cov.glyphs.iter().map(|_| Vec::new()).collect();
                    for (back, input, look, recs) in &seqs {
                        if let Some(i) = cov.index(input[0]) {
                            sets[i].push(Rule { back: back.clone(), input: input[1..].to_vec(), look: look.clone(), recs: recs.clone() });
                        }
                    }
                    subs.push(Sub::Ctx1 { chain, cov, sets });
                }
                1 => {
                    // every alphabet glyph gets a class (some share one, some stay class 0)
                    let ncls = self.rng.urange(2, 4);
                    let mk = |rng: &mut Rng| {
                        let mut cd = ClassDef { map: BTreeMap::new(), fmt: 1 + rng.below(2) as u8 };
                        for &g in &alphabet {
                            let c = rng.below(ncls) as u16;
                            if c != 0 {
                                cd.map.insert(g, c);
                            }
                        }
                        cd
                    };
                    let icd = mk(self.rng);
                    let (bcd, lcd) = if chain { (mk(self.rng), mk(self.rng)) } else { (ClassDef::default(), ClassDef::default()) };
                    let mut covg: Vec<u16> = seqs.iter().map(|s| s.1[0]).collect();
                    if self.rng.bool() {
                        covg.push(*self.rng.pick(&alphabet));
                    }
                    let cov = Cov::new(covg, cov_fmt(self.rng));
                    let mut sets: Vec<Option<Vec<Rule>>> = (0..ncls).map(|_| None).collect();
                    for (back, input, look, recs) in &seqs {
                        let c0 = icd.class(input[0]) as usize;
                        let r = Rule {
                            back: back.iter().map(|&g| bcd.class(g)).collect(),
                            input: input[1..].iter().map(|&g| icd.class(g)).collect(),
                            look: look.iter().map(|&g| lcd.class(g)).collect(),
                            recs: recs.clone(),
                        };
                        sets[c0].get_or_insert_with(Vec::new).push(r);
                    }
                    // trailing null sets may be dropped
                    subs.push(Sub::Ctx2 { chain, cov, bcd, icd, lcd, sets });
                }
                _ => {
                    let (back, input, look, recs) = seqs[0].clone();
                    let widen = |g: u16, rng: &mut Rng| {
                        let mut v = vec![g];
                        for _ in 0..rng.below(3) {
                            v.push(*rng.pick(&alphabet));
                        }
                        Cov::new(v, cov_fmt(rng))
                    };
                    let back: Vec<Cov> = back.iter().map(|&g| widen(g, self.rng)).collect();
                    let input: Vec<Cov> = input.iter().map(|&g| widen(g, self.rng)).collect();
                    let look: Vec<Cov> = look.iter().map(|&g| widen(g, self.rng)).collect();
                    subs.push(Sub::Ctx3 { chain, back, input, look, recs });
                }
            }
        }
        Lookup { ltype: if chain { 8 } else { 7 }, flag, mset, subs, ext: self.rng.chance(1, 6) }
    }
}

fn gen_kern(rng: &mut Rng, uni: &Universe, hints: &mut Vec<Vec<u16>>) -> Kern {
    let all: Vec<u16> = (1..uni.n).collect();
    let nsub = rng.urange(1, 3);
    let mut subs = Vec::new();
    let mut min_used = false;
    let alphabet = pick_n(rng, &all, 6);
    for si in 0..nsub {
        let mut cov = K_HORIZ;
        match rng.below(12) {
            0 => cov = 0, // vertical
            1 => cov |= K_CROSS,
            2 | 3 if si > 0 => cov |= K_OVERRIDE,
            4 | 5 if si > 0 && !min_used => {
                cov |= K_MIN;
                min_used = true;
            }
            _ => {}
        }
        let last = si + 1 == nsub;
        // format 2 only as the last subtable and only additive: a class-0 cell is "no kerning",
        // whether that counts as a value for override / minimum is not defined
        if last && cov & (K_OVERRIDE | K_MIN) == 0 && rng.chance(1, 3) {
            let lfirst = *alphabet.iter().min().unwrap_or(&1);
            let span = (alphabet.iter().max().unwrap_or(&1) - lfirst + 1) as usize;
            let rows = rng.urange(2, 4);
            let cols = rng.urange(2, 4);
            let lclass: Vec<u16> = (0..span).map(|i| if alphabet.contains(&(lfirst + i as u16)) { rng.below(rows) as u16 } else { 0 }).collect();
            let rfirst = lfirst + rng.below(2) as u16;
            let rclass: Vec<u16> = (0..span).map(|i| if alphabet.contains(&(rfirst + i as u16)) { rng.below(cols) as u16 } else { 0 }).collect();
            let m: Vec<Vec<i16>> = (0..rows).map(|r| (0..cols).map(|c| if r == 0 || c == 0 { 0 } else { gen_amount(rng) }).collect()).collect();
            subs.push(KernSub { cov, data: KernData::F2 { lfirst, lclass, rfirst, rclass, rows, cols, m } });
        } else {
            let mut pairs = BTreeMap::new();
            for _ in 0..rng.urange(1, 8) {
                let l = *rng.pick(&alphabet);
                let r = *rng.pick(&alphabet);
                pairs.insert((l, r), gen_amount(rng));
                hints.push(vec![l, r]);
            }
            subs.push(KernSub { cov, data: KernData::F0 { pairs } });
        }
    }
    for _ in 0..4 {
        let len = rng.urange(2, 5);
        hints.push((0..len).map(|_| *rng.pick(&alphabet)).collect());
    }
    Kern { subs }
}

/// Feature tags the driving path enables by itself (copied from the documentation of
/// `gpos::apply`: per script type, in this order), before the caller's custom list.
pub fn base_tags(script: u32, kerning: bool) -> Vec<u32> {
    if script == tag("arab") {
        vec![tag("curs"), tag("kern"), tag("mark"), tag("mkmk")]
    } else if kerning {
        vec![tag("dist"), tag("kern"), tag("mark"), tag("mkmk")]
    } else {
        vec![tag("dist"), tag("mark"), tag("mkmk")]
    }
}

pub fn generate(rng: &mut Rng, opts: &Opts) -> Case {
    let scenario = match rng.below(20) {
        0..=4 => Scenario::Adjust,
        5..=8 => Scenario::Marks,
        9..=11 => Scenario::Cursive,
        12..=14 => Scenario::Context,
        15 | 16 => Scenario::KernFallback,
        17 => Scenario::KernOnly,
        _ => Scenario::Mixed,
    };
    let scenario = opts.only.unwrap_or(scenario);
    // mark attachment is decided by the coverage tables of the lookup, GDEF only drives the
    // lookup flags: fonts without GDEF, without glyph classes, or with marks GDEF does not class
    let (has_gdef, declass) = match scenario {
        Scenario::KernOnly => (false, 0),
        Scenario::Adjust | Scenario::Context | Scenario::KernFallback => (!rng.chance(1, 6), 0),
        _ => match rng.below(20) {
            0 | 1 => (false, 0),
            2 | 3 => (true, 1),
            4..=6 => (true, 2),
            _ => (true, 0),
        },
    };
    let uni = gen_universe(rng, opts, has_gdef, declass);
    let mut hints: Vec<Vec<u16>> = Vec::new();
    let mut wide_reasons: Vec<&'static str> = Vec::new();
    let mut lookups: Vec<Lookup> = Vec::new();
    let mut liga: Vec<LigaRule> = Vec::new();
    let mut feats: Vec<(u32, Vec<u16>)> = Vec::new();
    let arabic = scenario == Scenario::Cursive && rng.bool();
    let script = if arabic { tag("arab") } else { *rng.pick(&[tag("latn"), tag("latn"), tag("grek"), tag("cyrl")]) };
    let direct = rng.chance(1, 4);
    let main_tag = match scenario {
        Scenario::Cursive if arabic => tag("curs"),
        Scenario::Marks | Scenario::Mixed | Scenario::Cursive => *rng.pick(&[tag("mark"), tag("mkmk"), tag("dist"), tag("tst1")]),
        Scenario::KernFallback => *rng.pick(&[tag("dist"), tag("tst1")]),
        _ => *rng.pick(&[tag("kern"), tag("dist"), tag("mark"), tag("tst1"), tag("kern")]),
    };
    let mut kerning = rng.bool();
    let mut custom: Vec<u32> = Vec::new();
    let mut kern = None;

    if scenario != Scenario::KernOnly {
        let mut g = Gen::new(rng, &uni, opts);
        let all = g.all.clone();
        let nonmarks = g.nonmarks.clone();
        let mut comps: BTreeMap<u16, usize> = BTreeMap::new();
        for &l in &g.ligs.clone() {
            comps.insert(l, g.rng.urange(1, 3));
        }
        let mut main: Vec<u16> = Vec::new(); // lookups of the main feature
        let mut additive: Vec<u16> = Vec::new(); // lookups that may move to a second feature
        let push = |lookups: &mut Vec<Lookup>, l: Lookup| -> u16 {
            lookups.push(l);
            (lookups.len() - 1) as u16
        };
        match scenario {
            Scenario::Adjust | Scenario::KernFallback => {
                let n = if scenario == Scenario::KernFallback { g.rng.below(3) } else { g.rng.urange(1, 4) };
                for _ in 0..n {
                    let (f, ms) = gen_flag(g.rng, &uni, opts, true);
                    let l = if g.rng.bool() { g.single(f, ms, &all) } else { g.pair(f, ms, &all) };
                    additive.push(push(&mut lookups, l));
                }
            }
            Scenario::Marks | Scenario::Mixed => {
                if g.rng.chance(1, 2) {
                    let (f, ms) = gen_flag(g.rng, &uni, opts, true);
                    let l = if g.rng.bool() { g.single(f, ms, &all) } else { g.pair(f, ms, &nonmarks) };
                    main.push(push(&mut lookups, l));
                }
                let (f, ms) = gen_flag(g.rng, &uni, opts, false);
                if let Some(l) = g.mark_base(f, ms, false) {
                    main.push(push(&mut lookups, l));
                }
                if g.rng.chance(1, 2) {
                    let (f, ms) = gen_flag(g.rng, &uni, opts, false);
                    if let Some(l) = g.mark_lig(f, ms, &comps) {
                        main.push(push(&mut lookups, l));
                    }
                }
                if g.rng.chance(1, 2) {
                    let (f, ms) = gen_flag(g.rng, &uni, opts, false);
                    if let Some(l) = g.mark_base(f, ms, true) {
                        main.push(push(&mut lookups, l));
                    }
                }
                if g.rng.chance(1, 3) {
                    let (f, ms) = gen_flag(g.rng, &uni, opts, true);
                    let l = g.single(f, ms, &all);
                    main.push(push(&mut lookups, l));
                }
                if scenario == Scenario::Mixed {
                    let (f, ms) = gen_flag(g.rng, &uni, opts, true);
                    let l = g.cursive(f, ms);
                    main.push(push(&mut lookups, l));
                    let (f, ms) = gen_flag(g.rng, &uni, opts, true);
                    let l = g.pair(f, ms, &all);
                    main.push(push(&mut lookups, l));
                }
            }
            Scenario::Cursive => {
                let (f, ms) = gen_flag(g.rng, &uni, opts, true);
                // most real cursive lookups ignore marks
                let f = if g.rng.bool() { f | F_IGN_MARK } else { f };
                let l = g.cursive(f, ms);
                let cursive_glyphs: Vec<u16> = l
                    .subs
                    .iter()
                    .flat_map(|s| match s {
                        Sub::Cursive { cov, .. } => cov.glyphs.clone(),
                        _ => Vec::new(),
                    })
                    .collect();
                main.push(push(&mut lookups, l));
                if g.rng.chance(1, 2) {
                    let (f, ms) = gen_flag(g.rng, &uni, opts, false);
                    if let Some(l) = g.mark_base(f, ms, false) {
                        main.push(push(&mut lookups, l));
                    }
                }
                if g.rng.chance(1, 3) {
                    // adjustments of glyphs outside the cursive coverage (core), any glyph (wide)
                    let pool: Vec<u16> = if opts.wide { all.clone() } else { all.iter().copied().filter(|x| !cursive_glyphs.contains(x)).collect() };
                    if !pool.is_empty() {
                        let (f, ms) = gen_flag(g.rng, &uni, opts, true);
                        let l = g.single(f, ms, &pool);
                        main.push(push(&mut lookups, l));
                    }
                }
            }
            Scenario::Context => {
                let (f, ms) = gen_flag(g.rng, &uni, opts, true);
                let mut nested = Vec::new();
                for _ in 0..g.rng.urange(1, 3) {
                    let (nf, nms) = if opts.wide && g.rng.chance(1, 4) { gen_flag(g.rng, &uni, opts, true) } else { (f, ms) };
                    let saved = g.hints.len();
                    let l = if g.rng.bool() { g.single(nf, nms, &all) } else { g.pair(nf, nms, &all) };
                    g.hints.truncate(saved + 2);
                    let idx = push(&mut lookups, l);
                    nested.push(idx);
                    if g.rng.chance(1, 4) {
                        additive.push(idx);
                    }
                }
                for _ in 0..g.rng.urange(1, 2) {
                    let chain = g.rng.bool();
                    let l = g.context(f, ms, &nested, chain);
                    additive.push(push(&mut lookups, l));
                }
            }
            Scenario::KernOnly => {}
        }
        // decoy lookup never referenced by an enabled feature
        let decoy = if g.rng.chance(1, 3) {
            let l = g.single(0, None, &all);
            Some(push(&mut lookups, l))
        } else {
            None
        };
        hints = std::mem::take(&mut g.hints);
        wide_reasons = std::mem::take(&mut g.wide);
        let rng = &mut *g.rng;

        // ligature formation through GSUB (only on the Font::shape path)
        // (only with a GDEF that classes every glyph: allsorts' ligature substitution tags every
        // following glyph that is neither base nor ligature with a component number, which leaks
        // into mark-to-ligature attachment of glyphs GDEF does not class as marks)
        if !direct && has_gdef && declass == 0 && matches!(scenario, Scenario::Marks | Scenario::Mixed) && rng.chance(1, 2) {
            let ligs = uni.of_class(2);
            let mut comp_pool: Vec<u16> = uni.of_class(4);
            comp_pool.extend(uni.of_class(0));
            for &l in &ligs {
                let nc = comps.get(&l).copied().unwrap_or(1);
                if nc >= 2 && comp_pool.len() > nc && rng.chance(2, 3) {
                    // distinct first components: at most one ligature starts with a given glyph
                    let first = comp_pool.remove(rng.below(comp_pool.len()));
                    let mut c = vec![first];
                    for _ in 1..nc {
                        c.push(*rng.pick(&comp_pool));
                    }
                    liga.push(LigaRule { comps: c, lig: l });
                }
            }
            // components are reserved for ligature formation: drop hints that mention them
            let reserved: Vec<u16> = liga.iter().flat_map(|r| r.comps.clone()).collect();
            hints.retain(|h| !h.iter().any(|g| reserved.contains(g)));
            if !liga.is_empty() {
                custom.push(tag("liga"));
            }
        }

        // feature assignment
        let mut main_lookups = main.clone();
        let mut second: Vec<u16> = Vec::new();
        if opts.wide && rng.chance(1, 3) {
            // attachments spread over two features: the result may depend on the order in which
            // an engine walks the features (not judged then)
            main_lookups.clear();
            for &i in &main {
                if rng.bool() {
                    second.push(i);
                } else {
                    main_lookups.push(i);
                }
            }
        }
        for &i in &additive {
            if rng.chance(1, 4) {
                second.push(i);
            } else {
                main_lookups.push(i);
            }
        }
        if rng.chance(1, 4) {
            rng.shuffle(&mut main_lookups);
        }
        if rng.chance(1, 8) && !main_lookups.is_empty() {
            let d = *rng.pick(&main_lookups);
            main_lookups.push(d); // duplicate index
        }
        feats.push((main_tag, main_lookups));
        if !second.is_empty() {
            feats.push((tag("tst2"), second));
            custom.push(tag("tst2"));
        }
        if let Some(d) = decoy {
            feats.push((tag("zzzz"), vec![d]));
        }
        if scenario == Scenario::KernFallback {
            kern = Some(gen_kern(rng, &uni, &mut hints));
        } else if rng.chance(1, 10) && !feats.iter().any(|f| f.0 == tag("kern")) {
            // a kern table next to a GPOS without kern feature: used iff kern is requested
            let mut scratch = Vec::new();
            kern = Some(gen_kern(rng, &uni, &mut scratch));
        }
        // which tags must be requested
        let mut want: Vec<u32> = vec![main_tag];
        if scenario == Scenario::KernFallback {
            want.push(tag("kern"));
        }
        for w in want {
            if direct {
                if !custom.contains(&w) {
                    custom.push(w);
                }
            } else {
                if w == tag("kern") && script != tag("arab") && rng.bool() {
                    kerning = true;
                }
                if !base_tags(script, kerning).contains(&w) {
                    custom.push(w);
                }
            }
        }
        if rng.chance(1, 4) {
            rng.shuffle(&mut custom);
        }
    } else {
        kern = Some(gen_kern(rng, &uni, &mut hints));
    }

    // script list
    let gpos = if scenario == Scenario::KernOnly {
        None
    } else {
        feats.sort_by_key(|f| f.0);
        let mut order: Vec<u16> = (0..feats.len() as u16).collect();
        rng.shuffle(&mut order);
        let mut scripts = Vec::new();
        let lang_in_font = rng.chance(1, 4);
        let mk = |tagv: u32, rng: &mut Rng| {
            let default = if lang_in_font && rng.chance(1, 3) { None } else { Some(order.clone()) };
            let mut langs = Vec::new();
            if lang_in_font || default.is_none() {
                langs.push((tag("ENG "), order.clone()));
            }
            if rng.chance(1, 5) {
                langs.push((tag("DEU "), Vec::new()));
            }
            ScriptRec { tag: tagv, default, langs }
        };
        match rng.below(4) {
            0 => scripts.push(mk(tag("DFLT"), rng)),
            1 => scripts.push(mk(script, rng)),
            2 => {
                scripts.push(mk(script, rng));
                // a DFLT script without features: must not be consulted when the script exists
                scripts.push(ScriptRec { tag: tag("DFLT"), default: Some(Vec::new()), langs: vec![] });
            }
            _ => {
                scripts.push(mk(tag("DFLT"), rng));
                scripts.push(ScriptRec { tag: tag("hebr"), default: Some(Vec::new()), langs: vec![] });
            }
        }
        for l in lookups.iter_mut() {
            if l.subs.is_empty() {
                l.ext = false; // the type of an extension lookup without subtables is unknowable
            }
        }
        Some(Layout { minor: rng.below(2) as u16, scripts, features: feats, lookups })
    };
    let lang = match rng.below(4) {
        0 => None,
        1 | 2 => Some(tag("ENG ")),
        _ => Some(tag("FRA ")),
    };

    // input string
    let all: Vec<u16> = (1..uni.n).collect();
    let reserved: Vec<u16> = liga.iter().flat_map(|r| r.comps.clone()).collect();
    let free: Vec<u16> = all.iter().copied().filter(|g| !reserved.contains(g)).collect();
    let marks: Vec<u16> = free.iter().copied().filter(|&g| uni.intent[g as usize] == 3).collect();
    let mut input: Vec<u16> = Vec::new();
    let target = if rng.chance(1, 8) { rng.small(3) } else { rng.urange(2, 16) };
    while input.len() < target {
        match rng.below(10) {
            4..=6 if !liga.is_empty() => {
                // a ligature sequence with marks after some components
                let r = rng.pick(&liga).clone();
                for c in r.comps {
                    input.push(c);
                    if !marks.is_empty() && rng.chance(1, 2) {
                        input.push(*rng.pick(&marks));
                        if rng.chance(1, 4) {
                            input.push(*rng.pick(&marks));
                        }
                    }
                }
            }
            0..=5 if !hints.is_empty() => {
                let h = rng.pick(&hints).clone();
                input.extend(h);
            }
            7 if !marks.is_empty() => input.push(*rng.pick(&marks)),
            _ => {
                if !free.is_empty() {
                    input.push(*rng.pick(&free));
                }
            }
        }
    }
    input.truncate(24);
    let gsub_scripts = vec![tag("DFLT"), script];
    let rev_layout = rng.chance(1, 4);
    Case { scenario, uni, gpos, kern, liga, gsub_scripts, script, lang, custom, kerning, direct, input, hints, rev_layout, wide_reasons }
}
