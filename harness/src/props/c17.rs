//! C17 — (stub, under construction)

use super::Prop;
use crate::rt::*;

pub struct C17 {}

impl C17 {
    pub fn new(_cx: &mut Ctx) -> C17 {
        C17 {}
    }
}

impl Prop for C17 {
    fn case(&mut self, cx: &mut Ctx, _rng: &mut Rng) {
        cx.inconclusive("not-implemented");
    }
}
