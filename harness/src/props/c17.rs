//! C17 — text preprocessing only reorders marks and applies documented decompositions.
//!
//! Function under test: `allsorts::scripts::preprocess_text` (and `Font::map_glyphs`, which calls
//! it). Oracle in two layers:
//!
//!  1. relational checks that need no big tables beyond "which characters are marks" (multiset
//!     preserved / explained by the documented rewrites, class-0 characters keep their place,
//!     marks stay inside their run);
//!  2. an exact reference model per script class, written from the specifications (Unicode
//!     canonical combining classes and decompositions generated from Python's `unicodedata` into
//!     `c17_tables.rs`, the modified-combining-class permutation documented in HarfBuzz / the SBL
//!     Hebrew manual, UTR #53 AMTRA, the OpenType script-development lists of split vowels and of
//!     prohibited vowel sequences). The model never calls allsorts.
//!
//! Where the documents leave a choice open (order of "sort" vs. "rewrite", overlapping prohibited
//! pairs, cross-script above-base marks before SARA AM) the exact check is restricted to the
//! inputs on which all readings agree (class `exact-skipped:*`); the relational layer still runs.
//!
//! `--mode strict` additionally turns "documented rewrite not applied" (allowed by the letter of
//! C17, which only limits what may change) into violations (rule `missed-rewrite`).

use super::Prop;
use crate::rt::*;
use allsorts::binary::read::ReadScope;
use allsorts::font::{Font, MatchingPresentation};
use allsorts::font_data::{DynamicFontTableProvider, FontData};
use allsorts::scripts::preprocess_text;
use std::panic::{self, AssertUnwindSafe};

#[path = "c17_tables.rs"]
mod c17_tables;
use c17_tables as tb;

// ---------------------------------------------------------------------------------------------
// Script tags (written out here, not taken from allsorts::tag)
// ---------------------------------------------------------------------------------------------

const fn t(b: &[u8; 4]) -> u32 {
    ((b[0] as u32) << 24) | ((b[1] as u32) << 16) | ((b[2] as u32) << 8) | b[3] as u32
}

#[derive(Copy, Clone, PartialEq, Eq, Debug)]
enum Class {
    Arabic,
    Syriac,
    Default,
    Myanmar,
    ThaiLao,
    Indic,
    /// the "version 2" Indic tags: callers are expected to pass the v1 tag; either the Indic or the
    /// default treatment satisfies the property
    Indic2,
    Khmer,
}

impl Class {
    fn name(self) -> &'static str {
        match self {
            Class::Arabic => "arabic",
            Class::Syriac => "syriac",
            Class::Default => "default",
            Class::Myanmar => "myanmar",
            Class::ThaiLao => "thai-lao",
            Class::Indic => "indic",
            Class::Indic2 => "indic2",
            Class::Khmer => "khmer",
        }
    }
}

#[derive(Copy, Clone, PartialEq, Eq, Debug)]
enum Blk {
    Latin,
    Hebrew,
    Arabic,
    Syriac,
    Thai,
    Lao,
    Deva,
    Beng,
    Guru,
    Gujr,
    Orya,
    Taml,
    Telu,
    Knda,
    Mlym,
    Sinh,
    Khmer,
    Myanmar,
    Tibetan,
    Greek,
    Cyrillic,
}

const BLOCKS: &[(Blk, &[(u32, u32)])] = &[
    (Blk::Latin, &[(0x20, 0x7E), (0xA0, 0x17F), (0x300, 0x36F), (0x1AB0, 0x1ACE), (0x1DC0, 0x1DFF), (0x20D0, 0x20F0)]),
    (Blk::Hebrew, &[(0x591, 0x5C7), (0x5D0, 0x5EA), (0xFB1D, 0xFB4F)]),
    (Blk::Arabic, &[(0x600, 0x6FF), (0x750, 0x77F), (0x8A0, 0x8FF)]),
    (Blk::Syriac, &[(0x700, 0x74F)]),
    (Blk::Thai, &[(0xE01, 0xE5B)]),
    (Blk::Lao, &[(0xE81, 0xEDF)]),
    (Blk::Deva, &[(0x900, 0x97F), (0xA8E0, 0xA8FF), (0x1CD0, 0x1CFA)]),
    (Blk::Beng, &[(0x980, 0x9FE)]),
    (Blk::Guru, &[(0xA01, 0xA76)]),
    (Blk::Gujr, &[(0xA81, 0xAFF)]),
    (Blk::Orya, &[(0xB01, 0xB77)]),
    (Blk::Taml, &[(0xB82, 0xBFA)]),
    (Blk::Telu, &[(0xC00, 0xC7F)]),
    (Blk::Knda, &[(0xC80, 0xCF2)]),
    (Blk::Mlym, &[(0xD00, 0xD7F)]),
    (Blk::Sinh, &[(0xD81, 0xDF4)]),
    (Blk::Khmer, &[(0x1780, 0x17F9)]),
    (Blk::Myanmar, &[(0x1000, 0x109F), (0xA9E0, 0xA9FE), (0xAA60, 0xAA7F)]),
    (Blk::Tibetan, &[(0xF00, 0xFDA)]),
    (Blk::Greek, &[(0x370, 0x3FF), (0x1F00, 0x1FFE)]),
    (Blk::Cyrillic, &[(0x400, 0x52F), (0x2DE0, 0x2DFF), (0xA66F, 0xA69F)]),
];

struct Sc {
    tag: u32,
    name: &'static str,
    class: Class,
    home: Blk,
    weight: u32,
    /// Bengali ya+nukta recomposition applies
    beng: bool,
    /// Kannada ra-halant-ZWJ swap applies
    knda: bool,
}

const fn sc(tag: &[u8; 4], name: &'static str, class: Class, home: Blk, weight: u32) -> Sc {
    Sc { tag: t(tag), name, class, home, weight, beng: false, knda: false }
}

const SCRIPTS: &[Sc] = &[
    sc(b"arab", "arab", Class::Arabic, Blk::Arabic, 16),
    sc(b"syrc", "syrc", Class::Syriac, Blk::Syriac, 5),
    sc(b"thai", "thai", Class::ThaiLao, Blk::Thai, 8),
    sc(b"lao ", "lao", Class::ThaiLao, Blk::Lao, 7),
    sc(b"deva", "deva", Class::Indic, Blk::Deva, 5),
    Sc { tag: t(b"beng"), name: "beng", class: Class::Indic, home: Blk::Beng, weight: 6, beng: true, knda: false },
    sc(b"guru", "guru", Class::Indic, Blk::Guru, 3),
    sc(b"gujr", "gujr", Class::Indic, Blk::Gujr, 4),
    sc(b"orya", "orya", Class::Indic, Blk::Orya, 3),
    sc(b"taml", "taml", Class::Indic, Blk::Taml, 3),
    sc(b"telu", "telu", Class::Indic, Blk::Telu, 4),
    Sc { tag: t(b"knda"), name: "knda", class: Class::Indic, home: Blk::Knda, weight: 6, beng: false, knda: true },
    sc(b"mlym", "mlym", Class::Indic, Blk::Mlym, 3),
    sc(b"sinh", "sinh", Class::Indic, Blk::Sinh, 4),
    sc(b"dev2", "dev2", Class::Indic2, Blk::Deva, 1),
    Sc { tag: t(b"bng2"), name: "bng2", class: Class::Indic2, home: Blk::Beng, weight: 1, beng: true, knda: false },
    sc(b"gur2", "gur2", Class::Indic2, Blk::Guru, 1),
    sc(b"gjr2", "gjr2", Class::Indic2, Blk::Gujr, 1),
    sc(b"ory2", "ory2", Class::Indic2, Blk::Orya, 1),
    sc(b"tml2", "tml2", Class::Indic2, Blk::Taml, 1),
    sc(b"tel2", "tel2", Class::Indic2, Blk::Telu, 1),
    Sc { tag: t(b"knd2"), name: "knd2", class: Class::Indic2, home: Blk::Knda, weight: 1, beng: false, knda: true },
    sc(b"mlm2", "mlm2", Class::Indic2, Blk::Mlym, 1),
    sc(b"khmr", "khmr", Class::Khmer, Blk::Khmer, 7),
    sc(b"mymr", "mymr", Class::Myanmar, Blk::Myanmar, 3),
    sc(b"mym2", "mym2", Class::Myanmar, Blk::Myanmar, 3),
    sc(b"latn", "latn", Class::Default, Blk::Latin, 5),
    sc(b"hebr", "hebr", Class::Default, Blk::Hebrew, 6),
    sc(b"DFLT", "DFLT", Class::Default, Blk::Latin, 3),
    sc(b"cyrl", "cyrl", Class::Default, Blk::Cyrillic, 1),
    sc(b"grek", "grek", Class::Default, Blk::Greek, 1),
    sc(b"tibt", "tibt", Class::Default, Blk::Tibetan, 2),
    // unrelated / garbage tags: default treatment
    sc(b"thaa", "other", Class::Default, Blk::Arabic, 1),
    sc(b"nko ", "other", Class::Default, Blk::Arabic, 1),
    sc(b"ARAB", "other", Class::Default, Blk::Arabic, 1),
    sc(b"\0\0\0\0", "other", Class::Default, Blk::Hebrew, 1),
    sc(b"\xff\xff\xff\xff", "other", Class::Default, Blk::Thai, 1),
    sc(b"lao\0", "other", Class::Default, Blk::Lao, 1),
];

fn script_for_tag(tag: u32) -> Option<&'static Sc> {
    SCRIPTS.iter().find(|s| s.tag == tag)
}

// ---------------------------------------------------------------------------------------------
// Character data (from the generated table) and the documented rewrite lists
// ---------------------------------------------------------------------------------------------

const DOTTED_CIRCLE: char = '\u{25CC}';
const ZWJ: char = '\u{200D}';
const ZWNJ: char = '\u{200C}';
const CGJ: char = '\u{034F}';
const SHADDA: char = '\u{0651}';

/// UTR #53 section 3, Modifier Combining Marks (MCM).
const MCM: &[char] = &[
    '\u{0654}', '\u{0655}', '\u{0658}', '\u{06DC}', '\u{06E3}', '\u{06E7}', '\u{06E8}', '\u{08CA}', '\u{08CB}',
    '\u{08CD}', '\u{08CE}', '\u{08CF}', '\u{08D3}', '\u{08F3}',
];

fn is_mcm(c: char) -> bool {
    MCM.contains(&c)
}

/// Below-base marks of Thai and Lao (SARA U, SARA UU, PHINTHU; Lao U, UU, PALI VIRAMA, SEMIVOWEL LO);
/// every other non-spacing mark of the two blocks sits above the base.
const THAI_LAO_BELOW: &[u32] = &[0x0E38, 0x0E39, 0x0E3A, 0x0EB8, 0x0EB9, 0x0EBA, 0x0EBC];

/// Khmer split vowels (Microsoft "Developing OpenType Fonts for Khmer Script"): the pre-base part
/// U+17C1 is inserted in front of them.
const KHMER_SPLIT: &[char] = &['\u{17BE}', '\u{17BF}', '\u{17C0}', '\u{17C4}', '\u{17C5}'];
const KHMER_E: char = '\u{17C1}';

/// Independent vowel + dependent vowel sequences that must not be used (they look like another
/// letter); a dotted circle is inserted between the two. Microsoft USE / Unicode core spec tables.
const PROHIBITED_PAIRS: &[(u32, u32)] = &[
    // Devanagari
    (0x0905, 0x0946), (0x0905, 0x093E), (0x0909, 0x0941), (0x090F, 0x0945), (0x090F, 0x0946), (0x090F, 0x0947),
    (0x0905, 0x0949), (0x0906, 0x0945), (0x0905, 0x094A), (0x0906, 0x0946), (0x0905, 0x094B), (0x0906, 0x0947),
    (0x0905, 0x094C), (0x0906, 0x0948), (0x0905, 0x0945), (0x0905, 0x093A), (0x0905, 0x093B), (0x0906, 0x093A),
    (0x0905, 0x094F), (0x0905, 0x0956), (0x0905, 0x0957),
    // Bengali
    (0x0985, 0x09BE), (0x098B, 0x09C3), (0x098C, 0x09E2),
    // Gurmukhi
    (0x0A05, 0x0A3E), (0x0A72, 0x0A3F), (0x0A72, 0x0A40), (0x0A73, 0x0A41), (0x0A73, 0x0A42), (0x0A72, 0x0A47),
    (0x0A05, 0x0A48), (0x0A73, 0x0A4B), (0x0A05, 0x0A4C),
    // Gujarati
    (0x0A85, 0x0ABE), (0x0A85, 0x0AC5), (0x0A85, 0x0AC7), (0x0A85, 0x0AC8), (0x0A85, 0x0AC9), (0x0A85, 0x0ACB),
    (0x0A85, 0x0ACC), (0x0AC5, 0x0ABE),
    // Oriya
    (0x0B05, 0x0B3E), (0x0B0F, 0x0B57), (0x0B13, 0x0B57),
    // Telugu
    (0x0C12, 0x0C55), (0x0C12, 0x0C4C), (0x0C3F, 0x0C55), (0x0C46, 0x0C55), (0x0C4A, 0x0C55),
    // Kannada
    (0x0C89, 0x0CBE), (0x0C92, 0x0CCC), (0x0C8B, 0x0CBE),
    // Malayalam
    (0x0D07, 0x0D57), (0x0D09, 0x0D57), (0x0D0E, 0x0D46), (0x0D12, 0x0D3E), (0x0D12, 0x0D57),
    // Sinhala
    (0x0D85, 0x0DCF), (0x0D85, 0x0DD0), (0x0D85, 0x0DD1), (0x0D8B, 0x0DDF), (0x0D8D, 0x0DD8), (0x0D8F, 0x0DDF),
    (0x0D91, 0x0DCA), (0x0D91, 0x0DD9), (0x0D91, 0x0DDA), (0x0D91, 0x0DDC), (0x0D91, 0x0DDD), (0x0D94, 0x0DDF),
];
/// Devanagari RA + VIRAMA (reph) + LETTER I looks like LETTER II: dotted circle before the I.
const REPH_I: [char; 3] = ['\u{0930}', '\u{094D}', '\u{0907}'];

const KNDA_RA: char = '\u{0CB0}';
const KNDA_HALANT: char = '\u{0CCD}';

fn is_prohibited(a: char, b: char) -> bool {
    PROHIBITED_PAIRS.contains(&(a as u32, b as u32))
}

fn is_prohibited_second(c: char) -> bool {
    c == REPH_I[2] || PROHIBITED_PAIRS.iter().any(|&(_, b)| b == c as u32)
}

fn matra_split(c: char) -> Option<&'static [u32; 3]> {
    let cp = c as u32;
    if !(0x0900..0x0E00).contains(&cp) {
        return None;
    }
    tb::MATRA_SPLITS.iter().find(|(k, _)| *k == cp).map(|(_, v)| v)
}

fn am_split(c: char) -> Option<(char, char)> {
    let cp = c as u32;
    if cp != 0x0E33 && cp != 0x0EB3 {
        return None;
    }
    tb::AM_SPLITS
        .iter()
        .find(|(k, _)| *k == cp)
        .and_then(|(_, v)| Some((char::from_u32(v[0])?, char::from_u32(v[1])?)))
}

fn ch(cp: u32) -> char {
    char::from_u32(cp).unwrap_or('\u{FFFD}')
}

struct Ucd {
    /// canonical combining class per code point (Python's table), 0 when unknown
    ccc: Vec<u8>,
    /// 1 = assigned in the Python table (the model knows the class), 0 = the model knows nothing
    known: Vec<u8>,
    /// ccc -> modified combining class
    mcc_map: [u8; 256],
}

impl Ucd {
    fn new() -> Ucd {
        let mut ccc = vec![0u8; 0x110000];
        let mut known = vec![0u8; 0x110000];
        for &(lo, hi) in tb::ASSIGNED {
            for cp in lo..=hi {
                known[cp as usize] = 1;
            }
        }
        for &(lo, hi, v) in tb::CCC {
            for cp in lo..=hi {
                ccc[cp as usize] = v;
            }
        }
        // Modified combining classes: HarfBuzz hb-unicode.hh / SBL Hebrew Font User Manual 1.5x
        // (as documented in allsorts' unicode::mcc): Hebrew points are permuted, the Telugu length
        // marks (84, 91) and Thai SARA U/UU (103) move below the virama class; every other class
        // keeps its canonical value (Arabic is handled by AMTRA, not by a permutation).
        let mut m = [0u8; 256];
        for i in 0..256 {
            m[i] = i as u8;
        }
        let hebrew: [(u8, u8); 17] = [
            (10, 22), // sheva
            (11, 15), // hataf segol
            (12, 16), // hataf patah
            (13, 17), // hataf qamats
            (14, 23), // hiriq
            (15, 18), // tsere
            (16, 19), // segol
            (17, 20), // patah
            (18, 21), // qamats
            (19, 14), // holam
            (20, 24), // qubuts
            (21, 12), // dagesh
            (22, 25), // meteg
            (23, 13), // rafe
            (24, 10), // shin dot
            (25, 11), // sin dot
            (26, 26), // point varika
        ];
        for (from, to) in hebrew {
            m[from as usize] = to;
        }
        m[84] = 4;
        m[91] = 5;
        m[103] = 3;
        Ucd { ccc, known, mcc_map: m }
    }
    #[inline]
    fn ccc(&self, c: char) -> u8 {
        self.ccc[c as usize]
    }
    #[inline]
    fn mcc(&self, c: char) -> u8 {
        self.mcc_map[self.ccc[c as usize] as usize]
    }
    #[inline]
    fn known(&self, c: char) -> bool {
        self.known[c as usize] != 0
    }
    #[inline]
    fn is_mark(&self, c: char) -> bool {
        self.mcc(c) != 0
    }

    // ----- reference models -------------------------------------------------------------------

    /// stable insertion sort by modified class (deliberately not std's sort)
    fn stable_sort_run(&self, run: &mut [char]) {
        for i in 1..run.len() {
            let mut j = i;
            while j > 0 && self.mcc(run[j - 1]) > self.mcc(run[j]) {
                run.swap(j - 1, j);
                j -= 1;
            }
        }
    }

    /// every maximal run of marks sorted stably by modified class; nothing else moves
    fn sort_runs(&self, v: &mut [char]) {
        let n = v.len();
        let mut i = 0;
        while i < n {
            if !self.is_mark(v[i]) {
                i += 1;
                continue;
            }
            let s = i;
            while i < n && self.is_mark(v[i]) {
                i += 1;
            }
            self.stable_sort_run(&mut v[s..i]);
        }
    }

    fn model_default(&self, text: &[char]) -> Vec<char> {
        let mut v = text.to_vec();
        self.sort_runs(&mut v);
        v
    }

    /// UTR #53 (AMTRA) on one maximal run S of non-starters.
    fn amtra_run(&self, run: &[char]) -> Vec<char> {
        // step 1: canonical ordering of the run
        let mut s = run.to_vec();
        self.stable_sort_run(&mut s);
        // 2a: shadda characters (ccc = 33) to the beginning of S
        let mut out: Vec<char> = s.iter().copied().filter(|&c| self.ccc(c) == 33).collect();
        out.extend(s.iter().copied().filter(|&c| self.ccc(c) != 33));
        // 2b: if the sequence of ccc=230 characters begins with MCMs, move those to the beginning of S
        // 2c: same for ccc=220, placed before the 230 MCMs
        for class in [230u8, 220u8] {
            if let Some(first) = out.iter().position(|&c| self.ccc(c) == class) {
                let mut k = first;
                while k < out.len() && self.ccc(out[k]) == class && is_mcm(out[k]) {
                    k += 1;
                }
                if k > first {
                    let moved: Vec<char> = out.drain(first..k).collect();
                    let mut v = moved;
                    v.extend(out.into_iter());
                    out = v;
                }
            }
        }
        out
    }

    fn model_arabic(&self, text: &[char]) -> Vec<char> {
        let mut out = Vec::with_capacity(text.len());
        let n = text.len();
        let mut i = 0;
        while i < n {
            if !self.is_mark(text[i]) {
                out.push(text[i]);
                i += 1;
                continue;
            }
            let s = i;
            while i < n && self.is_mark(text[i]) {
                i += 1;
            }
            out.extend(self.amtra_run(&text[s..i]));
        }
        out
    }

    fn is_above_thai_lao(&self, c: char) -> bool {
        let cp = c as u32;
        (0x0E00..0x0F00).contains(&cp) && tb::THAI_LAO_MN.contains(&cp) && !THAI_LAO_BELOW.contains(&cp)
    }

    /// Thai/Lao: the first `limit` AM vowels are split into nikhahit + aa, the nikhahit goes in front of
    /// the above-base marks that precede the AM; then the mark runs are sorted.
    /// `same_script`: only above-base marks of the AM's own block count; `presort`: sort first.
    fn model_thai_lao(&self, text: &[char], same_script: bool, presort: bool, limit: usize) -> Vec<char> {
        let mut src = text.to_vec();
        if presort {
            self.sort_runs(&mut src);
        }
        let mut out: Vec<char> = Vec::with_capacity(src.len() + 4);
        let mut done = 0usize;
        for &c in &src {
            match am_split(c) {
                Some((nik, aa)) if done < limit => {
                    done += 1;
                    let lao = (c as u32) >= 0x0E80;
                    let mut j = out.len();
                    while j > 0
                        && self.is_above_thai_lao(out[j - 1])
                        && (!same_script || ((out[j - 1] as u32) >= 0x0E80) == lao)
                    {
                        j -= 1;
                    }
                    out.insert(j, nik);
                    out.push(aa);
                }
                _ => out.push(c),
            }
        }
        self.sort_runs(&mut out);
        out
    }

    /// Indic: dotted circle between prohibited vowel sequences, split vowels decomposed, mark runs
    /// sorted, Bengali ya+nukta -> yya, Kannada ra-halant-ZWJ swap at the start of the text.
    /// `overlap`: every adjacent prohibited pair of the input gets a circle (otherwise pairs are
    /// matched left to right without overlap); `presort`: sort before looking for pairs.
    fn model_indic(&self, text: &[char], beng: bool, knda: bool, overlap: bool, presort: bool) -> Vec<char> {
        let mut src = text.to_vec();
        if presort {
            self.sort_runs(&mut src);
        }
        // 1. vowel constraints
        let mut a: Vec<char> = Vec::with_capacity(src.len() + 4);
        let n = src.len();
        let mut i = 0;
        while i < n {
            if i + 2 < n && src[i] == REPH_I[0] && src[i + 1] == REPH_I[1] && src[i + 2] == REPH_I[2] {
                a.extend_from_slice(&[REPH_I[0], REPH_I[1], DOTTED_CIRCLE, REPH_I[2]]);
                i += 3;
                continue;
            }
            a.push(src[i]);
            if i + 1 < n && is_prohibited(src[i], src[i + 1]) {
                a.push(DOTTED_CIRCLE);
                if !overlap {
                    a.push(src[i + 1]);
                    i += 2;
                    continue;
                }
            }
            i += 1;
        }
        // 2. split vowels
        let mut b: Vec<char> = Vec::with_capacity(a.len() + 4);
        for &c in &a {
            match matra_split(c) {
                Some(parts) => {
                    for &p in parts.iter() {
                        if p != 0 {
                            b.push(ch(p));
                        }
                    }
                }
                None => b.push(c),
            }
        }
        // 3. marks
        self.sort_runs(&mut b);
        // 4. Bengali ya + nukta
        if beng {
            let (yya, parts) = tb::YA_NUKTA;
            let (ya, nukta) = (ch(parts[0]), ch(parts[1]));
            let mut c2 = Vec::with_capacity(b.len());
            let mut i = 0;
            while i < b.len() {
                if i + 1 < b.len() && b[i] == ya && b[i + 1] == nukta {
                    c2.push(ch(yya));
                    i += 2;
                } else {
                    c2.push(b[i]);
                    i += 1;
                }
            }
            b = c2;
        }
        // 5. Kannada
        if knda && b.len() >= 3 && b[0] == KNDA_RA && b[1] == KNDA_HALANT && b[2] == ZWJ {
            b.swap(1, 2);
        }
        b
    }

    fn model_khmer(&self, text: &[char]) -> Vec<char> {
        let mut out = Vec::with_capacity(text.len() + 4);
        for &c in text {
            if KHMER_SPLIT.contains(&c) {
                out.push(KHMER_E);
            }
            out.push(c);
        }
        self.sort_runs(&mut out);
        out
    }
}

fn same_multiset(a: &[char], b: &[char]) -> bool {
    if a.len() != b.len() {
        return false;
    }
    let mut x = a.to_vec();
    let mut y = b.to_vec();
    x.sort_unstable();
    y.sort_unstable();
    x == y
}

fn hexs(v: &[char]) -> J {
    let mut s = String::with_capacity(v.len() * 5);
    for (i, c) in v.iter().enumerate() {
        if i > 0 {
            s.push(' ');
        }
        s.push_str(&format!("{:04X}", *c as u32));
    }
    J::S(s)
}

fn tag_str(tag: u32) -> String {
    let b = tag.to_be_bytes();
    if b.iter().all(|c| (0x20..0x7f).contains(c)) {
        format!("'{}'", String::from_utf8_lossy(&b))
    } else {
        format!("0x{:08X}", tag)
    }
}

fn count(v: &[char], c: char) -> usize {
    v.iter().filter(|&&x| x == c).count()
}

//@@PART2@@
