//! C17 — text preprocessing only reorders marks and applies documented decompositions.
//!
//! Function under test: `allsorts::scripts::preprocess_text` (and `Font::map_glyphs`, which calls
//! it). Oracle in two layers:
//!
//!  1. relational checks that need no big tables beyond "which characters are marks" (multiset
//!     preserved / explained by the documented rewrites, class-0 characters keep their place,
//!     marks stay inside their run);
//!  2. an exact reference model per script class, written from the specifications (Unicode
//!     canonical combining classes and decompositions generated from Python's `unicodedata` into
//!     `c17_tables.rs`, the modified-combining-class permutation documented in HarfBuzz / the SBL
//!     Hebrew manual, UTR #53 AMTRA, the OpenType script-development lists of split vowels and of
//!     prohibited vowel sequences). The model never calls allsorts.
//!
//! Where the documents leave a choice open (order of "sort" vs. "rewrite", overlapping prohibited
//! pairs, cross-script above-base marks before SARA AM) the output has to equal one of the
//! readings (class `exact:*-alternative-reading` when it is not the primary one).
//!
//! `--mode strict` additionally turns "documented rewrite not applied" (allowed by the letter of
//! C17, which only limits what may change) into violations (rule `missed-rewrite`).

use super::Prop;
use crate::rt::*;
use allsorts::binary::read::ReadScope;
use allsorts::font::{Font, MatchingPresentation};
use allsorts::font_data::{DynamicFontTableProvider, FontData};
use allsorts::scripts::preprocess_text;
use std::panic::{self, AssertUnwindSafe};

#[path = "c17_tables.rs"]
mod c17_tables;
use c17_tables as tb;

// ---------------------------------------------------------------------------------------------
// Script tags (written out here, not taken from allsorts::tag)
// ---------------------------------------------------------------------------------------------

const fn t(b: &[u8; 4]) -> u32 {
    ((b[0] as u32) << 24) | ((b[1] as u32) << 16) | ((b[2] as u32) << 8) | b[3] as u32
}

#[derive(Copy, Clone, PartialEq, Eq, Debug)]
enum Class {
    Arabic,
    Syriac,
    Default,
    Myanmar,
    ThaiLao,
    Indic,
    /// the "version 2" Indic tags: callers are expected to pass the v1 tag; either the Indic or the
    /// default treatment satisfies the property
    Indic2,
    Khmer,
}

impl Class {
    fn name(self) -> &'static str {
        match self {
            Class::Arabic => "arabic",
            Class::Syriac => "syriac",
            Class::Default => "default",
            Class::Myanmar => "myanmar",
            Class::ThaiLao => "thai-lao",
            Class::Indic => "indic",
            Class::Indic2 => "indic2",
            Class::Khmer => "khmer",
        }
    }
}

#[derive(Copy, Clone, PartialEq, Eq, Debug)]
enum Blk {
    Latin,
    Hebrew,
    Arabic,
    Syriac,
    Thai,
    Lao,
    Deva,
    Beng,
    Guru,
    Gujr,
    Orya,
    Taml,
    Telu,
    Knda,
    Mlym,
    Sinh,
    Khmer,
    Myanmar,
    Tibetan,
    Greek,
    Cyrillic,
}

const BLOCKS: &[(Blk, &[(u32, u32)])] = &[
    (Blk::Latin, &[(0x20, 0x7E), (0xA0, 0x17F), (0x300, 0x36F), (0x1AB0, 0x1ACE), (0x1DC0, 0x1DFF), (0x20D0, 0x20F0)]),
    (Blk::Hebrew, &[(0x591, 0x5C7), (0x5D0, 0x5EA), (0xFB1D, 0xFB4F)]),
    (Blk::Arabic, &[(0x600, 0x6FF), (0x750, 0x77F), (0x8A0, 0x8FF)]),
    (Blk::Syriac, &[(0x700, 0x74F)]),
    (Blk::Thai, &[(0xE01, 0xE5B)]),
    (Blk::Lao, &[(0xE81, 0xEDF)]),
    (Blk::Deva, &[(0x900, 0x97F), (0xA8E0, 0xA8FF), (0x1CD0, 0x1CFA)]),
    (Blk::Beng, &[(0x980, 0x9FE)]),
    (Blk::Guru, &[(0xA01, 0xA76)]),
    (Blk::Gujr, &[(0xA81, 0xAFF)]),
    (Blk::Orya, &[(0xB01, 0xB77)]),
    (Blk::Taml, &[(0xB82, 0xBFA)]),
    (Blk::Telu, &[(0xC00, 0xC7F)]),
    (Blk::Knda, &[(0xC80, 0xCF2)]),
    (Blk::Mlym, &[(0xD00, 0xD7F)]),
    (Blk::Sinh, &[(0xD81, 0xDF4)]),
    (Blk::Khmer, &[(0x1780, 0x17F9)]),
    (Blk::Myanmar, &[(0x1000, 0x109F), (0xA9E0, 0xA9FE), (0xAA60, 0xAA7F)]),
    (Blk::Tibetan, &[(0xF00, 0xFDA)]),
    (Blk::Greek, &[(0x370, 0x3FF), (0x1F00, 0x1FFE)]),
    (Blk::Cyrillic, &[(0x400, 0x52F), (0x2DE0, 0x2DFF), (0xA66F, 0xA69F)]),
];

struct Sc {
    tag: u32,
    name: &'static str,
    class: Class,
    home: Blk,
    weight: u32,
    /// Bengali ya+nukta recomposition applies
    beng: bool,
    /// Kannada ra-halant-ZWJ swap applies
    knda: bool,
}

const fn sc(tag: &[u8; 4], name: &'static str, class: Class, home: Blk, weight: u32) -> Sc {
    Sc { tag: t(tag), name, class, home, weight, beng: false, knda: false }
}

const SCRIPTS: &[Sc] = &[
    sc(b"arab", "arab", Class::Arabic, Blk::Arabic, 16),
    sc(b"syrc", "syrc", Class::Syriac, Blk::Syriac, 5),
    sc(b"thai", "thai", Class::ThaiLao, Blk::Thai, 8),
    sc(b"lao ", "lao", Class::ThaiLao, Blk::Lao, 7),
    sc(b"deva", "deva", Class::Indic, Blk::Deva, 5),
    Sc { tag: t(b"beng"), name: "beng", class: Class::Indic, home: Blk::Beng, weight: 6, beng: true, knda: false },
    sc(b"guru", "guru", Class::Indic, Blk::Guru, 3),
    sc(b"gujr", "gujr", Class::Indic, Blk::Gujr, 4),
    sc(b"orya", "orya", Class::Indic, Blk::Orya, 3),
    sc(b"taml", "taml", Class::Indic, Blk::Taml, 3),
    sc(b"telu", "telu", Class::Indic, Blk::Telu, 4),
    Sc { tag: t(b"knda"), name: "knda", class: Class::Indic, home: Blk::Knda, weight: 6, beng: false, knda: true },
    sc(b"mlym", "mlym", Class::Indic, Blk::Mlym, 3),
    sc(b"sinh", "sinh", Class::Indic, Blk::Sinh, 4),
    sc(b"dev2", "dev2", Class::Indic2, Blk::Deva, 1),
    Sc { tag: t(b"bng2"), name: "bng2", class: Class::Indic2, home: Blk::Beng, weight: 1, beng: true, knda: false },
    sc(b"gur2", "gur2", Class::Indic2, Blk::Guru, 1),
    sc(b"gjr2", "gjr2", Class::Indic2, Blk::Gujr, 1),
    sc(b"ory2", "ory2", Class::Indic2, Blk::Orya, 1),
    sc(b"tml2", "tml2", Class::Indic2, Blk::Taml, 1),
    sc(b"tel2", "tel2", Class::Indic2, Blk::Telu, 1),
    Sc { tag: t(b"knd2"), name: "knd2", class: Class::Indic2, home: Blk::Knda, weight: 1, beng: false, knda: true },
    sc(b"mlm2", "mlm2", Class::Indic2, Blk::Mlym, 1),
    sc(b"khmr", "khmr", Class::Khmer, Blk::Khmer, 7),
    sc(b"mymr", "mymr", Class::Myanmar, Blk::Myanmar, 3),
    sc(b"mym2", "mym2", Class::Myanmar, Blk::Myanmar, 3),
    sc(b"latn", "latn", Class::Default, Blk::Latin, 5),
    sc(b"hebr", "hebr", Class::Default, Blk::Hebrew, 6),
    sc(b"DFLT", "DFLT", Class::Default, Blk::Latin, 3),
    sc(b"cyrl", "cyrl", Class::Default, Blk::Cyrillic, 1),
    sc(b"grek", "grek", Class::Default, Blk::Greek, 1),
    sc(b"tibt", "tibt", Class::Default, Blk::Tibetan, 2),
    // unrelated / garbage tags: default treatment
    sc(b"thaa", "other", Class::Default, Blk::Arabic, 1),
    sc(b"nko ", "other", Class::Default, Blk::Arabic, 1),
    sc(b"ARAB", "other", Class::Default, Blk::Arabic, 1),
    sc(b"\0\0\0\0", "other", Class::Default, Blk::Hebrew, 1),
    sc(b"\xff\xff\xff\xff", "other", Class::Default, Blk::Thai, 1),
    sc(b"lao\0", "other", Class::Default, Blk::Lao, 1),
];

fn script_for_tag(tag: u32) -> Option<&'static Sc> {
    SCRIPTS.iter().find(|s| s.tag == tag)
}

// ---------------------------------------------------------------------------------------------
// Character data (from the generated table) and the documented rewrite lists
// ---------------------------------------------------------------------------------------------

const DOTTED_CIRCLE: char = '\u{25CC}';
const ZWJ: char = '\u{200D}';
const ZWNJ: char = '\u{200C}';
const CGJ: char = '\u{034F}';
const SHADDA: char = '\u{0651}';

/// UTR #53 section 3, Modifier Combining Marks (MCM).
const MCM: &[char] = &[
    '\u{0654}', '\u{0655}', '\u{0658}', '\u{06DC}', '\u{06E3}', '\u{06E7}', '\u{06E8}', '\u{08CA}', '\u{08CB}',
    '\u{08CD}', '\u{08CE}', '\u{08CF}', '\u{08D3}', '\u{08F3}',
];

fn is_mcm(c: char) -> bool {
    MCM.contains(&c)
}

/// Below-base marks of Thai and Lao (SARA U, SARA UU, PHINTHU; Lao U, UU, PALI VIRAMA, SEMIVOWEL LO);
/// every other non-spacing mark of the two blocks sits above the base.
const THAI_LAO_BELOW: &[u32] = &[0x0E38, 0x0E39, 0x0E3A, 0x0EB8, 0x0EB9, 0x0EBA, 0x0EBC];

/// Khmer split vowels (Microsoft "Developing OpenType Fonts for Khmer Script"): the pre-base part
/// U+17C1 is inserted in front of them.
const KHMER_SPLIT: &[char] = &['\u{17BE}', '\u{17BF}', '\u{17C0}', '\u{17C4}', '\u{17C5}'];
const KHMER_E: char = '\u{17C1}';

/// Independent vowel + dependent vowel sequences that must not be used (they look like another
/// letter); a dotted circle is inserted between the two. Microsoft USE / Unicode core spec tables.
const PROHIBITED_PAIRS: &[(u32, u32)] = &[
    // Devanagari
    (0x0905, 0x0946), (0x0905, 0x093E), (0x0909, 0x0941), (0x090F, 0x0945), (0x090F, 0x0946), (0x090F, 0x0947),
    (0x0905, 0x0949), (0x0906, 0x0945), (0x0905, 0x094A), (0x0906, 0x0946), (0x0905, 0x094B), (0x0906, 0x0947),
    (0x0905, 0x094C), (0x0906, 0x0948), (0x0905, 0x0945), (0x0905, 0x093A), (0x0905, 0x093B), (0x0906, 0x093A),
    (0x0905, 0x094F), (0x0905, 0x0956), (0x0905, 0x0957),
    // Bengali
    (0x0985, 0x09BE), (0x098B, 0x09C3), (0x098C, 0x09E2),
    // Gurmukhi
    (0x0A05, 0x0A3E), (0x0A72, 0x0A3F), (0x0A72, 0x0A40), (0x0A73, 0x0A41), (0x0A73, 0x0A42), (0x0A72, 0x0A47),
    (0x0A05, 0x0A48), (0x0A73, 0x0A4B), (0x0A05, 0x0A4C),
    // Gujarati
    (0x0A85, 0x0ABE), (0x0A85, 0x0AC5), (0x0A85, 0x0AC7), (0x0A85, 0x0AC8), (0x0A85, 0x0AC9), (0x0A85, 0x0ACB),
    (0x0A85, 0x0ACC), (0x0AC5, 0x0ABE),
    // Oriya
    (0x0B05, 0x0B3E), (0x0B0F, 0x0B57), (0x0B13, 0x0B57),
    // Telugu
    (0x0C12, 0x0C55), (0x0C12, 0x0C4C), (0x0C3F, 0x0C55), (0x0C46, 0x0C55), (0x0C4A, 0x0C55),
    // Kannada
    (0x0C89, 0x0CBE), (0x0C92, 0x0CCC), (0x0C8B, 0x0CBE),
    // Malayalam
    (0x0D07, 0x0D57), (0x0D09, 0x0D57), (0x0D0E, 0x0D46), (0x0D12, 0x0D3E), (0x0D12, 0x0D57),
    // Sinhala
    (0x0D85, 0x0DCF), (0x0D85, 0x0DD0), (0x0D85, 0x0DD1), (0x0D8B, 0x0DDF), (0x0D8D, 0x0DD8), (0x0D8F, 0x0DDF),
    (0x0D91, 0x0DCA), (0x0D91, 0x0DD9), (0x0D91, 0x0DDA), (0x0D91, 0x0DDC), (0x0D91, 0x0DDD), (0x0D94, 0x0DDF),
];
/// Devanagari RA + VIRAMA (reph) + LETTER I looks like LETTER II: dotted circle before the I.
const REPH_I: [char; 3] = ['\u{0930}', '\u{094D}', '\u{0907}'];

const KNDA_RA: char = '\u{0CB0}';
const KNDA_HALANT: char = '\u{0CCD}';

fn is_prohibited(a: char, b: char) -> bool {
    PROHIBITED_PAIRS.contains(&(a as u32, b as u32))
}

fn is_prohibited_second(c: char) -> bool {
    c == REPH_I[2] || PROHIBITED_PAIRS.iter().any(|&(_, b)| b == c as u32)
}

fn matra_split(c: char) -> Option<&'static [u32; 3]> {
    let cp = c as u32;
    if !(0x0900..0x0E00).contains(&cp) {
        return None;
    }
    tb::MATRA_SPLITS.iter().find(|(k, _)| *k == cp).map(|(_, v)| v)
}

fn am_split(c: char) -> Option<(char, char)> {
    let cp = c as u32;
    if cp != 0x0E33 && cp != 0x0EB3 {
        return None;
    }
    tb::AM_SPLITS
        .iter()
        .find(|(k, _)| *k == cp)
        .and_then(|(_, v)| Some((char::from_u32(v[0])?, char::from_u32(v[1])?)))
}

fn ch(cp: u32) -> char {
    char::from_u32(cp).unwrap_or('\u{FFFD}')
}

struct Ucd {
    /// canonical combining class per code point (Python's table), 0 when unknown
    ccc: Vec<u8>,
    /// 1 = assigned in the Python table (the model knows the class), 0 = the model knows nothing
    known: Vec<u8>,
    /// ccc -> modified combining class
    mcc_map: [u8; 256],
}

impl Ucd {
    fn new() -> Ucd {
        let mut ccc = vec![0u8; 0x110000];
        let mut known = vec![0u8; 0x110000];
        for &(lo, hi) in tb::ASSIGNED {
            for cp in lo..=hi {
                known[cp as usize] = 1;
            }
        }
        for &(lo, hi, v) in tb::CCC {
            for cp in lo..=hi {
                ccc[cp as usize] = v;
            }
        }
        // Modified combining classes: HarfBuzz hb-unicode.hh / SBL Hebrew Font User Manual 1.5x
        // (as documented in allsorts' unicode::mcc): Hebrew points are permuted, the Telugu length
        // marks (84, 91) and Thai SARA U/UU (103) move below the virama class; every other class
        // keeps its canonical value (Arabic is handled by AMTRA, not by a permutation).
        let mut m = [0u8; 256];
        for i in 0..256 {
            m[i] = i as u8;
        }
        let hebrew: [(u8, u8); 17] = [
            (10, 22), // sheva
            (11, 15), // hataf segol
            (12, 16), // hataf patah
            (13, 17), // hataf qamats
            (14, 23), // hiriq
            (15, 18), // tsere
            (16, 19), // segol
            (17, 20), // patah
            (18, 21), // qamats
            (19, 14), // holam
            (20, 24), // qubuts
            (21, 12), // dagesh
            (22, 25), // meteg
            (23, 13), // rafe
            (24, 10), // shin dot
            (25, 11), // sin dot
            (26, 26), // point varika
        ];
        for (from, to) in hebrew {
            m[from as usize] = to;
        }
        m[84] = 4;
        m[91] = 5;
        m[103] = 3;
        Ucd { ccc, known, mcc_map: m }
    }
    #[inline]
    fn ccc(&self, c: char) -> u8 {
        self.ccc[c as usize]
    }
    #[inline]
    fn mcc(&self, c: char) -> u8 {
        self.mcc_map[self.ccc[c as usize] as usize]
    }
    #[inline]
    fn known(&self, c: char) -> bool {
        self.known[c as usize] != 0
    }
    #[inline]
    fn is_mark(&self, c: char) -> bool {
        self.mcc(c) != 0
    }

    // ----- reference models -------------------------------------------------------------------

    /// stable insertion sort by modified class (deliberately not std's sort)
    fn stable_sort_run(&self, run: &mut [char]) {
        for i in 1..run.len() {
            let mut j = i;
            while j > 0 && self.mcc(run[j - 1]) > self.mcc(run[j]) {
                run.swap(j - 1, j);
                j -= 1;
            }
        }
    }

    /// every maximal run of marks sorted stably by modified class; nothing else moves
    fn sort_runs(&self, v: &mut [char]) {
        let n = v.len();
        let mut i = 0;
        while i < n {
            if !self.is_mark(v[i]) {
                i += 1;
                continue;
            }
            let s = i;
            while i < n && self.is_mark(v[i]) {
                i += 1;
            }
            self.stable_sort_run(&mut v[s..i]);
        }
    }

    fn model_default(&self, text: &[char]) -> Vec<char> {
        let mut v = text.to_vec();
        self.sort_runs(&mut v);
        v
    }

    /// UTR #53 (AMTRA) on one maximal run S of non-starters.
    fn amtra_run(&self, run: &[char]) -> Vec<char> {
        // step 1: canonical ordering of the run
        let mut s = run.to_vec();
        self.stable_sort_run(&mut s);
        // 2a: shadda characters (ccc = 33) to the beginning of S
        let mut out: Vec<char> = s.iter().copied().filter(|&c| self.ccc(c) == 33).collect();
        out.extend(s.iter().copied().filter(|&c| self.ccc(c) != 33));
        // 2b: if the sequence of ccc=230 characters begins with MCMs, move those to the beginning of S
        // 2c: same for ccc=220, placed before the 230 MCMs
        for class in [230u8, 220u8] {
            if let Some(first) = out.iter().position(|&c| self.ccc(c) == class) {
                let mut k = first;
                while k < out.len() && self.ccc(out[k]) == class && is_mcm(out[k]) {
                    k += 1;
                }
                if k > first {
                    let moved: Vec<char> = out.drain(first..k).collect();
                    let mut v = moved;
                    v.extend(out.into_iter());
                    out = v;
                }
            }
        }
        out
    }

    fn model_arabic(&self, text: &[char]) -> Vec<char> {
        let mut out = Vec::with_capacity(text.len());
        let n = text.len();
        let mut i = 0;
        while i < n {
            if !self.is_mark(text[i]) {
                out.push(text[i]);
                i += 1;
                continue;
            }
            let s = i;
            while i < n && self.is_mark(text[i]) {
                i += 1;
            }
            out.extend(self.amtra_run(&text[s..i]));
        }
        out
    }

    fn is_above_thai_lao(&self, c: char) -> bool {
        let cp = c as u32;
        (0x0E00..0x0F00).contains(&cp) && tb::THAI_LAO_MN.contains(&cp) && !THAI_LAO_BELOW.contains(&cp)
    }

    /// Thai/Lao: the first `limit` AM vowels are split into nikhahit + aa, the nikhahit goes in front of
    /// the above-base marks that precede the AM; then the mark runs are sorted.
    /// `same_script`: only above-base marks of the AM's own block count; `presort`: sort first.
    fn model_thai_lao(&self, text: &[char], same_script: bool, presort: bool, limit: usize) -> Vec<char> {
        let mut src = text.to_vec();
        if presort {
            self.sort_runs(&mut src);
        }
        let mut out: Vec<char> = Vec::with_capacity(src.len() + 4);
        let mut done = 0usize;
        for &c in &src {
            match am_split(c) {
                Some((nik, aa)) if done < limit => {
                    done += 1;
                    let lao = (c as u32) >= 0x0E80;
                    let mut j = out.len();
                    while j > 0
                        && self.is_above_thai_lao(out[j - 1])
                        && (!same_script || ((out[j - 1] as u32) >= 0x0E80) == lao)
                    {
                        j -= 1;
                    }
                    out.insert(j, nik);
                    out.push(aa);
                }
                _ => out.push(c),
            }
        }
        self.sort_runs(&mut out);
        out
    }

    /// Indic: dotted circle between prohibited vowel sequences, split vowels decomposed, mark runs
    /// sorted, Bengali ya+nukta -> yya, Kannada ra-halant-ZWJ swap at the start of the text.
    /// `overlap`: every adjacent prohibited pair of the input gets a circle (otherwise pairs are
    /// matched left to right without overlap); `presort`: sort before looking for pairs.
    fn model_indic(&self, text: &[char], beng: bool, knda: bool, overlap: bool, presort: bool) -> Vec<char> {
        let mut src = text.to_vec();
        if presort {
            self.sort_runs(&mut src);
        }
        // 1. vowel constraints
        let mut a: Vec<char> = Vec::with_capacity(src.len() + 4);
        let n = src.len();
        let mut i = 0;
        while i < n {
            if i + 2 < n && src[i] == REPH_I[0] && src[i + 1] == REPH_I[1] && src[i + 2] == REPH_I[2] {
                a.extend_from_slice(&[REPH_I[0], REPH_I[1], DOTTED_CIRCLE, REPH_I[2]]);
                i += 3;
                continue;
            }
            a.push(src[i]);
            if i + 1 < n && is_prohibited(src[i], src[i + 1]) {
                a.push(DOTTED_CIRCLE);
                if !overlap {
                    a.push(src[i + 1]);
                    i += 2;
                    continue;
                }
            }
            i += 1;
        }
        // 2. split vowels
        let mut b: Vec<char> = Vec::with_capacity(a.len() + 4);
        for &c in &a {
            match matra_split(c) {
                Some(parts) => {
                    for &p in parts.iter() {
                        if p != 0 {
                            b.push(ch(p));
                        }
                    }
                }
                None => b.push(c),
            }
        }
        // 3. marks
        self.sort_runs(&mut b);
        // 4. Bengali ya + nukta
        if beng {
            let (yya, parts) = tb::YA_NUKTA;
            let (ya, nukta) = (ch(parts[0]), ch(parts[1]));
            let mut c2 = Vec::with_capacity(b.len());
            let mut i = 0;
            while i < b.len() {
                if i + 1 < b.len() && b[i] == ya && b[i + 1] == nukta {
                    c2.push(ch(yya));
                    i += 2;
                } else {
                    c2.push(b[i]);
                    i += 1;
                }
            }
            b = c2;
        }
        // 5. Kannada
        if knda && b.len() >= 3 && b[0] == KNDA_RA && b[1] == KNDA_HALANT && b[2] == ZWJ {
            b.swap(1, 2);
        }
        b
    }

    fn model_khmer(&self, text: &[char]) -> Vec<char> {
        let mut out = Vec::with_capacity(text.len() + 4);
        for &c in text {
            if KHMER_SPLIT.contains(&c) {
                out.push(KHMER_E);
            }
            out.push(c);
        }
        self.sort_runs(&mut out);
        out
    }
}

fn same_multiset(a: &[char], b: &[char]) -> bool {
    if a.len() != b.len() {
        return false;
    }
    let mut x = a.to_vec();
    let mut y = b.to_vec();
    x.sort_unstable();
    y.sort_unstable();
    x == y
}

fn hexs(v: &[char]) -> J {
    let mut s = String::with_capacity(v.len() * 5);
    for (i, c) in v.iter().enumerate() {
        if i > 0 {
            s.push(' ');
        }
        s.push_str(&format!("{:04X}", *c as u32));
    }
    J::S(s)
}

fn tag_str(tag: u32) -> String {
    let b = tag.to_be_bytes();
    if b.iter().all(|c| (0x20..0x7f).contains(c)) {
        format!("'{}'", String::from_utf8_lossy(&b))
    } else {
        format!("0x{:08X}", tag)
    }
}

fn count(v: &[char], c: char) -> usize {
    v.iter().filter(|&&x| x == c).count()
}

// ---------------------------------------------------------------------------------------------
// Pools and text generation
// ---------------------------------------------------------------------------------------------

#[derive(Default)]
struct Block {
    bases: Vec<char>,
    marks: Vec<char>,
}

type StaticFont = Font<DynamicFontTableProvider<'static>>;

pub struct C17 {
    u: Ucd,
    blocks: Vec<(Blk, Block)>,
    /// every assigned character with ccc != 0
    all_marks: Vec<char>,
    /// marks grouped by class, for runs with many equal keys
    marks_by_class: Vec<Vec<char>>,
    specials: Vec<char>,
    astral: Vec<char>,
    words: Vec<(Blk, Vec<Vec<char>>)>,
    fonts: Vec<StaticFont>,
    total_weight: u32,
    strict: bool,
}

fn load_font(path: &str) -> Option<StaticFont> {
    let data: &'static [u8] = Box::leak(std::fs::read(path).ok()?.into_boxed_slice());
    let fd = ReadScope::new(data).read::<FontData<'static>>().ok()?;
    let provider = fd.table_provider(0).ok()?;
    Font::new(provider).ok()
}

fn load_words(path: &str, max: usize) -> Vec<Vec<char>> {
    let s = match std::fs::read_to_string(path) {
        Ok(s) => s,
        Err(_) => return Vec::new(),
    };
    let lines: Vec<&str> = s.lines().filter(|l| !l.is_empty() && l.chars().count() <= 48).collect();
    let stride = (lines.len() / max.max(1)).max(1);
    lines.iter().step_by(stride).map(|l| l.chars().collect()).collect()
}

impl C17 {
    pub fn new(cx: &mut Ctx) -> C17 {
        let u = Ucd::new();
        let mut blocks = Vec::new();
        for &(b, ranges) in BLOCKS {
            let mut blk = Block::default();
            for &(lo, hi) in ranges {
                for cp in lo..=hi {
                    if let Some(c) = char::from_u32(cp) {
                        // the pool only contains characters the generated table knows
                        if !u.known(c) {
                            continue;
                        }
                        if u.is_mark(c) {
                            blk.marks.push(c);
                        } else {
                            blk.bases.push(c);
                        }
                    }
                }
            }
            blocks.push((b, blk));
        }
        let mut all_marks = Vec::new();
        let mut marks_by_class: Vec<Vec<char>> = vec![Vec::new(); 256];
        for &(lo, hi, v) in tb::CCC {
            for cp in lo..=hi {
                if let Some(c) = char::from_u32(cp) {
                    all_marks.push(c);
                    marks_by_class[v as usize].push(c);
                }
            }
        }
        marks_by_class.retain(|v| !v.is_empty());
        let mut specials = vec![ZWJ, ZWNJ, CGJ, DOTTED_CIRCLE, ' ', '\u{00A0}', '-', '\u{FE00}', '\u{FE01}', '\u{FE02}', '\u{FE0E}', '\u{FE0F}', '\u{FE03}', '\u{E0100}', '\u{E01EF}', '\u{180B}', '\u{200B}', '\u{2060}', '\u{FEFF}', '\u{0640}', '\u{E000}', '\u{F8FF}', '\u{0000}', '\u{FFFD}', '\u{02FF}', '\u{0300}'];
        let mut astral = vec!['\u{1F600}', '\u{10000}', '\u{1D165}', '\u{1D166}', '\u{1D167}', '\u{1D16D}', '\u{1D17B}', '\u{1D185}', '\u{1E8D0}', '\u{1E8D6}', '\u{10A0D}', '\u{10A0F}', '\u{10A38}', '\u{10A39}', '\u{10A3A}', '\u{10A3F}', '\u{11046}', '\u{1D242}', '\u{16AF0}', '\u{F0000}', '\u{10FFFD}', '\u{20000}', '\u{1F1E6}', '\u{E0001}'];
        specials.retain(|&c| u.known(c));
        astral.retain(|&c| u.known(c));
        // self-checks of the tables the model relies on (a failure means the oracle is unusable)
        let expect_ccc: &[(u32, u8)] = &[(0x0651, 33), (0x0654, 230), (0x0655, 220), (0x064B, 27), (0x0670, 35), (0x0711, 36), (0x05B0, 10), (0x05BC, 21), (0x0E38, 103), (0x0E48, 107), (0x0EB8, 118), (0x0EC8, 122), (0x0C55, 84), (0x0C56, 91), (0x093C, 7), (0x094D, 9), (0x17D2, 9), (0x0E4D, 0), (0x0E33, 0), (0x034F, 0), (0x200D, 0), (0x25CC, 0), (0x0F71, 129), (0x0345, 240)];
        let mut ok = tb::MATRA_SPLITS.len() >= 21 && tb::AM_SPLITS.len() == 2 && tb::YA_NUKTA == (0x09DF, [0x09AF, 0x09BC]);
        for &(cp, v) in expect_ccc {
            ok &= u.ccc(ch(cp)) == v && u.known(ch(cp));
        }
        for &m in MCM {
            ok &= u.known(m) && (u.ccc(m) == 220 || u.ccc(m) == 230);
        }
        if !ok {
            cx.inconclusive("oracle-self-check:tables");
            eprintln!("C17: generated tables failed the self-check (unicode {})", tb::UNIDATA_VERSION);
        }
        let mut words = Vec::new();
        let max = if cx.quick() { 1500 } else { 6000 };
        for (b, f) in [
            (Blk::Deva, "indic/good.hi"),
            (Blk::Beng, "indic/good.bn"),
            (Blk::Guru, "indic/good.pa"),
            (Blk::Gujr, "indic/good.gu"),
            (Blk::Orya, "indic/good.or"),
            (Blk::Taml, "indic/good.ta"),
            (Blk::Telu, "indic/good.te"),
            (Blk::Knda, "indic/good.kn"),
            (Blk::Mlym, "indic/good.ml"),
            (Blk::Sinh, "indic/good.si"),
            (Blk::Khmer, "khmer/good"),
            (Blk::Myanmar, "myanmar/good"),
        ] {
            let w = load_words(&format!("/repo/tests/{}", f), max);
            if !w.is_empty() {
                words.push((b, w));
            }
        }
        let mut fonts = Vec::new();
        for f in ["NotoSansThai-Regular.ttf", "NotoNaskhArabic-Regular.ttf", "NotoSansKannada-Regular.ttf"] {
            if let Some(font) = load_font(&format!("/repo/tests/fonts/noto/{}", f)) {
                fonts.push(font);
            }
        }
        let total_weight = SCRIPTS.iter().map(|s| s.weight).sum();
        let strict = cx.mode == "strict";
        C17 { u, blocks, all_marks, marks_by_class, specials, astral, words, fonts, total_weight, strict }
    }

    fn block(&self, b: Blk) -> &Block {
        self.blocks.iter().find(|(k, _)| *k == b).map(|(_, v)| v).unwrap_or(&self.blocks[0].1)
    }

    fn pick_script(&self, rng: &mut Rng) -> &'static Sc {
        let mut k = rng.below(self.total_weight as usize) as u32;
        for s in SCRIPTS {
            if k < s.weight {
                return s;
            }
            k -= s.weight;
        }
        &SCRIPTS[0]
    }

    fn any_base(&self, rng: &mut Rng) -> char {
        let b = &self.blocks[rng.below(self.blocks.len())].1;
        if b.bases.is_empty() {
            'a'
        } else {
            *rng.pick(&b.bases)
        }
    }

    fn base_of(&self, rng: &mut Rng, home: Blk) -> char {
        let b = self.block(home);
        if b.bases.is_empty() || rng.chance(1, 24) {
            self.any_base(rng)
        } else {
            *rng.pick(&b.bases)
        }
    }

    fn mark_of(&self, rng: &mut Rng, home: Blk) -> char {
        let b = self.block(home);
        if b.marks.is_empty() || rng.chance(1, 8) {
            *rng.pick(&self.all_marks)
        } else {
            *rng.pick(&b.marks)
        }
    }

    /// a run of `n` marks drawn from a small palette (many equal keys, several classes)
    fn mark_run(&self, rng: &mut Rng, home: Blk, n: usize, out: &mut Vec<char>) {
        let mut palette: Vec<char> = Vec::new();
        let psize = 1 + rng.below(8);
        for _ in 0..psize {
            match rng.below(6) {
                0 => {
                    // two different marks of one class: stability is observable
                    let cls = rng.pick(&self.marks_by_class);
                    palette.push(*rng.pick(cls));
                    palette.push(*rng.pick(cls));
                }
                1 => palette.push(*rng.pick(&self.all_marks)),
                _ => palette.push(self.mark_of(rng, home)),
            }
        }
        if home == Blk::Arabic || rng.chance(1, 10) {
            if rng.chance(3, 4) {
                palette.push(SHADDA);
            }
            for _ in 0..rng.below(4) {
                palette.push(*rng.pick(MCM));
            }
            for _ in 0..rng.below(3) {
                palette.push(ch(rng.urange(0x064B, 0x0652) as u32));
            }
            if rng.chance(1, 3) {
                palette.push(*rng.pick(&['\u{0656}', '\u{065C}', '\u{0653}', '\u{0670}', '\u{0618}', '\u{0619}', '\u{061A}', '\u{06ED}', '\u{06E1}']));
            }
        }
        for _ in 0..n {
            out.push(*rng.pick(&palette));
        }
    }

    fn seg_arabic(&self, rng: &mut Rng, out: &mut Vec<char>) {
        // several shaddas interleaved with MCMs and marks of classes 27-35, 220, 230
        if !rng.chance(1, 6) {
            out.push(self.base_of(rng, Blk::Arabic));
        }
        let n = match rng.below(8) {
            0 if rng.chance(1, 12) => rng.urange(65, 300),
            0 => rng.urange(21, 48),
            1 => rng.urange(12, 24),
            _ => rng.urange(1, 9),
        };
        let marks: &[u32] = &[0x064B, 0x064C, 0x064D, 0x064E, 0x064F, 0x0650, 0x0651, 0x0652, 0x0653, 0x0656, 0x065C, 0x0670, 0x0618, 0x0619, 0x061A, 0x06D6, 0x06DF, 0x06E1, 0x06EA, 0x06ED, 0x08D4, 0x08E3, 0x08F0, 0x08F1, 0x08F2, 0x05B0, 0x05BC, 0x0711, 0x0300, 0x0316];
        for _ in 0..n {
            let c = match rng.below(10) {
                0..=2 => SHADDA,
                3..=5 => *rng.pick(MCM),
                6 if rng.chance(1, 6) => CGJ,
                _ => ch(*rng.pick(marks)),
            };
            out.push(c);
        }
    }

    fn seg_thai_lao(&self, rng: &mut Rng, lao: bool, out: &mut Vec<char>) {
        let (base, am, tones, above, below, nik): (u32, u32, &[u32], &[u32], &[u32], u32) = if !lao {
            (0x0E01, 0x0E33, &[0x0E48, 0x0E49, 0x0E4A, 0x0E4B], &[0x0E31, 0x0E34, 0x0E35, 0x0E36, 0x0E37, 0x0E47, 0x0E4C, 0x0E4D, 0x0E4E], &[0x0E38, 0x0E39, 0x0E3A], 0x0E4D)
        } else {
            (0x0E81, 0x0EB3, &[0x0EC8, 0x0EC9, 0x0ECA, 0x0ECB], &[0x0EB1, 0x0EB4, 0x0EB5, 0x0EB6, 0x0EB7, 0x0EBB, 0x0ECC, 0x0ECD], &[0x0EB8, 0x0EB9, 0x0EBA, 0x0EBC], 0x0ECD)
        };
        let nsyl = 1 + rng.below(4);
        for _ in 0..nsyl {
            if !rng.chance(1, 8) {
                out.push(if rng.chance(1, 3) { ch(base + rng.below(20) as u32) } else { self.base_of(rng, if lao { Blk::Lao } else { Blk::Thai }) });
            }
            for _ in 0..rng.small(5) {
                let c = match rng.below(10) {
                    0..=3 => *rng.pick(tones),
                    4..=5 => *rng.pick(above),
                    6..=7 => *rng.pick(below),
                    8 => nik,
                    _ => {
                        // the other script's marks
                        if lao { *rng.pick(&[0x0E48u32, 0x0E49, 0x0E34, 0x0E38]) } else { *rng.pick(&[0x0EC8u32, 0x0EC9, 0x0EB4, 0x0EB8]) }
                    }
                };
                out.push(ch(c));
            }
            if rng.chance(2, 3) {
                out.push(ch(am));
                if rng.chance(1, 6) {
                    out.push(ch(am));
                }
            }
        }
    }

    fn seg_indic(&self, rng: &mut Rng, s: &Sc, out: &mut Vec<char>) {
        let home = s.home;
        match rng.below(9) {
            0 => {
                // two-/three-part vowel after a base (own script preferred)
                let own: Vec<u32> = tb::MATRA_SPLITS.iter().map(|(k, _)| *k).filter(|k| self.block(home).bases.contains(&ch(*k)) || self.block(home).marks.contains(&ch(*k))).collect();
                out.push(self.base_of(rng, home));
                for _ in 0..rng.small(2) {
                    out.push(self.mark_of(rng, home));
                }
                let k = if own.is_empty() || rng.chance(1, 5) { tb::MATRA_SPLITS[rng.below(tb::MATRA_SPLITS.len())].0 } else { *rng.pick(&own) };
                out.push(ch(k));
                for _ in 0..rng.small(3) {
                    out.push(self.mark_of(rng, home));
                }
            }
            1 => {
                // prohibited vowel pair (own script preferred), sometimes chained / with a mark between
                let lo = self.block(home).bases.first().map(|c| *c as u32 & !0x7F).unwrap_or(0);
                let own: Vec<(u32, u32)> = PROHIBITED_PAIRS.iter().copied().filter(|(a, _)| (a & !0x7F) == lo).collect();
                let (a, b) = if own.is_empty() || rng.chance(1, 5) { *rng.pick(PROHIBITED_PAIRS) } else { *rng.pick(&own) };
                out.push(ch(a));
                if rng.chance(1, 8) {
                    out.push(self.mark_of(rng, home));
                }
                out.push(ch(b));
                if rng.chance(1, 3) {
                    // something that chains onto the second character
                    let next: Vec<u32> = PROHIBITED_PAIRS.iter().filter(|(x, _)| *x == b).map(|(_, y)| *y).collect();
                    if !next.is_empty() {
                        out.push(ch(*rng.pick(&next)));
                    } else {
                        out.push(ch(b));
                    }
                }
            }
            2 => {
                // reph + I
                if rng.chance(1, 3) {
                    out.push(self.base_of(rng, Blk::Deva));
                }
                out.extend_from_slice(&REPH_I[..2]);
                if rng.chance(1, 6) {
                    out.push(*rng.pick(&[ZWJ, ZWNJ, '\u{093C}']));
                }
                out.push(if rng.chance(4, 5) { REPH_I[2] } else { '\u{0908}' });
            }
            3 => {
                // Bengali ya + nukta, with marks that sort around the nukta
                out.push('\u{09AF}');
                for _ in 0..rng.small(2) {
                    out.push(*rng.pick(&['\u{09CD}', '\u{09BC}', '\u{09C1}', '\u{0981}', '\u{09FE}', '\u{0951}']));
                }
                out.push('\u{09BC}');
                if rng.chance(1, 3) {
                    out.push('\u{09AF}');
                    out.push('\u{09BC}');
                }
            }
            4 => {
                // Kannada ra + halant + ZWJ (at the start when the text is still empty)
                if rng.chance(1, 4) {
                    out.push(self.base_of(rng, Blk::Knda));
                }
                out.push(KNDA_RA);
                if rng.chance(1, 8) {
                    out.push('\u{0CBC}');
                }
                out.push(KNDA_HALANT);
                out.push(if rng.chance(5, 6) { ZWJ } else { ZWNJ });
                out.push(self.base_of(rng, Blk::Knda));
            }
            5 => {
                // halant / nukta / length-mark permutations (modified classes 4, 5, 7, 9)
                out.push(self.base_of(rng, home));
                let m: &[u32] = &[0x093C, 0x094D, 0x0C4D, 0x0C55, 0x0C56, 0x0CBC, 0x0CCD, 0x09BC, 0x09CD, 0x0DCA, 0x0951, 0x0952, 0x1CD0, 0x0B3C, 0x0B4D, 0x0A3C, 0x0A4D, 0x0D4D, 0x0D3B];
                for _ in 0..1 + rng.small(5) {
                    out.push(ch(*rng.pick(m)));
                }
            }
            _ => {
                if let Some((_, w)) = self.words.iter().find(|(b, _)| *b == home) {
                    out.extend_from_slice(&w[rng.below(w.len())]);
                } else {
                    out.push(self.base_of(rng, home));
                    out.push(self.mark_of(rng, home));
                }
            }
        }
    }

    fn seg_generic(&self, rng: &mut Rng, home: Blk, out: &mut Vec<char>) {
        match rng.below(10) {
            0 => out.push(*rng.pick(&self.specials)),
            1 => out.push(*rng.pick(&self.astral)),
            2 => {
                // lone marks
                for _ in 0..1 + rng.small(4) {
                    out.push(self.mark_of(rng, home));
                }
            }
            3 => {
                // long run
                if rng.bool() {
                    out.push(self.base_of(rng, home));
                }
                let n = if rng.chance(1, 2) { rng.urange(32, 60) } else { rng.urange(18, 34) };
                self.mark_run(rng, home, n, out);
            }
            4 => {
                // foreign script syllable
                let b = self.blocks[rng.below(self.blocks.len())].0;
                out.push(self.base_of(rng, b));
                for _ in 0..rng.small(3) {
                    out.push(self.mark_of(rng, b));
                }
            }
            5 => {
                if let Some((_, w)) = self.words.iter().find(|(b, _)| *b == home) {
                    out.extend_from_slice(&w[rng.below(w.len())]);
                } else {
                    out.push(self.base_of(rng, home));
                }
            }
            6 => {
                // marks separated by a joiner / CGJ / variation selector
                out.push(self.base_of(rng, home));
                out.push(self.mark_of(rng, home));
                out.push(*rng.pick(&[ZWJ, ZWNJ, CGJ, '\u{FE0F}', '\u{FE00}', DOTTED_CIRCLE]));
                out.push(self.mark_of(rng, home));
            }
            _ => {
                out.push(self.base_of(rng, home));
                let n = rng.small(6);
                self.mark_run(rng, home, n, out);
            }
        }
    }

    fn gen_text(&self, rng: &mut Rng, s: &Sc) -> Vec<char> {
        let mut out: Vec<char> = Vec::new();
        let target = match rng.below(16) {
            0 => return out,
            1 => 1,
            2 => 2,
            3..=8 => rng.urange(3, 12),
            _ => rng.urange(8, 64),
        };
        if target == 1 {
            match rng.below(4) {
                0 => out.push(self.mark_of(rng, s.home)),
                1 => out.push(*rng.pick(&self.specials)),
                _ => out.push(self.base_of(rng, s.home)),
            }
            return out;
        }
        // lone marks at the very start
        if rng.chance(1, 8) {
            for _ in 0..1 + rng.small(3) {
                out.push(self.mark_of(rng, s.home));
            }
        }
        while out.len() < target {
            let specific = rng.chance(3, 5);
            match s.home {
                Blk::Arabic | Blk::Syriac if specific => self.seg_arabic(rng, &mut out),
                Blk::Thai if specific => {
                    let lao = rng.chance(1, 10);
                    self.seg_thai_lao(rng, lao, &mut out)
                }
                Blk::Lao if specific => {
                    let lao = !rng.chance(1, 10);
                    self.seg_thai_lao(rng, lao, &mut out)
                }
                Blk::Deva | Blk::Beng | Blk::Guru | Blk::Gujr | Blk::Orya | Blk::Taml | Blk::Telu | Blk::Knda | Blk::Mlym | Blk::Sinh
                    if specific =>
                {
                    self.seg_indic(rng, s, &mut out)
                }
                Blk::Khmer if specific && rng.bool() => {
                    out.push(self.base_of(rng, Blk::Khmer));
                    if rng.bool() {
                        out.push('\u{17D2}');
                        out.push(self.base_of(rng, Blk::Khmer));
                    }
                    for _ in 0..rng.small(2) {
                        out.push(self.mark_of(rng, Blk::Khmer));
                    }
                    out.push(if rng.chance(1, 5) { KHMER_E } else { *rng.pick(KHMER_SPLIT) });
                    for _ in 0..rng.small(2) {
                        out.push(self.mark_of(rng, Blk::Khmer));
                    }
                }
                _ => {
                    // hostile material of another family now and then
                    match rng.below(24) {
                        0 => self.seg_arabic(rng, &mut out),
                        1 => {
                            let lao = rng.bool();
                            self.seg_thai_lao(rng, lao, &mut out)
                        }
                        2 => self.seg_indic(rng, s, &mut out),
                        _ => self.seg_generic(rng, s.home, &mut out),
                    }
                }
            }
        }
        if out.len() > 64 && !(out.len() > 100 && s.class == Class::Arabic) {
            out.truncate(64);
        }
        out
    }

    fn gen_arbitrary(&self, rng: &mut Rng) -> Vec<char> {
        let n = match rng.below(8) {
            0 => rng.below(3),
            _ => rng.urange(1, 64),
        };
        let mut out = Vec::with_capacity(n);
        while out.len() < n {
            let cp = match rng.below(8) {
                0 => rng.below(0x3000) as u32,
                1 => rng.below(0x10000) as u32,
                2 => *rng.pick(&self.all_marks) as u32,
                _ => rng.below(0x110000) as u32,
            };
            if let Some(c) = char::from_u32(cp) {
                out.push(c);
            }
        }
        out
    }
}

// ---------------------------------------------------------------------------------------------
// Oracle
// ---------------------------------------------------------------------------------------------

struct Wit<'a> {
    tag: u32,
    sc: Option<&'static Sc>,
    class: Class,
    text: &'a [char],
    out: &'a [char],
}

fn add(d: &mut Vec<(char, i32)>, c: char, v: i32) {
    if let Some(e) = d.iter_mut().find(|e| e.0 == c) {
        e.1 += v;
    } else {
        d.push((c, v));
    }
}

fn get(d: &[(char, i32)], c: char) -> i32 {
    d.iter().find(|e| e.0 == c).map(|e| e.1).unwrap_or(0)
}

impl C17 {
    fn viol(&self, cx: &mut Ctx, w: &Wit, rule: &str, sig: &str, expected: Option<&[char]>, note: &str) {
        let mut items = vec![
            ("script_tag", J::s(tag_str(w.tag))),
            ("script_class", J::s(w.class.name())),
            ("input", hexs(w.text)),
            ("observed", hexs(w.out)),
        ];
        if let Some(e) = expected {
            items.push(("expected", hexs(e)));
        }
        items.push(("input_ccc", J::S(w.text.iter().map(|&c| self.u.ccc(c).to_string()).collect::<Vec<_>>().join(" "))));
        items.push(("note", J::s(note)));
        cx.violation(rule, sig, J::obj(items));
    }

    /// Layer 1 for Thai/Lao, Indic, Khmer: the multiset of characters of `out` is the multiset of
    /// `text` after some of the documented rewrites. Needs only the rewrite lists.
    fn multiset_explained(&self, class: Class, beng: bool, text: &[char], out: &[char]) -> Result<(), &'static str> {
        let mut d: Vec<(char, i32)> = Vec::with_capacity(text.len() + 8);
        for &c in out {
            add(&mut d, c, 1);
        }
        for &c in text {
            add(&mut d, c, -1);
        }
        // split vowels that disappeared must have left their parts
        for k in 0..d.len() {
            let (c, v) = d[k];
            if v == 0 {
                continue;
            }
            let parts: Option<[u32; 3]> = match class {
                Class::ThaiLao => am_split(c).map(|(a, b)| [a as u32, b as u32, 0]),
                Class::Indic | Class::Indic2 => matra_split(c).copied(),
                _ => None,
            };
            if let Some(parts) = parts {
                if v > 0 {
                    return Err("split-vowel-created");
                }
                d[k].1 = 0;
                for p in parts {
                    if p != 0 {
                        add(&mut d, ch(p), v); // v < 0: -s
                    }
                }
            }
        }
        match class {
            Class::Indic | Class::Indic2 => {
                if beng {
                    let (yya, parts) = tb::YA_NUKTA;
                    let y = get(&d, ch(yya));
                    if y > 0 {
                        add(&mut d, ch(yya), -y);
                        add(&mut d, ch(parts[0]), y);
                        add(&mut d, ch(parts[1]), y);
                    }
                }
                let dc = get(&d, DOTTED_CIRCLE);
                let bound = text.iter().filter(|&&c| is_prohibited_second(c)).count() as i32;
                if dc > 0 && dc <= bound {
                    add(&mut d, DOTTED_CIRCLE, -dc);
                }
            }
            Class::Khmer => {
                let k = get(&d, KHMER_E);
                let bound = text.iter().filter(|c| KHMER_SPLIT.contains(c)).count() as i32;
                if k > 0 && k <= bound {
                    add(&mut d, KHMER_E, -k);
                }
            }
            _ => {}
        }
        if d.iter().all(|e| e.1 == 0) {
            Ok(())
        } else {
            Err("content-changed")
        }
    }

    /// Layer 1: class-0 characters that take no part in a documented rewrite keep their relative order.
    fn base_order_preserved(&self, class: Class, beng: bool, text: &[char], out: &[char]) -> bool {
        let mut inv: Vec<char> = Vec::new();
        match class {
            Class::ThaiLao => {
                for &c in text {
                    if let Some((a, b)) = am_split(c) {
                        inv.extend_from_slice(&[c, a, b]);
                    }
                }
            }
            Class::Indic | Class::Indic2 => {
                for &c in text {
                    if let Some(p) = matra_split(c) {
                        inv.push(c);
                        inv.extend(p.iter().filter(|&&x| x != 0).map(|&x| ch(x)));
                    }
                }
                if text.iter().any(|&c| is_prohibited_second(c)) {
                    inv.push(DOTTED_CIRCLE);
                }
            }
            Class::Khmer => {
                if text.iter().any(|c| KHMER_SPLIT.contains(c)) {
                    inv.push(KHMER_E);
                }
            }
            _ => {}
        }
        let (yya, ya) = (ch(tb::YA_NUKTA.0), ch(tb::YA_NUKTA.1[0]));
        let norm = |c: char| if beng && c == yya { ya } else { c };
        let a = text.iter().copied().filter(|&c| !self.u.is_mark(c) && !inv.contains(&c)).map(norm);
        let b = out.iter().copied().filter(|&c| !self.u.is_mark(c) && !inv.contains(&c)).map(norm);
        a.eq(b)
    }

    /// Layers 1 and 2 for the scripts without decompositions.
    /// `kind`: Arabic (AMTRA), Default/Syriac (stable sort).
    fn check_permutation(&self, cx: &mut Ctx, w: &Wit, arabic: bool, known_all: bool) -> bool {
        let (text, out) = (w.text, w.out);
        let cname = w.class.name();
        if !same_multiset(text, out) {
            self.viol(cx, w, "multiset", &format!("{}:content-changed", cname), None, "output is not a permutation of the input (sentence 2: 'the result is a permutation of the input')");
            return false;
        }
        if !known_all {
            cx.class("unknown-chars:multiset-only");
            return true;
        }
        let n = text.len();
        let mut i = 0;
        while i < n {
            if !self.u.is_mark(text[i]) {
                if out[i] != text[i] {
                    self.viol(cx, w, "base-moved", &format!("{}:base-moved", cname), None, &format!("class-0 character at index {} did not keep its position", i));
                    return false;
                }
                i += 1;
                continue;
            }
            let s = i;
            while i < n && self.u.is_mark(text[i]) {
                i += 1;
            }
            let run = &text[s..i];
            let got = &out[s..i];
            let exp = if arabic {
                self.u.amtra_run(run)
            } else {
                let mut e = run.to_vec();
                self.u.stable_sort_run(&mut e);
                e
            };
            if got != &exp[..] {
                let len_cls = if run.len() > 20 { "run>20" } else { "run<=20" };
                if !same_multiset(run, got) {
                    self.viol(cx, w, "run-permutation", &format!("{}:marks-left-their-run", cname), None, &format!("mark run at {}..{} is not a permutation of itself", s, i));
                } else if arabic {
                    let mut full = out.to_vec();
                    full[s..i].copy_from_slice(&exp);
                    let mut sorted = run.to_vec();
                    self.u.stable_sort_run(&mut sorted);
                    let what = if got == &sorted[..] {
                        "amtra-rules-not-applied"
                    } else if got.iter().position(|&c| self.u.ccc(c) == 33) != exp.iter().position(|&c| self.u.ccc(c) == 33)
                        || count_leading_after_mcm(got, &self.u) != count_leading_after_mcm(&exp, &self.u)
                    {
                        "shadda-placement"
                    } else {
                        "order"
                    };
                    self.viol(cx, w, "amtra", &format!("arabic:amtra-mismatch:{}:{}", what, len_cls), Some(&full), &format!("mark run at {}..{} differs from the UTR #53 reference", s, i));
                } else {
                    let sorted = got.windows(2).all(|p| self.u.mcc(p[0]) <= self.u.mcc(p[1]));
                    let mut full = out.to_vec();
                    full[s..i].copy_from_slice(&exp);
                    let what = if sorted { "unstable" } else { "unsorted" };
                    self.viol(cx, w, "stable-sort", &format!("{}:mark-run-{}:{}", cname, what, len_cls), Some(&full), &format!("mark run at {}..{} is not the stable sort by modified combining class", s, i));
                }
                return false;
            }
        }
        true
    }

    /// Layers 1 and 2 for Thai/Lao, Indic, Khmer. Returns false when a violation was reported.
    fn check_rewriting(&self, cx: &mut Ctx, w: &Wit, known_all: bool) -> bool {
        let (text, out) = (w.text, w.out);
        let class = w.class;
        let cname = class.name();
        let (beng, knda) = w.sc.map(|s| (s.beng, s.knda)).unwrap_or((false, false));
        if let Err(why) = self.multiset_explained(class, beng, text, out) {
            self.viol(cx, w, "multiset", &format!("{}:{}", cname, why), None, "the characters of the output are not the characters of the input modulo the documented rewrites");
            return false;
        }
        let max_len = text.len() * 3 + 1;
        if out.len() > max_len || out.len() * 2 < text.len() {
            self.viol(cx, w, "length", &format!("{}:length", cname), None, "length change out of bounds");
            return false;
        }
        if !known_all {
            cx.class("unknown-chars:multiset-only");
            return true;
        }
        if !self.base_order_preserved(class, beng, text, out) {
            self.viol(cx, w, "base-moved", &format!("{}:base-order", cname), None, "class-0 characters not involved in a documented rewrite changed their relative order");
            return false;
        }
        match class {
            Class::Khmer => {
                let exp = self.u.model_khmer(text);
                if out != &exp[..] {
                    self.viol(cx, w, "exact", "khmer:exact-mismatch", Some(&exp), "differs from: U+17C1 inserted before each split vowel, then stable sort of the mark runs");
                    return false;
                }
            }
            Class::ThaiLao => {
                // readings: (only same-script above-base marks count, sort before splitting)
                const READINGS: [(bool, bool); 4] = [(false, false), (true, false), (false, true), (true, true)];
                let nam = text.iter().filter(|&&c| am_split(c).is_some()).count();
                let exp = self.u.model_thai_lao(text, false, false, usize::MAX);
                if out != &exp[..] {
                    if nam > 0 && READINGS[1..].iter().any(|&(ss, ps)| out == &self.u.model_thai_lao(text, ss, ps, usize::MAX)[..]) {
                        cx.class("exact:thai-lao-alternative-reading");
                        return true;
                    }
                    // documented split not applied to the last AM vowels?
                    for k in (0..nam).rev() {
                        if READINGS.iter().any(|&(ss, ps)| out == &self.u.model_thai_lao(text, ss, ps, k)[..]) {
                            cx.class("note:thai-lao-am-left-unsplit");
                            if self.strict {
                                self.viol(cx, w, "missed-rewrite", "thai-lao:am-left-unsplit", Some(&exp), &format!("only the first {} of {} SARA AM / AM vowels were decomposed", k, nam));
                                return false;
                            }
                            return true;
                        }
                    }
                    self.viol(cx, w, "exact", "thai-lao:exact-mismatch", Some(&exp), "differs from: AM -> nikhahit + aa with the nikhahit before the preceding above-base marks, then stable sort of the mark runs");
                    return false;
                }
            }
            Class::Indic | Class::Indic2 => {
                if class == Class::Indic2 && out == &self.u.model_default(text)[..] {
                    cx.class("indic2:default-treatment");
                    return true;
                }
                // readings: (overlapping prohibited pairs all get a circle, sort before looking for pairs)
                let exp = self.u.model_indic(text, beng, knda, false, false);
                if out != &exp[..] {
                    if [(true, false), (false, true), (true, true)].iter().any(|&(ov, ps)| out == &self.u.model_indic(text, beng, knda, ov, ps)[..]) {
                        cx.class("exact:indic-alternative-reading");
                        return true;
                    }
                    self.viol(cx, w, "exact", "indic:exact-mismatch", Some(&exp), "differs from: dotted circles, split vowels, stable sort of the mark runs, ya+nukta, ra-halant-ZWJ");
                    return false;
                }
                if exp != self.u.model_indic(text, beng, knda, true, false) {
                    cx.class("note:indic-overlapping-prohibited-pairs-one-circle");
                }
            }
            _ => {}
        }
        true
    }

    fn judge(&self, cx: &mut Ctx, w: &Wit) -> bool {
        let known_all = w.text.iter().all(|&c| self.u.known(c));
        match w.class {
            Class::Arabic => self.check_permutation(cx, w, true, known_all),
            Class::Syriac | Class::Default => self.check_permutation(cx, w, false, known_all),
            Class::Myanmar => {
                if w.out == w.text {
                    true
                } else {
                    cx.class("myanmar:changed");
                    self.check_permutation(cx, w, false, known_all)
                }
            }
            Class::ThaiLao | Class::Indic | Class::Indic2 | Class::Khmer => self.check_rewriting(cx, w, known_all),
        }
    }

    fn events(&self, cx: &mut Ctx, w: &Wit) -> bool {
        let (text, out) = (w.text, w.out);
        let mut interesting = false;
        // mark runs of the input
        let mut longest = 0usize;
        let mut i = 0;
        while i < text.len() {
            if !self.u.is_mark(text[i]) {
                i += 1;
                continue;
            }
            let s = i;
            while i < text.len() && self.u.is_mark(text[i]) {
                i += 1;
            }
            longest = longest.max(i - s);
            if w.class == Class::Arabic && text[s..i].contains(&SHADDA) {
                if text[s..i].iter().any(|&c| is_mcm(c)) {
                    cx.class("shadda+mcm");
                }
                if i - s > 20 {
                    cx.class("shadda-in-run>20");
                }
            }
        }
        if longest >= 2 {
            interesting = true;
            cx.class("run>=2");
        }
        if longest >= 21 {
            cx.class("run>=21");
        }
        if longest >= 32 {
            cx.class("run>=32");
        }
        if longest >= 65 {
            cx.class("run>=65");
        }
        if text.first().map_or(false, |&c| self.u.is_mark(c)) {
            cx.class("lone-mark-at-start");
        }
        if out != text {
            interesting = true;
            cx.class("reordered");
        }
        match w.class {
            Class::ThaiLao => {
                let am = |v: &[char]| v.iter().filter(|&&c| am_split(c).is_some()).count();
                if am(out) < am(text) {
                    cx.class("sara-am-split");
                    // nikhahit moved over at least one mark?
                    if text.windows(2).any(|p| am_split(p[1]).is_some() && self.u.is_above_thai_lao(p[0])) {
                        cx.class("sara-am-nikhahit-moved");
                    }
                }
            }
            Class::Indic | Class::Indic2 => {
                let comp = |v: &[char]| v.iter().filter(|&&c| matra_split(c).is_some()).count();
                if comp(out) < comp(text) {
                    cx.class("two-part-vowel-split");
                }
                if count(out, DOTTED_CIRCLE) > count(text, DOTTED_CIRCLE) {
                    cx.class("dotted-circle-inserted");
                }
                let yya = ch(tb::YA_NUKTA.0);
                if count(out, yya) > count(text, yya) {
                    cx.class("ya-nukta");
                }
                if text.len() >= 3 && text[0] == KNDA_RA && text[1] == KNDA_HALANT && text[2] == ZWJ && out.len() >= 3 && out[1] == ZWJ && out[2] == KNDA_HALANT {
                    cx.class("kannada-swap");
                }
                if text.len() >= 4 && text[1..].windows(3).any(|p| p == [KNDA_RA, KNDA_HALANT, ZWJ]) && w.sc.map_or(false, |s| s.knda) {
                    cx.class("kannada-ra-halant-zwj-not-at-start");
                }
            }
            Class::Khmer => {
                if count(out, KHMER_E) > count(text, KHMER_E) {
                    cx.class("khmer-vowel-split");
                }
            }
            _ => {}
        }
        interesting
    }

    /// One evaluation: preprocess_text (and optionally Font::map_glyphs) on `text` with `tag`.
    fn check_one(&mut self, cx: &mut Ctx, tag: u32, text: &[char], via_font: bool, light: bool) {
        let sc = script_for_tag(tag);
        let class = sc.map(|s| s.class).unwrap_or(Class::Default);
        let input = text.to_vec();
        let r = panic::catch_unwind(AssertUnwindSafe(move || {
            let mut v = input;
            preprocess_text(&mut v, tag);
            v
        }));
        let out = match r {
            Ok(v) => v,
            Err(_) => {
                let p = take_last_panic().unwrap_or_default();
                if is_harness_panic(&p) {
                    cx.inconclusive("harness-panic");
                    eprintln!("HARNESS-PANIC C17: {} at {}", p.message, p.location);
                } else {
                    cx.panic_violation(
                        "preprocess_text",
                        &p,
                        J::obj(vec![("script_tag", J::s(tag_str(tag))), ("script_class", J::s(class.name())), ("input", hexs(text))]),
                    );
                }
                return;
            }
        };
        let w = Wit { tag, sc, class, text, out: &out };
        let ok = self.judge(cx, &w);
        if !light {
            cx.class(&format!("script:{}", sc.map(|s| s.name).unwrap_or("other")));
            let interesting = self.events(cx, &w);
            if interesting {
                let mut h = tag as u64;
                for &c in text {
                    h = mix(h, c as u64);
                }
                cx.nontrivial(h);
            }
            if ok && out != text && cx.want_sample() {
                cx.sample(J::obj(vec![("script_tag", J::s(tag_str(tag))), ("input", hexs(text)), ("output", hexs(&out))]));
            }
        }
        if via_font && !self.fonts.is_empty() {
            let s: String = text.iter().collect();
            let k = (text.len() + tag as usize) % self.fonts.len();
            let font = &mut self.fonts[k];
            let r = panic::catch_unwind(AssertUnwindSafe(|| font.map_glyphs(&s, tag, MatchingPresentation::NotRequired)));
            match r {
                Ok(glyphs) => {
                    let got: Vec<char> = glyphs.iter().flat_map(|g| g.unicodes.iter().copied()).collect();
                    // map_glyphs consumes the variation selectors it understands (VS1-3, VS15, VS16)
                    let exp: Vec<char> = out.iter().copied().filter(|&c| !matches!(c, '\u{FE00}' | '\u{FE01}' | '\u{FE02}' | '\u{FE0E}' | '\u{FE0F}')).collect();
                    cx.class("via-map_glyphs");
                    if got != exp || glyphs.iter().any(|g| g.unicodes.len() != 1) {
                        let w2 = Wit { tag, sc, class, text, out: &got };
                        self.viol(cx, &w2, "map-glyphs", "map_glyphs:unicodes-differ-from-preprocess_text", Some(&exp), "unicodes of Font::map_glyphs differ from preprocess_text's output without variation selectors");
                    }
                }
                Err(_) => {
                    let p = take_last_panic().unwrap_or_default();
                    if is_harness_panic(&p) {
                        cx.inconclusive("harness-panic");
                    } else {
                        cx.panic_violation("map_glyphs", &p, J::obj(vec![("script_tag", J::s(tag_str(tag))), ("input", hexs(text))]));
                    }
                }
            }
        }
    }
}

/// number of characters in front of the first shadda (the MCMs moved by steps 2b/2c)
fn count_leading_after_mcm(run: &[char], u: &Ucd) -> usize {
    run.iter().take_while(|&&c| u.ccc(c) != 33).count()
}

// ---------------------------------------------------------------------------------------------
// Workload
// ---------------------------------------------------------------------------------------------

const REDUCED_POOL: &[u32] = &[
    // Arabic
    0x0628, 0x0651, 0x0654, 0x0655, 0x0658, 0x06DC, 0x06E3, 0x08D3, 0x08F3, 0x064B, 0x064E, 0x0650, 0x0652, 0x0670, 0x0653,
    0x0656, 0x065C, 0x0618, // Syriac
    0x0710, 0x0711, 0x0730, 0x0731, // Hebrew
    0x05D0, 0x05B0, 0x05B8, 0x05BC, 0x05C1, 0x05B9, 0x0591, 0x05BD, // Latin
    0x0061, 0x0301, 0x0316, 0x0334, 0x0345, 0x035C, 0x031B, 0x0321, // Thai, Lao
    0x0E01, 0x0E33, 0x0E32, 0x0E4D, 0x0E48, 0x0E49, 0x0E34, 0x0E38, 0x0E3A, 0x0E31, 0x0E81, 0x0EB3, 0x0ECD, 0x0EC8, 0x0EB4,
    0x0EB8, 0x0EBA, // Devanagari
    0x0915, 0x0930, 0x094D, 0x0907, 0x093C, 0x0905, 0x093E, 0x0946, // Bengali
    0x09AF, 0x09BC, 0x09CD, 0x09CB, 0x09CC, 0x0985, 0x09BE, 0x09DF, 0x09C7, // Gujarati
    0x0A85, 0x0AC5, 0x0ABE, 0x0AC8, // Telugu
    0x0C15, 0x0C4D, 0x0C55, 0x0C56, 0x0C46, 0x0C48, 0x0C12, // Kannada
    0x0CB0, 0x0CCD, 0x0CBC, 0x0CCB, 0x0CCA, 0x0CC0, 0x0C89, 0x0CBE, // Malayalam, Sinhala, Oriya, Tamil
    0x0D4A, 0x0D12, 0x0D3E, 0x0DDD, 0x0DDA, 0x0DCA, 0x0D91, 0x0DD9, 0x0B48, 0x0B4B, 0x0BCA, // Khmer
    0x1780, 0x17BE, 0x17C1, 0x17C4, 0x17D2, 0x17DD, // Myanmar
    0x1000, 0x1037, 0x1039, 0x103A, // Tibetan
    0x0F40, 0x0F71, 0x0F72, 0x0F74, // specials
    0x200D, 0x200C, 0x034F, 0x25CC, 0xFE0F, 0xFE00, 0x0020, 0x1D165, 0x1E8D0, 0x1F600,
];

const TRIPLE_POOL: &[u32] = &[
    0x0628, 0x0651, 0x0654, 0x0655, 0x064E, 0x0650, 0x0E01, 0x0E33, 0x0E48, 0x0E34, 0x0E38, 0x0930, 0x094D, 0x0907, 0x09AF,
    0x09BC, 0x09CD, 0x0CB0, 0x0CCD, 0x200D, 0x0CBC, 0x0A85, 0x0AC5, 0x0ABE, 0x17BE, 0x0301, 0x0316,
];

const QUICK_TAGS: &[&[u8; 4]] = &[
    b"arab", b"syrc", b"thai", b"lao ", b"deva", b"beng", b"knda", b"gujr", b"sinh", b"telu", b"khmr", b"mymr", b"latn", b"hebr",
    b"bng2", b"zzzz",
];

impl Prop for C17 {
    fn exhaustive(&mut self, cx: &mut Ctx, shard: u64, of: u64) {
        let tags: Vec<u32> = if cx.quick() {
            QUICK_TAGS.iter().map(|b| t(b)).collect()
        } else {
            let mut v: Vec<u32> = SCRIPTS.iter().map(|s| s.tag).collect();
            v.push(t(b"zzzz"));
            v
        };
        // every code point of the pool alone
        let mut pool: Vec<char> = Vec::new();
        for (_, b) in &self.blocks {
            pool.extend_from_slice(&b.bases);
            pool.extend_from_slice(&b.marks);
        }
        pool.extend_from_slice(&self.all_marks);
        pool.extend_from_slice(&self.specials);
        pool.extend_from_slice(&self.astral);
        pool.sort_unstable();
        pool.dedup();
        let viol0 = cx.violations;
        let mut idx: u64 = 0;
        let mut n: u64 = 0;
        for &tag in &tags {
            for &c in &pool {
                idx += 1;
                if idx % of != shard {
                    continue;
                }
                cx.case_seed = 0xE17_0000_0000 + idx;
                cx.evals += 1;
                n += 1;
                self.check_one(cx, tag, &[c], false, true);
            }
        }
        cx.class_n("exhaustive:single", n);
        // every ordered pair of the reduced pool
        let red: Vec<char> = REDUCED_POOL.iter().map(|&cp| ch(cp)).filter(|&c| self.u.known(c)).collect();
        n = 0;
        for &tag in &tags {
            for &a in &red {
                for &b in &red {
                    idx += 1;
                    if idx % of != shard {
                        continue;
                    }
                    cx.case_seed = 0xE17_0000_0000 + idx;
                    cx.evals += 1;
                    n += 1;
                    self.check_one(cx, tag, &[a, b], false, true);
                }
            }
        }
        cx.class_n("exhaustive:pair", n);
        // every ordered triple of a tiny pool
        let tri: Vec<char> = TRIPLE_POOL.iter().map(|&cp| ch(cp)).collect();
        n = 0;
        for &tag in &tags {
            for &a in &tri {
                for &b in &tri {
                    for &c in &tri {
                        idx += 1;
                        if idx % of != shard {
                            continue;
                        }
                        cx.case_seed = 0xE17_0000_0000 + idx;
                        cx.evals += 1;
                        n += 1;
                        self.check_one(cx, tag, &[a, b, c], false, true);
                    }
                }
            }
        }
        cx.class_n("exhaustive:triple", n);
        if cx.violations == viol0 {
            cx.class("exhaustive:clean");
        }
    }

    fn case(&mut self, cx: &mut Ctx, rng: &mut Rng) {
        let s = self.pick_script(rng);
        let tag = if rng.chance(1, 40) { rng.u32() } else { s.tag };
        let text = if rng.chance(1, 12) {
            cx.class("text:arbitrary-code-points");
            self.gen_arbitrary(rng)
        } else {
            self.gen_text(rng, s)
        };
        if text.is_empty() {
            cx.class("text:empty");
        } else if text.len() == 1 {
            cx.class("text:one-char");
        }
        let via_font = rng.chance(1, 8);
        self.check_one(cx, tag, &text, via_font, false);
    }
}
