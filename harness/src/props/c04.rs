//! C04 — glyph substitution follows OpenType GSUB lookup semantics.
//!
//! A case = one generated lookup program (GDEF + GSUB [+ FeatureVariations/fvar], written by the
//! independent writer in `gen::layout_c04` into a minimal sfnt) x a few input glyph strings x
//! feature selections, driven through allsorts four ways (Font::shape / gsub::apply x
//! Features::Custom / Features::Mask, Default-type scripts). The oracle is the reference
//! interpreter `model::gsub_c04` evaluated on the AST; glyph ids and per-glyph `unicodes` are
//! compared strictly.
//!
//! Verdicts are only drawn from *core* programs (the unambiguous part of GSUB, see DESIGN §4 C04)
//! on which the interpreter met no ambiguity; everything else (wide mode, or a core program that
//! ran into a corner where engine designs legitimately differ) is counted in classes
//! `wide:*` / `core:ambiguous:*` and never becomes a violation.

use super::Prop;
use crate::gen::layout_c04::*;
use crate::model::gsub_c04 as model;
use crate::model::gsub_c04::{MGlyph, Selection};
use crate::rt::*;
use crate::sfnt::cmap as icmap;
use allsorts::binary::read::ReadScope;
use allsorts::font::MatchingPresentation;
use allsorts::font_data::FontData;
use allsorts::gsub::{self, FeatureInfo, FeatureMask, Features, GlyphOrigin, RawGlyph, RawGlyphFlags};
use allsorts::layout::{new_layout_cache, GDEFTable, LayoutTable, GSUB};
use allsorts::tables::variable_fonts::fvar::FvarTable;
use allsorts::tables::F2Dot14;
use allsorts::tinyvec::tiny_vec;
use allsorts::Font;
use std::panic::{self, AssertUnwindSafe};

#[path = "c04_gen.rs"]
mod g4;
use g4::{tag, GenOut};

pub struct C04 {
    /// non-trivial hashes recorded so far (capped: the supervisor merges them in memory)
    recorded: usize,
    /// failures of the interpreter's hand-computed unit vectors (must be empty)
    model_failures: Vec<String>,
}

impl C04 {
    pub fn new(_cx: &mut Ctx) -> C04 {
        let model_failures = model::unit_vectors();
        for f in &model_failures {
            eprintln!("C04 MODEL SELF-TEST FAILED: {}", f);
        }
        C04 { recorded: 0, model_failures }
    }
}

fn mask_of(t: u32) -> Option<FeatureMask> {
    let s = t.to_be_bytes();
    Some(match &s {
        b"liga" => FeatureMask::LIGA,
        b"ccmp" => FeatureMask::CCMP,
        b"calt" => FeatureMask::CALT,
        b"clig" => FeatureMask::CLIG,
        b"rlig" => FeatureMask::RLIG,
        b"locl" => FeatureMask::LOCL,
        b"dlig" => FeatureMask::DLIG,
        b"smcp" => FeatureMask::SMCP,
        b"c2sc" => FeatureMask::C2SC,
        b"init" => FeatureMask::INIT,
        b"medi" => FeatureMask::MEDI,
        b"isol" => FeatureMask::ISOL,
        b"lnum" => FeatureMask::LNUM,
        b"onum" => FeatureMask::ONUM,
        b"pres" => FeatureMask::PRES,
        b"psts" => FeatureMask::PSTS,
        b"rclt" => FeatureMask::RCLT,
        b"hlig" => FeatureMask::HLIG,
        b"zero" => FeatureMask::ZERO,
        b"tnum" => FeatureMask::TNUM,
        b"fina" => FeatureMask::FINA,
        b"rvrn" => FeatureMask::RVRN,
        b"vert" | b"vrt2" => FeatureMask::VRT2_OR_VERT,
        b"frac" => FeatureMask::FRAC,
        _ => return None,
    })
}

fn tag_str(t: u32) -> String {
    t.to_be_bytes().iter().map(|&b| if (0x20..0x7F).contains(&b) { b as char } else { '?' }).collect()
}

type Obs = Vec<(u16, Vec<char>)>;

#[derive(Clone, Copy, PartialEq, Debug)]
enum Path {
    ShapeCustom,
    ShapeMask,
    ApplyCustom,
    ApplyMask,
}

impl Path {
    fn name(self) -> &'static str {
        match self {
            Path::ShapeCustom => "shape-custom",
            Path::ShapeMask => "shape-mask",
            Path::ApplyCustom => "apply-custom",
            Path::ApplyMask => "apply-mask",
        }
    }
    fn is_mask(self) -> bool {
        matches!(self, Path::ShapeMask | Path::ApplyMask)
    }
    fn is_shape(self) -> bool {
        matches!(self, Path::ShapeCustom | Path::ShapeMask)
    }
}

#[derive(Clone, Debug)]
struct Sel {
    script: u32,
    lang: Option<u32>,
    /// tags requested through Features::Custom, with optional alternate index
    custom: Vec<(u32, Option<usize>)>,
    /// tags requested through Features::Mask
    mask: Vec<u32>,
    tuple: Option<Vec<i16>>,
}

impl Sel {
    fn tags(&self, path: Path) -> Vec<u32> {
        if path.is_mask() {
            self.mask.clone()
        } else {
            self.custom.iter().map(|x| x.0).collect()
        }
    }
    fn alternates(&self, path: Path) -> Vec<(u32, usize)> {
        if path.is_mask() {
            Vec::new()
        } else {
            self.custom.iter().filter_map(|&(t, a)| a.map(|a| (t, a))).collect()
        }
    }
    fn features(&self, path: Path) -> Features {
        if path.is_mask() {
            let mut m = FeatureMask::empty();
            for &t in &self.mask {
                if let Some(b) = mask_of(t) {
                    m |= b;
                }
            }
            Features::Mask(m)
        } else {
            Features::Custom(self.custom.iter().map(|&(t, a)| FeatureInfo { feature_tag: t, alternate: a }).collect())
        }
    }
    fn json(&self) -> J {
        J::obj(vec![
            ("script", J::s(tag_str(self.script))),
            ("lang", self.lang.map_or(J::Null, |l| J::s(tag_str(l)))),
            ("custom", J::A(self.custom.iter().map(|(t, a)| J::s(format!("{}{}", tag_str(*t), a.map_or(String::new(), |a| format!("#{}", a))))).collect())),
            ("mask", J::A(self.mask.iter().map(|t| J::s(tag_str(*t))).collect())),
            ("tuple", self.tuple.as_ref().map_or(J::Null, |t| J::A(t.iter().map(|&v| J::I(v as i64)).collect()))),
        ])
    }
}

fn obs_json(o: &Obs) -> J {
    J::A(o.iter().map(|(g, c)| J::s(format!("{}:{}", g, c.iter().map(|ch| format!("{:04X}", *ch as u32)).collect::<Vec<_>>().join("+")))).collect())
}

fn raw_glyph(ch: char, gid: u16) -> RawGlyph<()> {
    RawGlyph {
        unicodes: tiny_vec![[char; 1] => ch],
        glyph_index: gid,
        liga_component_pos: 0,
        glyph_origin: GlyphOrigin::Char(ch),
        flags: RawGlyphFlags::empty(),
        extra_data: (),
        variation: None,
    }
}

struct Observed {
    obs: Obs,
    any_lig_flag: bool,
    any_dup_flag: bool,
}

/// Drive allsorts. Err(String) = allsorts returned an error (or the font could not be loaded).
fn observe(built: &Built, prog: &Program, path: Path, sel: &Sel, input: &[MGlyph]) -> Result<Observed, String> {
    let feats = sel.features(path);
    // tuple
    let fvar;
    let owned;
    let tuple = match (&sel.tuple, &built.fvar) {
        (Some(t), Some(fb)) => {
            fvar = ReadScope::new(fb).read::<FvarTable<'_>>().map_err(|e| format!("harness:fvar {:?}", e))?;
            let vals: Vec<F2Dot14> = t.iter().map(|&v| F2Dot14::from_raw(v)).collect();
            owned = fvar.owned_tuple(&vals).ok_or_else(|| "harness:tuple-length".to_string())?;
            Some(owned.as_tuple())
        }
        _ => None,
    };
    let collect = |gs: Vec<RawGlyph<()>>| -> Observed {
        let mut o = Observed { obs: Vec::with_capacity(gs.len()), any_lig_flag: false, any_dup_flag: false };
        for g in gs {
            o.any_lig_flag |= g.ligature();
            o.any_dup_flag |= g.multi_subst_dup();
            o.obs.push((g.glyph_index, g.unicodes.iter().copied().collect()));
        }
        o
    };
    if path.is_shape() {
        let fd = ReadScope::new(&built.font).read::<FontData<'_>>().map_err(|e| format!("harness:fontdata {:?}", e))?;
        let provider = fd.table_provider(0).map_err(|e| format!("harness:provider {:?}", e))?;
        let mut font = Font::new(provider).map_err(|e| format!("harness:font-new {:?}", e))?;
        let text: String = input.iter().map(|g| g.chars[0]).collect();
        let glyphs = font.map_glyphs(&text, sel.script, MatchingPresentation::NotRequired);
        if glyphs.len() != input.len() || glyphs.iter().zip(input).any(|(a, b)| a.glyph_index != b.gid) {
            return Err("harness:map-glyphs-differs".to_string());
        }
        match font.shape(glyphs, sel.script, sel.lang, &feats, tuple, false) {
            Ok(infos) => Ok(collect(infos.into_iter().map(|i| i.glyph).collect())),
            Err((e, _)) => Err(format!("{:?}", e)),
        }
    } else {
        let table = ReadScope::new(&built.gsub).read::<LayoutTable<GSUB>>().map_err(|e| format!("gsub-table {:?}", e))?;
        let cache = new_layout_cache(table);
        let gdef = match &built.gdef {
            Some(b) => Some(ReadScope::new(b).read::<GDEFTable>().map_err(|e| format!("gdef-table {:?}", e))?),
            None => None,
        };
        let mut glyphs: Vec<RawGlyph<()>> = input.iter().map(|g| raw_glyph(g.chars[0], g.gid)).collect();
        match gsub::apply(0, &cache, gdef.as_ref(), sel.script, sel.lang, &feats, tuple, prog.num_glyphs, &mut glyphs) {
            Ok(()) => Ok(collect(glyphs)),
            Err(e) => Err(format!("{:?}", e)),
        }
    }
}

fn expect(prog: &Program, path: Path, sel: &Sel, input: &[MGlyph]) -> model::Outcome {
    let tags = sel.tags(path);
    let alts = sel.alternates(path);
    let s = Selection { script: sel.script, lang: sel.lang, tags: &tags, alternates: &alts, tuple: sel.tuple.as_deref() };
    model::run(prog, &s, input)
}

fn to_obs(g: &[MGlyph]) -> Obs {
    g.iter().map(|x| (x.gid, x.chars.clone())).collect()
}

fn diff_kind(exp: &Obs, got: &Obs) -> &'static str {
    if exp.len() != got.len() {
        "length"
    } else if exp.iter().zip(got).any(|(a, b)| a.0 != b.0) {
        "glyph"
    } else {
        "chars"
    }
}

fn lookup_desc(prog: &Program, li: usize, depth: usize) -> String {
    let lk = match prog.gsub.lookups.get(li) {
        Some(l) => l,
        None => return "invalid".to_string(),
    };
    let mut names: Vec<&str> = lk.subs.iter().map(|s| s.name()).collect();
    names.sort_unstable();
    names.dedup();
    let mut s = names.join("+");
    if depth < 2 {
        let mut nested: Vec<String> = lk.subs.iter().flat_map(|s| s.records()).map(|(_, l)| lookup_desc(prog, l as usize, depth + 1)).collect();
        nested.sort();
        nested.dedup();
        if !nested.is_empty() {
            s.push_str(&format!(">[{}]", nested.join(",")));
        }
    }
    s
}

/// Static upper bound on how much one pass of lookup `li` can lengthen the run (factor per glyph).
fn growth_factor(prog: &Program, li: usize, depth: usize) -> f64 {
    let lk = match prog.gsub.lookups.get(li) {
        Some(l) => l,
        None => return 1.0,
    };
    let mut f: f64 = 1.0;
    for s in &lk.subs {
        match s {
            Sub::Multiple { seqs, .. } => {
                for q in seqs {
                    f = f.max(q.len() as f64);
                }
            }
            Sub::Ctx1 { sets, .. } | Sub::Ctx2 { sets, .. } | Sub::Chain1 { sets, .. } | Sub::Chain2 { sets, .. } if depth < 4 => {
                for r in sets.iter().flatten().flatten() {
                    let g: f64 = r.recs.iter().map(|&(_, l)| (growth_factor(prog, l as usize, depth + 1) - 1.0).max(0.0)).sum();
                    f = f.max(1.0 + g);
                }
            }
            Sub::Ctx3 { recs, .. } | Sub::Chain3 { recs, .. } if depth < 4 => {
                let g: f64 = recs.iter().map(|&(_, l)| (growth_factor(prog, l as usize, depth + 1) - 1.0).max(0.0)).sum();
                f = f.max(1.0 + g);
            }
            _ => {}
        }
    }
    f
}

/// Bound on the run length any engine can reach on this program from `len` glyphs.
fn growth_bound(prog: &Program, len: usize) -> f64 {
    let mut used: Vec<u16> = prog.gsub.features.iter().flat_map(|f| f.lookups.iter().copied()).collect();
    for r in prog.gsub.fv.iter().flatten() {
        used.extend(r.substs.iter().flatten().flat_map(|s| s.1.iter().copied()));
    }
    used.sort_unstable();
    used.dedup();
    let mut b = len.max(1) as f64;
    for l in used {
        b *= growth_factor(prog, l as usize, 0);
    }
    b
}

fn restrict(prog: &Program, max_lookup: u16) -> Program {
    let mut p = prog.clone();
    for f in p.gsub.features.iter_mut() {
        f.lookups.retain(|&l| l <= max_lookup);
    }
    if let Some(fv) = p.gsub.fv.as_mut() {
        for r in fv.iter_mut() {
            for s in r.substs.iter_mut().flatten() {
                s.1.retain(|&l| l <= max_lookup);
            }
        }
    }
    p
}

fn build(prog: &mut Program, cmap_table: &[u8], cx: &mut Ctx) -> Option<Built> {
    for attempt in 0..3 {
        match prog.build(cmap_table.to_vec()) {
            Ok(b) => return Some(b),
            Err(Overflow(what)) => {
                cx.class(&format!("writer:overflow:{}", what));
                for l in prog.gsub.lookups.iter_mut() {
                    l.ext = true;
                    if attempt > 0 {
                        l.pad = 0;
                    }
                }
                cx.class("writer:promoted-to-extension");
            }
        }
    }
    None
}

impl C04 {
    fn gen_sel(rng: &mut Rng, go: &GenOut, core: bool, tuple: Option<Vec<i16>>) -> Sel {
        let p = &go.prog;
        let mut scripts: Vec<u32> = p.gsub.scripts.iter().map(|s| s.tag).collect();
        scripts.extend([tag("latn"), tag("DFLT"), tag("zzzz")]);
        let script = *rng.pick(&scripts);
        let mut langs: Vec<Option<u32>> = vec![None, None, Some(tag("XXX "))];
        for s in &p.gsub.scripts {
            for (t, _) in &s.langs {
                langs.push(Some(*t));
                langs.push(Some(*t));
            }
        }
        let lang = *rng.pick(&langs);
        let mut all: Vec<u32> = p.gsub.features.iter().map(|f| f.tag).collect();
        all.sort_unstable();
        all.dedup();
        let keep = *rng.pick(&[1u32, 2, 3, 3, 4]);
        let mut chosen: Vec<u32> = all.iter().copied().filter(|_| rng.chance(keep, 4)).collect();
        if rng.chance(1, 3) {
            chosen.push(tag(*rng.pick(g4::CORE_MASK_TAGS)));
        }
        chosen.sort_unstable();
        chosen.dedup();
        rng.shuffle(&mut chosen);
        let custom: Vec<(u32, Option<usize>)> = chosen.iter().map(|&t| (t, if !core && rng.chance(1, 6) { Some(rng.below(3)) } else { None })).collect();
        let mask: Vec<u32> = chosen.iter().copied().filter(|&t| mask_of(t).is_some()).collect();
        Sel { script, lang, custom, mask, tuple }
    }

    fn gen_tuple(rng: &mut Rng, p: &Program) -> Vec<i16> {
        let mut edges: Vec<(u16, i16)> = Vec::new();
        for r in p.gsub.fv.iter().flatten() {
            for c in r.conds.iter().flatten() {
                edges.push((c.axis, c.min));
                edges.push((c.axis, c.max));
                edges.push((c.axis, c.min.saturating_sub(1)));
                edges.push((c.axis, c.max.saturating_add(1)));
                edges.push((c.axis, ((c.min as i32 + c.max as i32) / 2) as i16));
            }
        }
        (0..p.axes)
            .map(|a| {
                let mine: Vec<i16> = edges.iter().filter(|e| e.0 as usize == a).map(|e| e.1).collect();
                if !mine.is_empty() && rng.chance(3, 4) {
                    *rng.pick(&mine)
                } else {
                    rng.range(-16384, 16384) as i16
                }
            })
            .collect()
    }

    fn witness_json(prog: &Program, sel: &Sel, path: Path, input: &[MGlyph], exp: &Obs, got: Result<&Obs, &str>, culprit: Option<u16>, out: &model::Outcome) -> J {
        let gdef_of = |g: u16| -> String {
            match &prog.gdef {
                Some(d) => format!("{}:c{}a{}s{}", g, d.glyph_class(g), d.attach_class(g), d.mark_sets.iter().enumerate().filter(|(_, c)| c.contains(g)).map(|(i, _)| i.to_string()).collect::<Vec<_>>().join("")),
                None => format!("{}:nogdef", g),
            }
        };
        let mut involved: Vec<u16> = input.iter().map(|g| g.gid).chain(exp.iter().map(|g| g.0)).collect();
        involved.sort_unstable();
        involved.dedup();
        let lookups: Vec<J> = match culprit {
            Some(c) => {
                let mut v = vec![c];
                let mut k = 0;
                while k < v.len() && v.len() < 8 {
                    if let Some(l) = prog.gsub.lookups.get(v[k] as usize) {
                        for s in &l.subs {
                            for (_, n) in s.records() {
                                if !v.contains(&n) {
                                    v.push(n);
                                }
                            }
                        }
                    }
                    k += 1;
                }
                v.iter().map(|&l| J::s(format!("#{} {:?}", l, prog.gsub.lookups.get(l as usize)))).collect()
            }
            None => Vec::new(),
        };
        J::obj(vec![
            ("path", J::s(path.name())),
            ("selection", sel.json()),
            ("input", obs_json(&to_obs(input))),
            ("expected", obs_json(exp)),
            ("observed", match got {
                Ok(o) => obs_json(o),
                Err(e) => J::s(format!("error: {}", e)),
            }),
            ("lookups_selected", J::A(out.selected.iter().map(|&l| J::U(l as u64)).collect())),
            ("lookups_that_changed_the_run", J::A(out.changed_by.iter().map(|&l| J::U(l as u64)).collect())),
            ("culprit_lookup", culprit.map_or(J::Null, |c| J::U(c as u64))),
            ("culprit_and_nested", J::A(lookups)),
            ("glyph_kinds(gid:class,attach,sets)", J::A(involved.iter().map(|&g| J::s(gdef_of(g))).collect())),
            ("num_glyphs", J::U(prog.num_glyphs as u64)),
        ])
    }

    /// Smallest k such that the program restricted to lookups <= k already disagrees.
    fn localize(prog: &Program, cmap_table: &[u8], path: Path, sel: &Sel, input: &[MGlyph], selected: &[u16]) -> Option<u16> {
        for &k in selected {
            let p = restrict(prog, k);
            let b = match p.build(cmap_table.to_vec()) {
                Ok(b) => b,
                Err(_) => return None,
            };
            let exp = expect(&p, path, sel, input);
            let got = panic::catch_unwind(AssertUnwindSafe(|| observe(&b, &p, path, sel, input)));
            match got {
                Ok(Ok(o)) => {
                    if o.obs != to_obs(&exp.glyphs) {
                        return Some(k);
                    }
                }
                _ => return Some(k),
            }
        }
        None
    }
}

impl Prop for C04 {
    fn case(&mut self, cx: &mut Ctx, rng: &mut Rng) {
        if !self.model_failures.is_empty() {
            cx.inconclusive("model-selftest-failed");
            return;
        }
        let wide = match cx.mode.as_str() {
            "wide" => true,
            "core" => false,
            _ => rng.chance(1, 6),
        };
        let core = !wide;
        let mut go = g4::gen_program(rng, core);
        let l4 = icmap::Layout4::choose(&go.prog.cmap, rng);
        let cmap_table = icmap::write_cmap(&[icmap::Record { platform: 3, encoding: 1, subtable: 0 }], &[l4.write(0)]);
        let built = match build(&mut go.prog, &cmap_table, cx) {
            Some(b) => b,
            None => {
                cx.inconclusive("generator:overflow");
                return;
            }
        };
        cx.class(if core { "program:core" } else { "program:wide" });
        let prog = &go.prog;
        let prog_hash = hash_bytes(&built.gsub) ^ built.gdef.as_ref().map_or(0, |g| hash_bytes(g));
        // inverse cmap: glyph -> characters
        let chars_of = |g: u16| -> Vec<char> { prog.cmap.iter().filter(|(_, &v)| v == g).filter_map(|(&c, _)| char::from_u32(c)).collect() };
        let ntuples = if prog.axes > 0 { rng.urange(1, 2) } else { 1 };
        let nstrings = if cx.quick() { rng.urange(2, 4) } else { rng.urange(3, 6) };
        let mut reported = false;
        for _ in 0..ntuples {
            let tuple = if prog.axes > 0 && (core || rng.chance(9, 10)) { Some(Self::gen_tuple(rng, prog)) } else { None };
            for _ in 0..nstrings {
                let sel = Self::gen_sel(rng, &go, core, tuple.clone());
                // lookups the selection enables (to aim the string generator)
                let tags_c = sel.tags(Path::ApplyCustom);
                let res = model::resolve(&prog.gsub, &Selection { script: sel.script, lang: sel.lang, tags: &tags_c, alternates: &[], tuple: sel.tuple.as_deref() });
                let selected: Vec<u16> = res.lookups.iter().map(|x| x.0).collect();
                let gids = g4::gen_string(rng, &go, &selected);
                let zwj_at = if !core && !gids.is_empty() && rng.chance(1, 10) { Some(rng.below(gids.len())) } else { None };
                for &path in &[Path::ApplyCustom, Path::ApplyMask, Path::ShapeCustom, Path::ShapeMask] {
                    // input glyphs with characters: unique private-use characters on the direct
                    // path (strict test of character bookkeeping), cmap characters on the shape path
                    let mut input: Vec<MGlyph> = Vec::with_capacity(gids.len());
                    let mut usable = true;
                    for (k, &g) in gids.iter().enumerate() {
                        let ch = if path.is_shape() {
                            if g == 0 {
                                '\u{2FF}' // unmapped -> glyph 0
                            } else {
                                let cs = chars_of(g);
                                if cs.is_empty() {
                                    usable = false;
                                    break;
                                }
                                cs[(k + g as usize) % cs.len()]
                            }
                        } else if zwj_at == Some(k) {
                            '\u{200D}'
                        } else {
                            char::from_u32(0xE000 + k as u32).unwrap_or('\u{E000}')
                        };
                        input.push(MGlyph { gid: g, chars: vec![ch] });
                    }
                    if !usable {
                        continue;
                    }
                    let out = expect(prog, path, &sel, &input);
                    let exp = to_obs(&out.glyphs);
                    let strict = core && out.ambiguous.is_empty();
                    cx.evals += 0;
                    if out.ambiguous.contains("runaway-program") || (!strict && growth_bound(prog, input.len()) > 30_000.0) {
                        // a program that can blow the run up is C02's business (time/memory
                        // monitors); here it would only make the worker slow
                        cx.class("skipped:run-may-explode");
                        continue;
                    }
                    let got = if strict {
                        match cx.guard(path.name(), built.font.len(), || observe(&built, prog, path, &sel, &input)) {
                            Some(r) => r,
                            None => return, // panic recorded as violation by guard
                        }
                    } else {
                        match panic::catch_unwind(AssertUnwindSafe(|| observe(&built, prog, path, &sel, &input))) {
                            Ok(r) => r,
                            Err(_) => {
                                let p = take_last_panic().unwrap_or_default();
                                if is_harness_panic(&p) {
                                    cx.inconclusive("harness-panic");
                                    eprintln!("HARNESS-PANIC C04 case {:016x}: {} at {}", cx.case_seed, p.message, p.location);
                                    return;
                                }
                                cx.class(&format!("wide:panic:{}", panic_sig(&p)));
                                continue;
                            }
                        }
                    };
                    if let Err(e) = &got {
                        if e.starts_with("harness:") {
                            cx.inconclusive(e);
                            continue;
                        }
                    }
                    let agree = matches!(&got, Ok(o) if o.obs == exp);
                    if !strict {
                        let why = if core { format!("core:ambiguous:{}", out.ambiguous.iter().next().copied().unwrap_or("?")) } else { "wide".to_string() };
                        if core {
                            cx.class(&why);
                        }
                        if agree {
                            cx.class("wide:agree");
                        } else {
                            let first = out.ambiguous.iter().next().copied().unwrap_or("unrestricted-program");
                            match &got {
                                Ok(_) => cx.class(&format!("wide:disagree:{}", first)),
                                Err(e) => cx.class(&format!("wide:disagree:error:{}", normalise_digits(e))),
                            }
                        }
                        continue;
                    }
                    cx.class(&format!("judged:{}", path.name()));
                    if agree {
                        let changed = !out.changed_by.is_empty();
                        if changed {
                            cx.class("judged:run-changed");
                            let mut h = prog_hash;
                            for g in &gids {
                                h = mix(h, *g as u64);
                            }
                            for t in sel.tags(path) {
                                h = mix(h, t as u64);
                            }
                            // one hash per (program, string, selection); paths share it
                            let cap = if cx.quick() { 40_000 } else { 100_000 };
                            if self.recorded < cap {
                                let before = cx.nontrivial.len();
                                cx.nontrivial(h);
                                self.recorded += cx.nontrivial.len() - before;
                            } else {
                                cx.class("nontrivial-beyond-hash-cap");
                            }
                            for c in &out.classes {
                                cx.class(c);
                            }
                            if out.changed_by.len() > 1 {
                                cx.class("several-lookups-changed-run");
                            }
                            if let Ok(o) = &got {
                                if o.any_lig_flag {
                                    cx.class("obs:ligature-flag-set");
                                }
                                if o.any_dup_flag {
                                    cx.class("obs:multi-subst-dup-flag-set");
                                }
                                if o.obs.iter().any(|g| g.1.len() > 1) {
                                    cx.class("obs:glyph-with-several-characters");
                                }
                            }
                            if cx.want_sample() && out.changed_by.len() > 1 {
                                cx.sample(J::obj(vec![
                                    ("path", J::s(path.name())),
                                    ("selection", sel.json()),
                                    ("input", obs_json(&to_obs(&input))),
                                    ("output", obs_json(&exp)),
                                    ("lookups_applied", J::A(out.changed_by.iter().map(|&l| J::s(format!("#{} {} flags={}", l, lookup_desc(prog, l as usize, 0), model::flag_name(prog.gsub.lookups[l as usize].flag)))).collect())),
                                    ("events", J::A(out.classes.iter().map(|c| J::s(c.clone())).collect())),
                                ]));
                            }
                        } else {
                            cx.class("judged:run-unchanged");
                        }
                        continue;
                    }
                    // disagreement on a core program without ambiguity
                    if reported {
                        continue;
                    }
                    reported = true;
                    let culprit = Self::localize(prog, &cmap_table, path, &sel, &input, &out.selected);
                    let (cdesc, cflags) = match culprit {
                        Some(c) => (lookup_desc(prog, c as usize, 0), model::flag_name(prog.gsub.lookups[c as usize].flag)),
                        None => ("unlocalized".to_string(), "?".to_string()),
                    };
                    match &got {
                        Ok(o) => {
                            let sig = format!("{}:{}:flags={}", diff_kind(&exp, &o.obs), cdesc, cflags);
                            let detail = Self::witness_json(prog, &sel, path, &input, &exp, Ok(&o.obs), culprit, &out);
                            cx.violation("gsub-output", &sig, detail);
                        }
                        Err(e) => {
                            let sig = format!("{}:{}:flags={}", normalise_digits(e), cdesc, cflags);
                            let detail = Self::witness_json(prog, &sel, path, &input, &exp, Err(e), culprit, &out);
                            cx.violation("gsub-error", &sig, detail);
                        }
                    }
                }
            }
        }
    }
}
