//! C04 — (stub, under construction)

use super::Prop;
use crate::rt::*;

pub struct C04 {}

impl C04 {
    pub fn new(_cx: &mut Ctx) -> C04 {
        C04 {}
    }
}

impl Prop for C04 {
    fn case(&mut self, cx: &mut Ctx, _rng: &mut Rng) {
        cx.inconclusive("not-implemented");
    }
}
