//! C15 helpers: cmap sub-tables (borrowed and owned) and owned::Cmap.

use super::tt::*;
use super::*;
use allsorts::binary::read::{ReadArray, ReadScope};
use allsorts::binary::write::WriteBinary;
use allsorts::binary::{I16Be, U16Be, U8};
use allsorts::error::ParseError;
use allsorts::tables::cmap::owned as ocmap;
use allsorts::tables::cmap::{Cmap, CmapSubtable, CmapSubtableFormat4, EncodingId, PlatformId, SequentialMapGroup};

/// abstract sub-table
#[derive(Clone, Debug)]
pub enum SubAst {
    F0 { language: u16, gids: Vec<u8> },
    F4 { language: u16, end: Vec<u16>, start: Vec<u16>, delta: Vec<i16>, range_off: Vec<u16>, gids: Vec<u16> },
    F6 { language: u16, first: u16, gids: Vec<u16> },
    F10 { language: u32, start: u32, gids: Vec<u16> },
    F12 { language: u32, groups: Vec<(u32, u32, u32)> },
}

impl SubAst {
    pub fn format(&self) -> u16 {
        match self {
            SubAst::F0 { .. } => 0,
            SubAst::F4 { .. } => 4,
            SubAst::F6 { .. } => 6,
            SubAst::F10 { .. } => 10,
            SubAst::F12 { .. } => 12,
        }
    }
    pub fn fp(&self) -> Fp {
        match self {
            SubAst::F0 { language, gids } => fp!["format" => 0, "language" => *language as u32, "count" => gids.len(), "glyph_id_array" => fbytes(gids)],
            SubAst::F4 { language, end, start, delta, range_off, gids } => fp![
                "format" => 4, "language" => *language as u32, "seg_count" => start.len(),
                "end_codes" => fv(end), "start_codes" => fv(start), "id_deltas" => fv(delta), "id_range_offsets" => fv(range_off),
                "glyph_id_count" => gids.len(), "glyph_id_array" => fv(gids),
            ],
            SubAst::F6 { language, first, gids } => fp!["format" => 6, "language" => *language as u32, "first_code" => first, "count" => gids.len(), "glyph_id_array" => fv(gids)],
            SubAst::F10 { language, start, gids } => fp!["format" => 10, "language" => language, "start_char_code" => start, "count" => gids.len(), "glyph_id_array" => fv(gids)],
            SubAst::F12 { language, groups } => fp!["format" => 12, "language" => language, "count" => groups.len(), "groups" => fv(groups)],
        }
    }
}

fn groups_of(g: &[SequentialMapGroup]) -> Vec<(u32, u32, u32)> {
    // fields are pub(crate): read them through the Debug rendering
    g.iter()
        .map(|x| {
            let s = format!("{:?}", x);
            let nums: Vec<u32> = s.split(|c: char| !c.is_ascii_digit()).filter(|t| !t.is_empty()).filter_map(|t| t.parse().ok()).collect();
            (nums.get(0).copied().unwrap_or(0), nums.get(1).copied().unwrap_or(0), nums.get(2).copied().unwrap_or(0))
        })
        .collect()
}

pub fn ast_of_owned(s: &ocmap::CmapSubtable) -> SubAst {
    match s {
        ocmap::CmapSubtable::Format0 { language, glyph_id_array } => SubAst::F0 { language: *language, gids: glyph_id_array.to_vec() },
        ocmap::CmapSubtable::Format4(f) => SubAst::F4 { language: f.language, end: f.end_codes.clone(), start: f.start_codes.clone(), delta: f.id_deltas.clone(), range_off: f.id_range_offsets.clone(), gids: f.glyph_id_array.clone() },
        ocmap::CmapSubtable::Format6 { language, first_code, glyph_id_array } => SubAst::F6 { language: *language, first: *first_code, gids: glyph_id_array.clone() },
        ocmap::CmapSubtable::Format10 { language, start_char_code, glyph_id_array } => SubAst::F10 { language: *language, start: *start_char_code, gids: glyph_id_array.clone() },
        ocmap::CmapSubtable::Format12(f) => SubAst::F12 { language: f.language, groups: groups_of(&f.groups) },
    }
}

/// fingerprint of a borrowed sub-table (None for format 2, which has no writer)
pub fn ast_of_borrowed(s: &CmapSubtable<'_>) -> Option<SubAst> {
    Some(match s {
        CmapSubtable::Format0 { language, glyph_id_array } => SubAst::F0 { language: *language, gids: glyph_id_array.to_vec() },
        CmapSubtable::Format2 { .. } => return None,
        CmapSubtable::Format4(f) => SubAst::F4 { language: f.language, end: f.end_codes.to_vec(), start: f.start_codes.to_vec(), delta: f.id_deltas.to_vec(), range_off: f.id_range_offsets.to_vec(), gids: f.glyph_id_array.to_vec() },
        CmapSubtable::Format6 { language, first_code, glyph_id_array } => SubAst::F6 { language: *language, first: *first_code, gids: glyph_id_array.to_vec() },
        CmapSubtable::Format10 { language, start_char_code, glyph_id_array } => SubAst::F10 { language: *language, start: *start_char_code, gids: glyph_id_array.to_vec() },
        CmapSubtable::Format12 { language, groups } => SubAst::F12 { language: *language, groups: groups_of(&groups.to_vec()) },
    })
}

fn fp_sub(s: &CmapSubtable<'_>) -> Fp {
    match ast_of_borrowed(s) {
        Some(a) => a.fp(),
        None => fp!["format" => 2],
    }
}

fn be16s<T: Copy + Into<i32>>(v: &[T]) -> Vec<u8> {
    v.iter().flat_map(|x| ((*x).into() as u16).to_be_bytes()).collect()
}

fn arr16<'a>(raw: &'a [u8], n: usize) -> Result<ReadArray<'a, U16Be>, ParseError> {
    ReadScope::new(raw).ctxt().read_array::<U16Be>(n)
}

fn group_bytes(groups: &[(u32, u32, u32)]) -> Vec<u8> {
    groups.iter().flat_map(|g| [g.0.to_be_bytes(), g.1.to_be_bytes(), g.2.to_be_bytes()].concat()).collect()
}

pub fn step_sub(cx: &mut Ctx, bytes: &[u8]) -> Step {
    mk_step(cx, "CmapSubtable", bytes.len(), || ReadScope::new(bytes).read::<CmapSubtable<'_>>(), fp_sub, |b, s| CmapSubtable::write(b, &s))
}

/// parse borrowed, convert with `to_owned`, write with the owned writer
pub fn step_sub_owned(cx: &mut Ctx, bytes: &[u8]) -> Step {
    mk_step(
        cx,
        "owned::CmapSubtable",
        bytes.len(),
        || {
            let s = ReadScope::new(bytes).read::<CmapSubtable<'_>>()?;
            s.to_owned().ok_or(ParseError::NotImplemented)
        },
        |o| ast_of_owned(o).fp(),
        |b, o| ocmap::CmapSubtable::write(b, o),
    )
}

pub fn gen_sub(rng: &mut Rng, format: u16, big: bool) -> SubAst {
    let lang16 = edge_u16(rng);
    match format {
        0 => SubAst::F0 { language: lang16, gids: rng.bytes(256) },
        4 => {
            let n = if big { *rng.pick(&[1000usize, 4000, 8189]) } else { 1 + rng.small(24) };
            let sorted = rng.chance(3, 4);
            let mut end: Vec<u16> = (0..n).map(|_| edge_u16(rng)).collect();
            if sorted {
                end.sort();
                if let Some(l) = end.last_mut() {
                    *l = 0xFFFF;
                }
            }
            let start: Vec<u16> = end.iter().map(|e| if sorted { e.saturating_sub(rng.small(30) as u16) } else { edge_u16(rng) }).collect();
            let delta: Vec<i16> = (0..n).map(|_| edge_i16(rng)).collect();
            let maxg = (65535 - 16 - 8 * n) / 2;
            let ng = if big { rng.below(maxg + 1) } else if rng.chance(1, 30) { maxg } else { rng.small(60).min(maxg) };
            let range_off: Vec<u16> = (0..n).map(|i| if rng.bool() || ng == 0 { *rng.pick(&[0u16, 0, 0xFFFF, 2]) } else { (2 * (n - i + rng.below(ng))) as u16 }).collect();
            let gids: Vec<u16> = (0..ng).map(|_| edge_u16(rng)).collect();
            SubAst::F4 { language: lang16, end, start, delta, range_off, gids }
        }
        6 => {
            let n = if big { *rng.pick(&[32761usize, 32762]) } else { edge_len(rng, 2000) };
            SubAst::F6 { language: lang16, first: edge_u16(rng), gids: (0..n).map(|_| edge_u16(rng)).collect() }
        }
        10 => {
            let n = if big { *rng.pick(&[65535usize, 65536, 70000]) } else { edge_len(rng, 2000) };
            SubAst::F10 { language: edge_u32(rng), start: edge_u32(rng), gids: (0..n).map(|_| edge_u16(rng)).collect() }
        }
        _ => {
            let n = if big { *rng.pick(&[65535usize, 65536, 70000]) } else { edge_len(rng, 600) };
            SubAst::F12 { language: edge_u32(rng), groups: (0..n).map(|_| (edge_u32(rng), edge_u32(rng), edge_u32(rng))).collect() }
        }
    }
}

/// build the borrowed allsorts value for `ast` and hand it to `f`
pub fn with_borrowed<R>(ast: &SubAst, f: impl FnOnce(Option<&CmapSubtable<'_>>) -> R) -> R {
    match ast {
        SubAst::F0 { language, gids } => match ReadScope::new(gids).ctxt().read_array::<U8>(gids.len()) {
            Ok(a) => f(Some(&CmapSubtable::Format0 { language: *language, glyph_id_array: a })),
            Err(_) => f(None),
        },
        SubAst::F4 { language, end, start, delta, range_off, gids } => {
            let (e, s, d, r, g) = (be16s(end), be16s(start), be16s(delta), be16s(range_off), be16s(gids));
            let dd = ReadScope::new(&d).ctxt().read_array::<I16Be>(delta.len());
            match (arr16(&e, end.len()), arr16(&s, start.len()), dd, arr16(&r, range_off.len()), arr16(&g, gids.len())) {
                (Ok(e), Ok(s), Ok(d), Ok(r), Ok(g)) => f(Some(&CmapSubtable::Format4(CmapSubtableFormat4 { language: *language, end_codes: e, start_codes: s, id_deltas: d, id_range_offsets: r, glyph_id_array: g }))),
                _ => f(None),
            }
        }
        SubAst::F6 { language, first, gids } => {
            let g = be16s(gids);
            match arr16(&g, gids.len()) {
                Ok(a) => f(Some(&CmapSubtable::Format6 { language: *language, first_code: *first, glyph_id_array: a })),
                Err(_) => f(None),
            }
        }
        SubAst::F10 { language, start, gids } => {
            let g = be16s(gids);
            match arr16(&g, gids.len()) {
                Ok(a) => f(Some(&CmapSubtable::Format10 { language: *language, start_char_code: *start, glyph_id_array: a })),
                Err(_) => f(None),
            }
        }
        SubAst::F12 { language, groups } => {
            let g = group_bytes(groups);
            match ReadScope::new(&g).ctxt().read_array::<SequentialMapGroup>(groups.len()) {
                Ok(a) => f(Some(&CmapSubtable::Format12 { language: *language, groups: a })),
                Err(_) => f(None),
            }
        }
    }
}

pub fn to_owned_value(ast: &SubAst) -> Option<ocmap::CmapSubtable> {
    Some(match ast {
        SubAst::F0 { language, gids } => {
            if gids.len() != 256 {
                return None;
            }
            let mut a = [0u8; 256];
            a.copy_from_slice(gids);
            ocmap::CmapSubtable::Format0 { language: *language, glyph_id_array: Box::new(a) }
        }
        SubAst::F4 { language, end, start, delta, range_off, gids } => ocmap::CmapSubtable::Format4(ocmap::CmapSubtableFormat4 { language: *language, end_codes: end.clone(), start_codes: start.clone(), id_deltas: delta.clone(), id_range_offsets: range_off.clone(), glyph_id_array: gids.clone() }),
        SubAst::F6 { language, first, gids } => ocmap::CmapSubtable::Format6 { language: *language, first_code: *first, glyph_id_array: gids.clone() },
        SubAst::F10 { language, start, gids } => ocmap::CmapSubtable::Format10 { language: *language, start_char_code: *start, glyph_id_array: gids.clone() },
        SubAst::F12 { language, groups } => {
            let g = group_bytes(groups);
            let a = ReadScope::new(&g).ctxt().read_array::<SequentialMapGroup>(groups.len()).ok()?;
            ocmap::CmapSubtable::Format12(ocmap::CmapSubtableFormat12 { language: *language, groups: a.to_vec() })
        }
    })
}

fn ast_json(a: &SubAst) -> J {
    fp_json(&a.fp())
}

pub fn write_sub(cx: &mut Ctx, ast: &SubAst, owned: bool) -> Option<Wr> {
    if owned {
        let v = to_owned_value(ast)?;
        Some(gwrite(cx, "owned::CmapSubtable::write", 70_000, |b| ocmap::CmapSubtable::write(b, v)))
    } else {
        with_borrowed(ast, |s| s.map(|s| gwrite(cx, "CmapSubtable::write", 70_000, |b| CmapSubtable::write(b, s))))
    }
}

pub fn rt_cmap_sub(cx: &mut Ctx, rng: &mut Rng) {
    let format = *rng.pick(&[0u16, 4, 4, 4, 6, 10, 12]);
    let big = rng.chance(1, 150);
    let ast = gen_sub(rng, format, big);
    let owned = rng.bool();
    let exp = ast.fp();
    let w = match write_sub(cx, &ast, owned) {
        Some(w) => w,
        None => {
            cx.inconclusive("cmap-gen");
            return;
        }
    };
    let name = format!("cmap{}-{}", format, if owned { "owned" } else { "borrowed" });
    let wit = || ast_json(&ast);
    if owned {
        finish_rt(cx, &name, &exp, w, &mut |cx, b| step_sub_owned(cx, b), &wit);
    } else {
        finish_rt(cx, &name, &exp, w, &mut |cx, b| step_sub(cx, b), &wit);
    }
}

// ---- owned::Cmap ------------------------------------------------------------------------------

/// (platform, encoding, sub-table) list of a serialised cmap, read with the borrowed reader
pub fn read_cmap_records(bytes: &[u8]) -> Result<Vec<(u16, u16, Option<ocmap::CmapSubtable>)>, ParseError> {
    let cmap = ReadScope::new(bytes).read::<Cmap<'_>>()?;
    let mut out = Vec::new();
    for r in cmap.encoding_records() {
        let sub = cmap.scope.offset(r.offset as usize).read::<CmapSubtable<'_>>()?;
        out.push((r.platform_id.0, r.encoding_id.0, sub.to_owned()));
    }
    Ok(out)
}

fn fp_cmap_records(recs: &[(u16, u16, Option<ocmap::CmapSubtable>)]) -> Fp {
    let mut f = vec![("num_tables".to_string(), recs.len().to_string())];
    for (i, (p, e, s)) in recs.iter().enumerate() {
        f.push((format!("record[{}].ids", i), format!("{} {}", p, e)));
        match s {
            Some(s) => {
                for (k, v) in ast_of_owned(s).fp() {
                    f.push((format!("record[{}].{}", i, k), v));
                }
            }
            None => f.push((format!("record[{}].format", i), "2".to_string())),
        }
    }
    f
}

/// whole cmap: borrowed parse -> owned::Cmap (format 2 records dropped) -> owned writer
pub fn step_cmap(cx: &mut Ctx, bytes: &[u8]) -> Step {
    mk_step(
        cx,
        "owned::Cmap",
        bytes.len(),
        || {
            let recs = read_cmap_records(bytes)?;
            Ok(recs.into_iter().filter(|r| r.2.is_some()).collect::<Vec<_>>())
        },
        |recs| fp_cmap_records(recs),
        |b, recs| {
            let c = ocmap::Cmap { encoding_records: recs.into_iter().filter_map(|(p, e, s)| s.map(|s| ocmap::EncodingRecord { platform_id: PlatformId(p), encoding_id: EncodingId(e), sub_table: s })).collect() };
            ocmap::Cmap::write(b, c)
        },
    )
}

pub fn rt_cmap_owned(cx: &mut Ctx, rng: &mut Rng) {
    let n = match rng.below(10) {
        0 => 0,
        _ => 1 + rng.small(5),
    };
    let mut recs = Vec::new();
    for _ in 0..n {
        let fm = *rng.pick(&[0u16, 4, 6, 10, 12]);
        let ast = gen_sub(rng, fm, false);
        match to_owned_value(&ast) {
            Some(v) => recs.push((*rng.pick(&[0u16, 1, 3, 4]), edge_u16(rng), Some(v))),
            None => {
                cx.inconclusive("cmap-gen");
                return;
            }
        }
    }
    let exp = fp_cmap_records(&recs);
    let c = ocmap::Cmap { encoding_records: recs.iter().cloned().filter_map(|(p, e, s)| s.map(|s| ocmap::EncodingRecord { platform_id: PlatformId(p), encoding_id: EncodingId(e), sub_table: s })).collect() };
    let w = gwrite(cx, "owned::Cmap::write", 4096, |b| ocmap::Cmap::write(b, c));
    let wit = || fp_json(&exp);
    finish_rt(cx, "cmap-owned-table", &exp, w, &mut |cx, b| step_cmap(cx, b), &wit);
}

// ---- overflow ----------------------------------------------------------------------------------

pub fn overflow_cmap(cx: &mut Ctx, rng: &mut Rng) {
    let owned = rng.bool();
    let (name, ast): (&str, SubAst) = match rng.below(7) {
        0 => {
            // format 4 longer than 65535 bytes through the glyph id array
            let mut a = gen_sub(rng, 4, false);
            if let SubAst::F4 { start, gids, .. } = &mut a {
                let n = start.len();
                let need = (65536 - 16 - 8 * n + 1) / 2 + rng.below(3);
                *gids = (0..need).map(|i| i as u16).collect();
            }
            ("cmap4-length", a)
        }
        1 => {
            // format 4: segment count at which the 16-bit length is exceeded
            let n = *rng.pick(&[8189usize, 8190, 8191, 9000]);
            ("cmap4-length", SubAst::F4 { language: 0, end: (0..n).map(|i| i as u16).collect(), start: (0..n).map(|i| i as u16).collect(), delta: vec![1; n], range_off: vec![0; n], gids: vec![] })
        }
        2 => {
            // format 4: segCountX2 does not fit in 16 bits
            let n = *rng.pick(&[32767usize, 32768, 32769, 65535, 65536]);
            ("cmap4-segcount", SubAst::F4 { language: 0, end: vec![7; n], start: vec![7; n], delta: vec![0; n], range_off: vec![0; n], gids: vec![] })
        }
        3 => {
            let n = *rng.pick(&[32762usize, 32763, 32764, 65535, 65536]);
            ("cmap6-length", SubAst::F6 { language: 1, first: 32, gids: vec![3; n] })
        }
        4 | 5 => {
            // format 0 glyph array that is not 256 entries (only the borrowed type can hold one)
            let n = *rng.pick(&[0usize, 100, 255, 257, 300, 65530, 65536]);
            ("cmap0-array-length", SubAst::F0 { language: 0, gids: (0..n).map(|i| i as u8).collect() })
        }
        _ => ("cmap12-at-limit", gen_sub(rng, 12, true)),
    };
    let owned = owned && to_owned_value(&ast).is_some();
    let exp = ast.fp();
    let w = match write_sub(cx, &ast, owned) {
        Some(w) => w,
        None => return,
    };
    let nm = format!("{}-{}", name, if owned { "owned" } else { "borrowed" });
    let wit = || ast_json(&ast);
    if owned {
        expect_refused_or_exact(cx, &nm, &exp, w, &mut |cx, b| rd_of(step_sub_owned(cx, b)), &wit);
    } else {
        expect_refused_or_exact(cx, &nm, &exp, w, &mut |cx, b| rd_of(step_sub(cx, b)), &wit);
    }
}

pub fn overflow_cmap_table(cx: &mut Ctx, rng: &mut Rng) {
    // more than 65535 encoding records
    let n = *rng.pick(&[65535usize, 65536, 65537]);
    let recs: Vec<(u16, u16, Option<ocmap::CmapSubtable>)> = (0..n).map(|i| (3u16, i as u16, Some(ocmap::CmapSubtable::Format6 { language: 0, first_code: 0, glyph_id_array: vec![] }))).collect();
    let exp = fp_cmap_records(&recs);
    let c = ocmap::Cmap { encoding_records: recs.iter().cloned().filter_map(|(p, e, s)| s.map(|s| ocmap::EncodingRecord { platform_id: PlatformId(p), encoding_id: EncodingId(e), sub_table: s })).collect() };
    let w = gwrite(cx, "owned::Cmap::write", n * 18, |b| ocmap::Cmap::write(b, c));
    expect_refused_or_exact(cx, "cmap-encoding-records", &exp, w, &mut |cx, b| rd_of(step_cmap(cx, b)), &|| J::obj(vec![("records", J::U(n as u64))]));
}

/// bytes that parse: a format 4 sub-table with segCount 0 (the reader accepts it)
pub fn edge_cmap4_zero_segments(cx: &mut Ctx, rng: &mut Rng) {
    let lang = edge_u16(rng);
    let mut b = vec![0u8, 4, 0, 16];
    b.extend_from_slice(&lang.to_be_bytes());
    b.extend_from_slice(&[0, 0, 0, 0, 0, 0, 0, 0, 0, 0]);
    let wit = || J::obj(vec![("what", J::s("cmap format 4 with segCountX2 = 0")), ("bytes", J::hex(&b))]);
    stability(cx, "cmap.format4(segcount0)", true, &b, &mut |cx, x| step_sub(cx, x), &wit);
}
