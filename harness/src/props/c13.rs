//! C13 — user coordinates normalise per fvar and avar.
//!
//! The harness writes fvar/avar tables from an abstract description (axis triples, segment maps),
//! asks allsorts to normalise user coordinates and compares with a model in exact rational
//! arithmetic (i128 numerators over a common denominator).

use super::Prop;
use crate::rt::*;
use crate::sfnt::W;
use allsorts::binary::read::ReadScope;
use allsorts::tables::variable_fonts::avar::AvarTable;
use allsorts::tables::variable_fonts::fvar::FvarTable;
use allsorts::tables::{F2Dot14, Fixed};

pub struct C13 {}

impl C13 {
    pub fn new(_cx: &mut Ctx) -> C13 {
        C13 {}
    }
}

#[derive(Clone, Debug)]
struct Axis {
    min: i32,
    def: i32,
    max: i32,
}

/// avar segment map: (from, to) pairs in raw F2Dot14, valid per spec.
type SegMap = Vec<(i16, i16)>;

fn write_fvar(axes: &[Axis]) -> Vec<u8> {
    // axisSize: 20 is what every font uses, larger records (future extension, padded here with a poison
    // pattern) are valid and must be skipped by stride; the choice is a function of the axes so that the
    // case stays a function of its description
    let h = axes.iter().fold(0x9E37u32, |h, a| h.wrapping_mul(31).wrapping_add(a.def as u32 ^ (a.max as u32).rotate_left(7)));
    let axis_size: u16 = [20u16, 20, 24, 32, 22][(h % 5) as usize];
    // axesArrayOffset: 16 (directly after the header) in every font in the wild, but any offset is valid
    let axes_off: u16 = [16u16, 16, 20, 36, 18][((h >> 8) % 5) as usize];
    let mut w = W::new();
    w.u16(1).u16(0).u16(axes_off).u16(2).u16(axes.len() as u16).u16(axis_size).u16(0).u16(4 * axes.len() as u16 + 4);
    for k in 16..axes_off {
        // padding that would read as an axis record 0..0..1 / garbage if it were taken for one
        w.u8(if k % 4 == 3 { 1 } else { 0 });
    }
    for (i, a) in axes.iter().enumerate() {
        w.u32(u32::from_be_bytes([b'a', b'x', b'0' + (i / 10) as u8, b'0' + (i % 10) as u8]));
        w.i32(a.min).i32(a.def).i32(a.max).u16(0).u16(256 + i as u16);
        for _ in 20..axis_size {
            w.u8(0xEE);
        }
    }
    w.b
}

fn fvar_axes_offset(fvar: &[u8]) -> u16 {
    crate::sfnt::be16(fvar, 4).unwrap_or(16)
}

fn fvar_axis_size(fvar: &[u8]) -> u16 {
    crate::sfnt::be16(fvar, 10).unwrap_or(20)
}

fn write_avar(maps: &[SegMap]) -> Vec<u8> {
    let mut w = W::new();
    w.u16(1).u16(0).u16(0).u16(maps.len() as u16);
    for m in maps {
        w.u16(m.len() as u16);
        for &(f, t) in m {
            w.i16(f).i16(t);
        }
    }
    w.b
}

/// A rational number num/den with den > 0.
#[derive(Copy, Clone, Debug)]
struct Q {
    n: i128,
    d: i128,
}
impl Q {
    fn new(n: i128, d: i128) -> Q {
        if d < 0 {
            Q { n: -n, d: -d }
        } else {
            Q { n, d }
        }
    }
    fn lt(self, o: Q) -> bool {
        self.n * o.d < o.n * self.d
    }
    fn le(self, o: Q) -> bool {
        self.n * o.d <= o.n * self.d
    }
    fn to_f64(self) -> f64 {
        self.n as f64 / self.d as f64
    }
}

/// Exact default normalisation: result in units of 1 (as a rational).
fn model_default(a: &Axis, user: i32) -> Q {
    let v = (user as i128).clamp(a.min as i128, a.max as i128);
    let (d, mn, mx) = (a.def as i128, a.min as i128, a.max as i128);
    if v < d {
        // min < def here because v >= min
        Q::new(-(d - v), d - mn)
    } else if v > d {
        Q::new(v - d, mx - d)
    } else {
        Q::new(0, 1)
    }
}

/// Exact avar mapping of x (in units of 1) through the segment map (raw F2Dot14 knots).
/// Returns (mapped value, slope of the segment in use).
fn model_avar(map: &SegMap, x: Q) -> (Q, f64) {
    if map.len() < 2 {
        return (x, 1.0);
    }
    let k = |v: i16| Q::new(v as i128, 16384);
    // find segment with from[i] <= x <= from[i+1]; at a knot the value is that knot's `to`
    for w in map.windows(2) {
        let (f0, t0) = w[0];
        let (f1, t1) = w[1];
        if k(f0).le(x) && x.le(k(f1)) {
            if f1 == f0 {
                return (k(t0), 0.0);
            }
            // t0 + (x - f0) * (t1 - t0) / (f1 - f0), all over 16384
            // x = n/d ; (x - f0/16384) = (n*16384 - f0*d) / (d*16384)
            let num = x.n * 16384 - (f0 as i128) * x.d; // over d*16384
            let dt = (t1 as i128) - (t0 as i128);
            let df = (f1 as i128) - (f0 as i128);
            // result = t0/16384 + num*dt / (d*16384*df)
            let den = x.d * 16384 * df;
            let res = Q::new((t0 as i128) * x.d * df + num * dt, den);
            return (res, (dt as f64 / df as f64).abs());
        }
    }
    (x, 1.0)
}

fn clamp_unit(x: Q) -> Q {
    if x.lt(Q::new(-1, 1)) {
        Q::new(-1, 1)
    } else if Q::new(1, 1).lt(x) {
        Q::new(1, 1)
    } else {
        x
    }
}

fn gen_axis(rng: &mut Rng) -> Axis {
    let pick = |rng: &mut Rng| -> i32 {
        match rng.below(8) {
            0 => 0,
            1 => i32::MIN,
            2 => i32::MAX,
            3 => (rng.range(-1000, 1000) as i32) << 16,
            4 => rng.range(-70000, 70000) as i32,
            5 => (rng.range(1, 1000) as i32) << 16,
            _ => rng.u32() as i32,
        }
    };
    let mut v = [pick(rng), pick(rng), pick(rng)];
    v.sort();
    match rng.below(8) {
        0 => Axis { min: v[0], def: v[0], max: v[2] },
        1 => Axis { min: v[0], def: v[2], max: v[2] },
        2 => Axis { min: v[1], def: v[1], max: v[1] },
        3 => Axis { min: 100 << 16, def: 400 << 16, max: 900 << 16 },
        _ => Axis { min: v[0], def: v[1], max: v[2] },
    }
}

fn gen_segmap(rng: &mut Rng) -> SegMap {
    // valid map: -1 -> -1, 0 -> 0, 1 -> 1, from-coordinates strictly increasing, to non-decreasing
    let n_neg = rng.below(5);
    let n_pos = rng.below(5);
    let mut froms: Vec<i16> = vec![-16384, 0, 16384];
    for _ in 0..n_neg {
        froms.push(-(1 + rng.below(16383) as i16));
    }
    for _ in 0..n_pos {
        froms.push(1 + rng.below(16383) as i16);
    }
    froms.sort();
    froms.dedup();
    let mut tos: Vec<i16> = froms
        .iter()
        .map(|&f| match f {
            -16384 | 0 | 16384 => f,
            f if f < 0 => -(rng.below(16385) as i16),
            _ => rng.below(16385) as i16,
        })
        .collect();
    // make `to` non-decreasing while keeping the three fixed points
    let zero_idx = froms.iter().position(|&f| f == 0).unwrap();
    tos[..zero_idx].sort();
    tos[zero_idx + 1..].sort();
    for i in 0..tos.len() {
        if froms[i] == -16384 {
            tos[i] = -16384;
        }
        if froms[i] == 16384 {
            tos[i] = 16384;
        }
    }
    // sorting may have displaced the fixed points' partners; re-establish monotonicity
    for i in 1..tos.len() {
        if tos[i] < tos[i - 1] && froms[i] != 0 && froms[i] != 16384 {
            tos[i] = tos[i - 1];
        }
    }
    froms.into_iter().zip(tos).collect()
}

fn user_values(rng: &mut Rng, a: &Axis, map: Option<&SegMap>) -> Vec<i32> {
    let mut v = vec![a.min, a.def, a.max];
    for &b in &[a.min, a.def, a.max] {
        v.push(b.wrapping_add(1));
        v.push(b.wrapping_sub(1));
    }
    v.push(i32::MIN);
    v.push(i32::MAX);
    v.push(0);
    // user values that land on / next to avar knots
    if let Some(m) = map {
        for &(f, _) in m {
            let x = f as i128;
            let u = if x < 0 {
                a.def as i128 + x * (a.def as i128 - a.min as i128) / 16384
            } else {
                a.def as i128 + x * (a.max as i128 - a.def as i128) / 16384
            };
            for d in [-1i128, 0, 1] {
                let w = u + d;
                if w >= i32::MIN as i128 && w <= i32::MAX as i128 {
                    v.push(w as i32);
                }
            }
        }
    }
    for _ in 0..6 {
        if a.max > a.min {
            v.push(rng.range(a.min as i64, a.max as i64) as i32);
        }
        v.push(rng.u32() as i32);
    }
    v
}

impl C13 {
    fn check_axis(&self, cx: &mut Ctx, rng: &mut Rng, axes: &[Axis], maps: Option<&[SegMap]>, k: usize) {
        let fvar_bytes = write_fvar(axes);
        if axes.len() >= 2 {
            cx.class(if fvar_axis_size(&fvar_bytes) == 20 { "fvar:axisSize=20" } else { "fvar:axisSize>20,several-axes" });
        }
        if fvar_axes_offset(&fvar_bytes) != 16 {
            cx.class("fvar:axesArrayOffset>16");
        }
        let avar_bytes = maps.map(write_avar);
        let fvar = match ReadScope::new(&fvar_bytes).read::<FvarTable<'_>>() {
            Ok(f) => f,
            Err(e) => {
                cx.violation("fvar-rejected", "fvar-rejected", J::s(format!("{:?} axes {:?}", e, axes)));
                return;
            }
        };
        let avar = match &avar_bytes {
            Some(b) => match ReadScope::new(b).read::<AvarTable<'_>>() {
                Ok(a) => Some(a),
                Err(e) => {
                    cx.violation("avar-rejected", "avar-rejected", J::s(format!("{:?} maps {:?}", e, maps)));
                    return;
                }
            },
            None => None,
        };
        let a = &axes[k];
        let map = maps.map(|m| &m[k]);
        let degenerate_neg = a.def == a.min;
        let degenerate_pos = a.def == a.max;
        let mut users = user_values(rng, a, map);
        let sweep_monotone = rng.chance(1, 4);
        if sweep_monotone {
            users.clear();
            let span = a.max as i128 - a.min as i128;
            for i in 0..=256i128 {
                users.push((a.min as i128 + span * i / 256) as i32);
            }
        }
        let mut prev: Option<(i32, i16)> = None;
        let mut sorted_users = users.clone();
        sorted_users.sort();
        let users = if sweep_monotone { sorted_users } else { users };
        for &u in &users {
            let tuple: Vec<Fixed> = (0..axes.len())
                .map(|i| Fixed::from_raw(if i == k { u } else { axes[i].def }))
                .collect();
            let got = match fvar.normalize(tuple.iter().copied(), avar.as_ref()) {
                Ok(t) => t,
                Err(e) => {
                    cx.violation(
                        "normalize-error",
                        "normalize-error",
                        J::s(format!("{:?} for axes {:?} maps {:?} user {}", e, axes, maps, u)),
                    );
                    return;
                }
            };
            let got_raw: Vec<i16> = (0..axes.len()).map(|i| got.get(i).map(|v| v.raw_value()).unwrap_or(i16::MIN)).collect();
            // other axes sit at their default: must be exactly 0
            for (i, &g) in got_raw.iter().enumerate() {
                if i != k && g != 0 {
                    cx.violation("default-not-zero", "default-not-zero", J::s(format!("axis {} at default gave {} ({:?})", i, g, axes[i])));
                }
            }
            let g = got_raw[k];
            let x0 = model_default(a, u);
            let (x1, slope) = match map {
                Some(m) => {
                    let (y, s) = model_avar(m, clamp_unit(x0));
                    (clamp_unit(y), s)
                }
                None => (clamp_unit(x0), 1.0),
            };
            let exact_units = x1.to_f64() * 16384.0;
            let tol = 1.0f64.max(slope) + 1e-6;
            let err = (g as f64 - exact_units).abs();
            if err > tol {
                let sig = if map.is_some() { "avar-accuracy" } else { "default-accuracy" };
                cx.violation(
                    "accuracy",
                    sig,
                    J::obj(vec![
                        ("axis", J::s(format!("{:?}", a))),
                        ("map", J::s(format!("{:?}", map))),
                        ("user_raw", J::I(u as i64)),
                        ("observed_f2dot14", J::I(g as i64)),
                        ("exact_f2dot14_units", J::F(exact_units)),
                        ("slope", J::F(slope)),
                    ]),
                );
            }
            // exact fixed points
            let exp_exact = if u == a.def {
                Some(0i16)
            } else if u == a.min && !degenerate_neg {
                Some(-16384)
            } else if u == a.max && !degenerate_pos {
                Some(16384)
            } else {
                None
            };
            if let Some(e) = exp_exact {
                if g != e {
                    cx.violation(
                        "fixed-point",
                        "min-default-max-not-exact",
                        J::s(format!("axis {:?} map {:?} user {} gave {} expected {}", a, map, u, g, e)),
                    );
                }
                cx.class("fixed-point-checked");
            }
            if g < -16384 || g > 16384 {
                cx.violation("range", "outside-unit-range", J::s(format!("axis {:?} user {} gave {}", a, u, g)));
            }
            if sweep_monotone {
                if let Some((pu, pg)) = prev {
                    if g < pg {
                        cx.violation(
                            "monotone",
                            "not-monotone",
                            J::s(format!("axis {:?} map {:?}: user {} -> {} but user {} -> {}", a, map, pu, pg, u, g)),
                        );
                    }
                }
                prev = Some((u, g));
            }
            cx.class(if map.is_some() { "value:avar" } else { "value:default" });
            if slope > 1.0 {
                cx.class("steep-segment");
            }
        }
        if sweep_monotone {
            cx.class("monotone-sweep");
        }
        // wrong-length tuples are rejected
        for wrong in [axes.len() + 1, axes.len().saturating_sub(1)] {
            if wrong == axes.len() {
                continue;
            }
            let t: Vec<Fixed> = (0..wrong).map(|_| Fixed::from_raw(0)).collect();
            if fvar.normalize(t.iter().copied(), avar.as_ref()).is_ok() {
                cx.violation("wrong-length", "wrong-length-accepted", J::s(format!("{} values for {} axes", wrong, axes.len())));
            }
            cx.class("wrong-length-rejected");
        }
    }
}

impl Prop for C13 {
    fn exhaustive(&mut self, cx: &mut Ctx, shard: u64, of: u64) {
        // all 65536 F2Dot14 raw values through the fixed-point conversions
        let mut n = 0u64;
        for r in i16::MIN..=i16::MAX {
            if (r as i32 - i16::MIN as i32) as u64 % of != shard {
                continue;
            }
            n += 1;
            let f = F2Dot14::from_raw(r);
            let fx = Fixed::from(f);
            if fx.raw_value() != (r as i32) << 2 {
                cx.violation("conversion", "f2dot14-to-fixed", J::s(format!("raw {} -> {}", r, fx.raw_value())));
            }
            let back = F2Dot14::from(fx);
            if back.raw_value() != r {
                cx.violation("conversion", "fixed-to-f2dot14", J::s(format!("raw {} -> {} -> {}", r, fx.raw_value(), back.raw_value())));
            }
            // the "+2 >> 2" rounding rule for the three 16.16 values around r<<2
            for d in [-2i32, -1, 1, 2] {
                let raw = ((r as i32) << 2) + d;
                let exp = ((raw + 2) >> 2).clamp(i16::MIN as i32, i16::MAX as i32);
                if ((raw + 2) >> 2) == exp {
                    let got = F2Dot14::from(Fixed::from_raw(raw)).raw_value();
                    if got as i32 != exp {
                        cx.violation("conversion", "fixed-to-f2dot14-rounding", J::s(format!("16.16 raw {} -> {} expected {}", raw, got, exp)));
                    }
                }
            }
            let fl = f32::from(f);
            if fl != r as f32 / 16384.0 {
                cx.violation("conversion", "f2dot14-to-f32", J::s(format!("raw {} -> {}", r, fl)));
            }
            // f32 -> F2Dot14 round trip is exact (every 2.14 value is an f32)
            if r != i16::MIN {
                let rt = F2Dot14::from(fl).raw_value();
                if rt != r {
                    cx.violation("conversion", "f32-to-f2dot14", J::s(format!("raw {} -> {} -> {}", r, fl, rt)));
                }
            }
            let fl2 = f32::from(fx);
            if fl2 != fl {
                cx.violation("conversion", "fixed-to-f32", J::s(format!("raw {} -> {} vs {}", r, fl2, fl)));
            }
            if Fixed::from(fl).raw_value() != fx.raw_value() {
                cx.violation("conversion", "f32-to-fixed", J::s(format!("{} -> {} expected {}", fl, Fixed::from(fl).raw_value(), fx.raw_value())));
            }
        }
        cx.class_n("exhaustive:f2dot14-values", n);
        cx.evals += n;
    }

    fn case(&mut self, cx: &mut Ctx, rng: &mut Rng) {
        if rng.chance(1, 16) {
            // float -> 16.16 conversion used for user coordinates: round(value * 65536), half away from zero
            for _ in 0..32 {
                let int = rng.range(-2000, 2000) as f64;
                let frac = match rng.below(4) {
                    0 => 1.0 - (rng.below(8) as f64 + 1.0) / 1048576.0,
                    1 => (rng.below(65536) as f64) / 65536.0,
                    2 => (rng.below(65536) as f64 + 0.5) / 65536.0,
                    _ => rng.u32() as f64 / 4294967296.0,
                };
                let v = if int < 0.0 { int - frac } else { int + frac };
                let exp = (v.abs() * 65536.0).round() as i64 * if v < 0.0 { -1 } else { 1 };
                let got = Fixed::from(v).raw_value() as i64;
                if got != exp {
                    let sig = if (v.abs().fract() * 65536.0).round() >= 65536.0 { "f64-to-fixed:fraction-rounds-to-one" } else { "f64-to-fixed" };
                    cx.violation("conversion", sig, J::s(format!("Fixed::from({:?}) raw {} expected {}", v, got, exp)));
                }
                let vf = v as f32;
                let expf = ((vf.abs() as f64) * 65536.0).round() as i64 * if vf < 0.0 { -1 } else { 1 };
                let gotf = Fixed::from(vf).raw_value() as i64;
                if gotf != expf {
                    let sig = if ((vf.abs() as f64).fract() * 65536.0).round() >= 65536.0 { "f32-to-fixed:fraction-rounds-to-one" } else { "f32-to-fixed" };
                    cx.violation("conversion", sig, J::s(format!("Fixed::from({:?}f32) raw {} expected {}", vf, gotf, expf)));
                }
            }
            cx.class("float-to-fixed");
            cx.nontrivial(rng.u64());
            return;
        }
        let n_axes = 1 + rng.below(3);
        let axes: Vec<Axis> = (0..n_axes).map(|_| gen_axis(rng)).collect();
        let with_avar = rng.chance(2, 3);
        let maps: Option<Vec<SegMap>> = if with_avar {
            Some((0..n_axes).map(|_| if rng.chance(1, 6) { vec![(-16384, -16384), (0, 0), (16384, 16384)] } else { gen_segmap(rng) }).collect())
        } else {
            None
        };
        let k = rng.below(n_axes);
        let a = &axes[k];
        if a.min == a.def {
            cx.class("degenerate:min=default");
        }
        if a.max == a.def {
            cx.class("degenerate:default=max");
        }
        if cx.want_sample() {
            cx.sample(J::obj(vec![
                ("axes", J::s(format!("{:?}", axes))),
                ("avar", J::s(format!("{:?}", maps))),
                ("axis_under_test", J::U(k as u64)),
            ]));
        }
        let h = hash_str(&format!("{:?}{:?}{}", axes, maps, k));
        self.check_axis(cx, rng, &axes, maps.as_deref(), k);
        cx.nontrivial(h);
    }
}
