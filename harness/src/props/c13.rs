//! C13 — (stub, under construction)

use super::Prop;
use crate::rt::*;

pub struct C13 {}

impl C13 {
    pub fn new(_cx: &mut Ctx) -> C13 {
        C13 {}
    }
}

impl Prop for C13 {
    fn case(&mut self, cx: &mut Ctx, _rng: &mut Rng) {
        cx.inconclusive("not-implemented");
    }
}
