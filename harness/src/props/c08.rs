//! C08 — (stub, under construction)

use super::Prop;
use crate::rt::*;

pub struct C08 {}

impl C08 {
    pub fn new(_cx: &mut Ctx) -> C08 {
        C08 {}
    }
}

impl Prop for C08 {
    fn case(&mut self, cx: &mut Ctx, _rng: &mut Rng) {
        cx.inconclusive("not-implemented");
    }
}
