//! C08 — subsetting preserves the character mapping of retained glyphs.
//!
//! Reference-map oracle: the expected map {character -> new glyph id} is computed from the source
//! font's selected cmap subtable as decoded by the independent cmap reader and from the requested
//! id list; the observed map is the output's cmap decoded by the same independent reader (complete
//! enumeration of the emitted subtable) and, separately, `Font::lookup_glyph_index` on the reloaded
//! output.

use super::c07::common::*;
use super::c07::subset_case;
use super::Prop;
use crate::rt::*;
use crate::sfnt::cmap::{self as icmap, EncKind};
use crate::sfnt::{self, be16};
use allsorts::binary::read::ReadScope;
use allsorts::font::MatchingPresentation;
use allsorts::font_data::FontData;
use allsorts::Font;
use std::collections::{BTreeMap, BTreeSet, HashMap};

pub struct C08 {
    w: Workload,
}

impl C08 {
    pub fn new(cx: &mut Ctx) -> C08 {
        C08 { w: Workload::new(cx) }
    }
}

fn kind_name(k: EncKind) -> &'static str {
    match k {
        EncKind::Unicode => "unicode",
        EncKind::Symbol => "symbol",
        EncKind::MacRoman => "macroman",
        EncKind::Big5 => "big5",
    }
}

struct Expect {
    map: BTreeMap<u32, u16>,
    /// characters of glyphs that were only pulled in as composite components: new id or 0
    optional: BTreeSet<u32>,
    /// characters reached from two source codes with different glyphs: not judged
    ambiguous: BTreeSet<u32>,
}

fn expectation(case: &Case, sel: &CmapSel, mac: bool) -> Expect {
    let src = &case.src;
    let pos: HashMap<u16, u16> = case.ids.iter().enumerate().map(|(k, g)| (*g, k as u16)).collect();
    let extras = src.closure_extras(&case.ids);
    let mut e = Expect { map: BTreeMap::new(), optional: BTreeSet::new(), ambiguous: BTreeSet::new() };
    for (c, g) in &sel.pairs {
        let ch = match source_char(*c, sel.kind, mac, src.os2_first_char) {
            Some(ch) => ch,
            None => continue,
        };
        if mac && mac_byte(ch).is_none() {
            continue;
        }
        if let Some(new) = pos.get(g) {
            match e.map.get(&ch) {
                Some(x) if x != new => {
                    e.ambiguous.insert(ch);
                }
                _ => {
                    e.map.insert(ch, *new);
                }
            }
        } else if extras.contains(g) {
            e.optional.insert(ch);
        }
    }
    for a in &e.ambiguous {
        e.map.remove(a);
    }
    e
}

fn mismatch_sig(fmt: u16, want: u16, got: u16) -> String {
    if fmt == 0 && want > 255 && got == (want & 0xFF) {
        "format0:glyph-id-above-255-truncated".to_string()
    } else if got == 0 {
        format!("format{}:retained-char-unmapped", fmt)
    } else {
        format!("format{}:retained-char-wrong-glyph", fmt)
    }
}

pub fn check_cmap(cx: &mut Ctx, rng: &mut Rng, case: &Case, out: &[u8]) {
    let src = &case.src;
    let nreq = case.ids.len();
    let sel = match &src.cmap {
        // Big5 sources are judged when generated (every mapped code is in the independent Big5 sample)
        Some(s) if s.kind != EncKind::Big5 || src.generated => s,
        _ => {
            cx.class("source:no-judgeable-cmap");
            return;
        }
    };
    let target = match &case.op {
        Op::Subset => Target::Unrestricted,
        Op::Prince { target, .. } => target.clone(),
        _ => return,
    };
    let font = match sfnt::Font::parse(out) {
        Some(f) => f,
        None => {
            cx.violation("output-readable", "output-unparsable", case.witness("table directory".into()));
            return;
        }
    };
    let ocmap = font.gets("cmap");
    match &target {
        Target::Omit => {
            if ocmap.is_some() {
                cx.violation("target", "omit-target-has-cmap", case.witness("the Omit target produced a cmap table".into()));
            } else {
                cx.class("target:omit-no-cmap");
                cx.nontrivial(case.hash());
            }
            return;
        }
        Target::Supplied(a) => {
            let ok = (|| {
                let c = ocmap?;
                let recs = icmap::read_records(c)?;
                if recs.len() != 1 || recs[0].platform != 1 || recs[0].encoding != 0 {
                    return None;
                }
                let off = recs[0].offset as usize;
                if be16(c, off)? != 0 {
                    return None;
                }
                Some(c.get(off + 6..off + 262)? == &a[..])
            })();
            if ok != Some(true) {
                cx.violation("target", "supplied-array-not-used", case.witness("the output cmap is not a single (1,0) format 0 subtable holding the supplied array".into()));
            } else {
                cx.class("target:supplied-array-verbatim");
                cx.nontrivial(case.hash());
            }
            return;
        }
        _ => {}
    }
    let mac = matches!(target, Target::MacRoman);
    let exp = expectation(case, sel, mac);
    // ---- observed: independent reader -----------------------------------------------------------
    let (ocmap, okind, off, fmt, pairs) = match (|| {
        let c = ocmap?;
        let recs = icmap::read_records(c)?;
        let (i, k) = icmap::select(&recs)?;
        let off = recs[i].offset as usize;
        let fmt = icmap::subtable_format(c, off)?;
        let pairs = icmap::enumerate(c, off)?;
        Some((c, k, off, fmt, pairs))
    })() {
        Some(x) => x,
        None => {
            cx.violation("output-readable", "output-cmap-unreadable", case.witness("the independent reader cannot select / decode a cmap subtable of the output".into()));
            return;
        }
    };
    let _ = (ocmap, off);
    let mut observed: BTreeMap<u32, u16> = BTreeMap::new();
    for (code, g) in &pairs {
        let ch = match okind {
            EncKind::MacRoman => {
                if *code < 256 && !MAC_AMBIGUOUS_BYTES.contains(&(*code as u8)) {
                    MAC_ROMAN_PY[*code as usize]
                } else {
                    continue;
                }
            }
            _ => *code,
        };
        observed.insert(ch, *g);
    }
    let mut exp = exp;
    // Bytes / characters on which Mac Roman tables legitimately differ are not judged whenever a Mac
    // Roman conversion is involved on either side: a Mac Roman source subtable (byte 0xDB becomes
    // U+00A4 in allsorts, U+20AC in Apple's current table, whatever format the output has), the Mac
    // Roman target, or a Mac Roman output subtable.
    let mac_involved = sel.kind == EncKind::MacRoman || mac || okind == EncKind::MacRoman;
    if mac_involved {
        let amb: Vec<u32> = exp.map.keys().copied().filter(|c| mac_ambiguous_char(*c)).collect();
        for a in amb {
            exp.map.remove(&a);
            exp.ambiguous.insert(a);
        }
        let seen: Vec<u32> = observed.keys().copied().filter(|c| mac_ambiguous_char(*c)).collect();
        for a in seen {
            observed.remove(&a);
            exp.ambiguous.insert(a);
        }
        cx.class("mac-roman-conversion-involved");
    }
    let wit = |what: String| {
        let mut j = case.witness(what);
        if let J::O(items) = &mut j {
            items.push(("source_cmap".to_string(), J::s(format!("({},{}) format {} {}", sel.platform, sel.encoding, sel.format, kind_name(sel.kind)))));
            items.push(("output_cmap".to_string(), J::s(format!("format {} {}", fmt, kind_name(okind)))));
            items.push(("target".to_string(), J::s(if mac { "MacRoman" } else { "Unrestricted" })));
        }
        j
    };
    for (ch, new) in &exp.map {
        let got = observed.get(ch).copied().unwrap_or(0);
        if got != *new {
            let sig = mismatch_sig(fmt, *new, got);
            cx.violation("cmap-map", &sig, wit(format!("character {:#x} (source glyph {}) must map to new glyph {}, the output cmap maps it to {}", ch, case.ids[*new as usize], new, got)));
            return;
        }
    }
    let mut component_chars = 0;
    for (ch, got) in &observed {
        if exp.map.contains_key(ch) || exp.ambiguous.contains(ch) {
            continue;
        }
        if exp.optional.contains(ch) && *got as usize >= nreq {
            component_chars += 1;
            continue;
        }
        cx.violation("cmap-map", &format!("format{}:unretained-char-mapped", fmt), wit(format!("character {:#x} maps to glyph {} in the output but to no retained glyph in the source", ch, got)));
        return;
    }
    // ---- observed: allsorts' own reader on the reloaded output ------------------------------------
    let mut probes: Vec<u32> = exp.map.keys().copied().collect();
    let mut src_chars: Vec<u32> = sel.pairs.iter().filter_map(|(c, _)| source_char(*c, sel.kind, mac, src.os2_first_char)).collect();
    if src_chars.len() > 1500 {
        rng.shuffle(&mut src_chars);
        src_chars.truncate(1500);
    }
    if probes.len() > 3000 {
        rng.shuffle(&mut probes);
        probes.truncate(3000);
    }
    probes.extend(src_chars);
    probes.extend([0u32, 0x20, 0x41, 0x7E, 0x7F, 0x80, 0xA4, 0xFF, 0x100, 0x2020, 0xEFFF, 0xF020, 0xF041, 0xF0FF, 0xF100, 0xFFFD, 0xFFFE, 0xFFFF, 0x10000, 0x1F600, 0x10FFFF]);
    for _ in 0..30 {
        probes.push(if rng.bool() { rng.below(0x10000) as u32 } else { rng.below(0x110000) as u32 });
    }
    if let Some(&last) = exp.map.keys().last() {
        probes.extend([last.wrapping_add(1), last.wrapping_sub(1)]);
    }
    let out_first = font.gets("OS/2").and_then(|o| be16(o, 64)).unwrap_or(0x20) as u32;
    let mut jobs: Vec<(char, u16)> = Vec::new();
    for p in probes {
        let ch = match char::from_u32(p) {
            Some(c) => c,
            None => continue,
        };
        // the code allsorts is expected to look up for this character in the output subtable
        let key = match okind {
            EncKind::Unicode => p,
            EncKind::Symbol => {
                let c0 = if (0xF000..=0xF0FF).contains(&p) { p - 0xF000 } else { p };
                (c0 + out_first).wrapping_sub(0x20)
            }
            EncKind::MacRoman => {
                if mac_byte(p).is_some() || (p >= 0x100 && !(0xF000..=0xF0FF).contains(&p) && !mac_ambiguous_char(p)) {
                    p
                } else {
                    continue;
                }
            }
            EncKind::Big5 => continue,
        };
        if exp.optional.contains(&key) || exp.ambiguous.contains(&key) || p == 0x25CC || (mac_involved && (mac_ambiguous_char(p) || mac_ambiguous_char(key))) {
            continue;
        }
        jobs.push((ch, exp.map.get(&key).copied().unwrap_or(0)));
    }
    let res = cx.guard("reload-and-lookup", out.len(), || -> Result<Vec<(char, u16, u16)>, String> {
        let fd = ReadScope::new(out).read::<FontData<'_>>().map_err(|e| format!("{:?}", e))?;
        let p = fd.table_provider(0).map_err(|e| format!("{:?}", e))?;
        let mut f = Font::new(p).map_err(|e| format!("{:?}", e))?;
        Ok(jobs.iter().map(|(ch, want)| (*ch, *want, f.lookup_glyph_index(*ch, MatchingPresentation::NotRequired, None).0)).filter(|(_, w, g)| w != g).take(1).collect())
    });
    match res {
        None => return,
        Some(Err(e)) => {
            cx.violation("reload", "output-rejected-by-font-new", wit(format!("Font::new on the output: {}", e)));
            return;
        }
        Some(Ok(bad)) => {
            if let Some((ch, want, got)) = bad.first() {
                cx.violation("lookup-glyph-index", &mismatch_sig(fmt, *want, *got), wit(format!("Font::lookup_glyph_index({:#x}) on the reloaded output is {} expected {}", *ch as u32, got, want)));
                return;
            }
        }
    }
    // ---- classes ------------------------------------------------------------------------------------
    cx.class(&format!("out-cmap:format{}-{}", fmt, kind_name(okind)));
    cx.class(&format!("src-cmap:{}-format{}", kind_name(sel.kind), sel.format));
    cx.class(if mac { "target:macroman" } else { "target:unrestricted" });
    cx.class(&format!("container:{}", case.container.name()));
    cx.class(match src.kind {
        Kind::TrueType => "source:truetype",
        Kind::Cff => "source:cff",
        Kind::Cff2 => "source:cff2",
    });
    if sel.kind == EncKind::Big5 && sel.format == 2 {
        cx.class("source:big5-format2");
        if src.big5_holes.iter().any(|(_, d)| case.ids.contains(d)) {
            cx.class("big5:hole-with-nonzero-iddelta-and-retained-delta-glyph");
        }
    }
    if component_chars > 0 {
        cx.class("component-only-char-mapped");
    }
    if !exp.optional.is_empty() {
        cx.class("component-only-char-present");
    }
    if !exp.map.is_empty() {
        let keys: Vec<u32> = exp.map.keys().copied().collect();
        for w in keys.windows(2) {
            let gap = w[1] - w[0] - 1;
            if (1..=5).contains(&gap) {
                cx.class(&format!("retained-char-gap:{}", gap));
            }
        }
        let mut per_glyph: HashMap<u16, u32> = HashMap::new();
        for g in exp.map.values() {
            *per_glyph.entry(*g).or_insert(0) += 1;
        }
        if per_glyph.values().any(|c| *c > 1) {
            cx.class("two-chars-same-glyph");
        }
        if exp.map.contains_key(&0xFFFF) {
            cx.class("char-0xFFFF-retained");
        }
        if keys.iter().any(|c| *c > 0xFFFF) {
            cx.class("astral-char-retained");
        }
        let all_mac = sel.kind != EncKind::Symbol && keys.iter().all(|c| mac_byte(*c).is_some());
        if all_mac && exp.map.values().any(|g| *g > 255) {
            cx.class("macroman-chars-only-with-glyph-above-255");
        }
        if nreq > 255 {
            cx.class("more-than-255-glyphs");
        }
        cx.nontrivial(case.hash());
    } else {
        cx.class("no-retained-char");
    }
    if cx.want_sample() {
        cx.sample(J::obj(vec![
            ("font", J::s(src.name.clone())),
            ("ids", J::U(nreq as u64)),
            ("op", J::s(case.op.name())),
            ("container", J::s(case.container.name())),
            ("retained_chars", J::U(exp.map.len() as u64)),
            ("output_cmap", J::s(format!("format {} {}", fmt, kind_name(okind)))),
        ]));
    }
}

impl Prop for C08 {
    fn case(&mut self, cx: &mut Ctx, rng: &mut Rng) {
        let (mut case, _) = match subset_case(&mut self.w, cx, rng, [14, 5, 3, 1, 1, 2], None) {
            Some(c) => c,
            None => return,
        };
        // the Prince API returns a bare CFF table for CFF sources: no cmap to judge
        if case.src.kind != Kind::TrueType {
            case.op = Op::Subset;
        }
        // Big5 / format 2 sources: often retain the glyph whose number is the idDelta of a sub-header
        // that has holes (zero entries must stay unmapped, they must not become that glyph)
        if !case.src.big5_holes.is_empty() && rng.chance(2, 3) {
            let d = rng.pick(&case.src.big5_holes).1;
            if !case.ids.contains(&d) && (d as usize) < case.src.num_glyphs && case.ids.len() < 400 {
                case.ids.push(d);
            }
        }
        let out = match run_op(cx, &case) {
            None => return,
            Some(Err(e)) => {
                cx.class(&format!("op-error:{}", e.chars().take(40).collect::<String>()));
                return;
            }
            Some(Ok(o)) => o,
        };
        check_cmap(cx, rng, &case, &out);
    }
}
