#!/usr/bin/env python3
"""Regenerates MANIFEST.json from the tables below (keeps it valid at all times)."""
import json, subprocess, os
ROOT = os.path.dirname(os.path.abspath(__file__))
import sys
sys.path.insert(0, ROOT)
from checkplan import PLAN

BASELINE = json.load(open('/root/.vp/BASELINE.json'))['cmd']

from checkplan import MANIFEST_TEXT as CHECKS

ALL = ["C%02d" % i for i in range(1, 19)]
PENDING_REASON = "check not built yet (under construction; see DESIGN.md §8 build order) - no claim is made"
try:
    NA_REASONS = json.load(open(os.path.join(ROOT, "plan.d", "not_applicable.json")))
except Exception:
    NA_REASONS = {}

def main():
    hooks = subprocess.run(["git", "-C", "/repo", "log", "--format=%H %s"], capture_output=True, text=True).stdout.splitlines()
    hook_commits = [l.split()[0] for l in hooks if " verif-hooks:" in l]
    checks = []
    for pid in ALL:
        if pid in CHECKS and pid in PLAN:
            c = CHECKS[pid]
            checks.append({
                "property_id": pid,
                "quick_cmd": f"./check {pid} --tier quick",
                "thorough_cmd": f"./check {pid} --tier thorough",
                "evidence_file": f"/verif/evidence/{pid}.json",
                "replay_cmd_template": f"./check {pid} --replay {{path}}",
                "engine": "vh",
                "level_claimed": {"category": c["cat"], "text": c["text"], "design_ref": c["ref"]},
                "level_note": c["note"],
                "technique": c["technique"],
            })
    na = [{"property_id": p, "reason": NA_REASONS.get(p, PENDING_REASON)} for p in ALL if p not in CHECKS or p not in PLAN]
    m = {
        "version": 1,
        "setup_cmd": "./check --setup",
        "hooks": {
            "guard": "cargo feature verif-hooks (allsorts/verif-hooks)",
            "enable": "harness/Cargo.toml depends on allsorts at /repo with features [outline, prince, verif-hooks]; every ./check run does cargo build against /repo's working tree",
            "baseline_off_cmd": BASELINE,
            "source_commits": hook_commits,
            "add_only": True,
        },
        "engines": [{"name": "vh", "path": "/verif/harness", "serves_properties": [c["property_id"] for c in checks],
                     "kind_free_text": "Rust worker (generators, reference models, monitors) supervised by the python driver ./check"}],
        "checks": checks,
        "notes": "Runtime monitoring only. Known findings: /verif/known_findings.json. VERIF_SEED and VERIF_TIER are honoured.",
        "not_applicable": na,
    }
    json.dump(m, open(os.path.join(ROOT, "MANIFEST.json"), "w"), indent=1)
    print("wrote MANIFEST.json with", len(checks), "checks")

main()
