#!/usr/bin/env python3
"""Regenerates MANIFEST.json from the tables below (keeps it valid at all times)."""
import json, subprocess, os
ROOT = os.path.dirname(os.path.abspath(__file__))
import sys
sys.path.insert(0, ROOT)
from checkplan import PLAN

BASELINE = json.load(open('/root/.vp/BASELINE.json'))['cmd']

CHECKS = {
 "C01": dict(
    cat="fault_enumeration",
    text="Runtime monitoring under structure-aware fault injection: every public entry point is driven on real fonts with 1-4 injected faults while panic, allocation (refusal + peak), CPU-time, stack and read-window monitors watch; the supervisor attributes aborts/hangs to the case in flight. Holds on the executions observed; known crash sites are listed individually in known_findings.json.",
    ref="DESIGN.md §4 C01",
    note="Trusted: monitor thresholds (1 GiB request, 256 MiB+512 B/byte peak, 4 s+40 us/byte CPU, 8 MiB stack); strict build profile. Not covered: inputs outside the fault operators' reach.",
    technique="fault injection + panic/alloc/CPU/stack monitors in supervised workers"),
 "C06": dict(
    cat="exploration",
    text="Runtime monitoring against an abstract code->glyph map: generated cmap tables in every format and layout variant, written by an independent writer, are probed through every lookup API and through whole-font lookup with all supported encodings; real fonts are compared with an independent reader; the character-set conversions are checked exhaustively.",
    ref="DESIGN.md §4 C06",
    note="Trusted: the independent cmap writer/reader (self-tested against each other at setup) and the Python-codec tables; the documented subtable preference order.",
    technique="reference-model oracle over generated cmap tables + exhaustive conversion sub-spaces"),
 "C10": dict(
    cat="exploration",
    text="Runtime monitoring by conservation: whatever table bytes the harness's own sfnt/TTC/WOFF writers store must come back byte-for-byte through every container reader, with the tag set, flavour, absence and out-of-range member behaviour checked; both flate2 backends in the thorough tier.",
    ref="DESIGN.md §4 C10",
    note="Trusted: the independent container writers. zlib encoding by flate2.",
    technique="round-trip/conservation oracle over generated containers"),
 "C11": dict(
    cat="exploration",
    text="Runtime monitoring by round trip through an independent WOFF2 encoder that exercises every encoder choice the format allows; the decoded tables are judged by an independent sfnt/glyf/hmtx reader against the abstract font, and the variable-length integer codecs are covered exhaustively.",
    ref="DESIGN.md §4 C11",
    note="Trusted: the harness's WOFF2 encoder (triplet encoder self-tested against the W3C decoding table at setup) and glyf/hmtx readers. Brotli streams are stored (uncompressed meta-blocks).",
    technique="round-trip oracle through an independent encoder + exhaustive varint sub-spaces"),
 "C13": dict(
    cat="exploration",
    text="Runtime monitoring against an exact rational reference model of fvar/avar normalisation over generated axis triples, segment maps and user values, with exhaustive coverage of all 65536 F2Dot14 values for the fixed-point conversions.",
    ref="DESIGN.md §4 C13",
    note="Trusted: the model's reading of the OpenType normalisation algorithm; harness fvar/avar writers (self-checked by allsorts parsing them).",
    technique="reference-model oracle over generated inputs + exhaustive sub-space"),
 "C14": dict(
    cat="exploration",
    text="Runtime monitoring: random reader-operation programs over poisoned buffers checked step by step against a shadow model, with the read-window hook, Miri, ASan and memcheck as out-of-bounds detectors; plus real/faulted font parsing under the hook. Holds on the executions observed only.",
    ref="DESIGN.md §4 C14",
    note="Trusted: the shadow model; hook placement in the four primitive readers; Miri/ASan/valgrind semantics. Not covered: reader operations on types with non-unit Args other than those the real parsers use.",
    technique="shadow-model monitor over op histories + read-window hook + Miri/ASan/memcheck"),
 "C16": dict(
    cat="exploration",
    text="Runtime monitoring against a contour/transform reference model: generated glyf tables (all on/off-curve patterns, flag encodings, composite transform kinds and nesting) are visited and the delivered drawing commands compared with the model modulo start-point rotation.",
    ref="DESIGN.md §4 C16",
    note="Trusted: the independent glyf writer/reader (round-trip self-check per case) and the model's reading of the glyf specification. Point-matching composites and scaled component offsets are exercised but not judged.",
    technique="reference-model oracle over generated glyf tables (recording OutlineSink)"),
 "C17": dict(
    cat="exploration",
    text="Runtime monitoring of text preprocessing against table-free relational invariants (permutation, bases fixed, mark runs permuted within themselves, content changes explained by the documented rewrites) and exact per-script reference models (stable sort by modified combining class, UTR #53, AM / Indic / Khmer rewrites) over generated hostile texts and an enumerated small-text sub-space.",
    ref="DESIGN.md §4 C17",
    note="Trusted: Python unicodedata tables (generated file), the transcribed modified-combining-class table and prohibited-pair list, the UTR #53 reference.",
    technique="relational invariants + reference-model oracle over generated texts"),
}

ALL = ["C%02d" % i for i in range(1, 19)]
PENDING_REASON = "check not built yet in this round (under construction; see DESIGN.md §8 build order) - no claim is made"

def main():
    hooks = subprocess.run(["git", "-C", "/repo", "log", "--format=%H %s"], capture_output=True, text=True).stdout.splitlines()
    hook_commits = [l.split()[0] for l in hooks if " verif-hooks:" in l]
    checks = []
    for pid in ALL:
        if pid in CHECKS and pid in PLAN:
            c = CHECKS[pid]
            checks.append({
                "property_id": pid,
                "quick_cmd": f"./check {pid} --tier quick",
                "thorough_cmd": f"./check {pid} --tier thorough",
                "evidence_file": f"/verif/evidence/{pid}.json",
                "replay_cmd_template": f"./check {pid} --replay {{path}}",
                "engine": "vh",
                "level_claimed": {"category": c["cat"], "text": c["text"], "design_ref": c["ref"]},
                "level_note": c["note"],
                "technique": c["technique"],
            })
    na = [{"property_id": p, "reason": PENDING_REASON} for p in ALL if p not in CHECKS or p not in PLAN]
    m = {
        "version": 1,
        "setup_cmd": "./check --setup",
        "hooks": {
            "guard": "cargo feature verif-hooks (allsorts/verif-hooks)",
            "enable": "harness/Cargo.toml depends on allsorts at /repo with features [outline, prince, verif-hooks]; every ./check run does cargo build against /repo's working tree",
            "baseline_off_cmd": BASELINE,
            "source_commits": hook_commits,
            "add_only": True,
        },
        "engines": [{"name": "vh", "path": "/verif/harness", "serves_properties": [c["property_id"] for c in checks],
                     "kind_free_text": "Rust worker (generators, reference models, monitors) supervised by the python driver ./check"}],
        "checks": checks,
        "notes": "Runtime monitoring only. Known findings: /verif/known_findings.json. VERIF_SEED and VERIF_TIER are honoured.",
        "not_applicable": na,
    }
    json.dump(m, open(os.path.join(ROOT, "MANIFEST.json"), "w"), indent=1)
    print("wrote MANIFEST.json with", len(checks), "checks")

main()
